//! R4: reference reader / writer for RFC 3339 date-times (section 5.6 ABNF), integer arithmetic only.
//! Shares no code with the `time` or `iso8601` crates the library uses.

#[derive(Clone, Copy, Debug, PartialEq, Eq)]
pub enum Class {
    /// the section 5.6 grammar with upper-case 'T' and 'Z', second <= 59, offset hh <= 23, mm <= 59, real date
    Strict,
    /// forms RFC 3339 permits but not everybody takes: lower-case 't'/'z', blank separator, second 60
    Lenient,
}

pub fn days_from_civil(y: i64, m: i64, d: i64) -> i64 {
    let y = if m <= 2 { y - 1 } else { y };
    let era = if y >= 0 { y } else { y - 399 } / 400;
    let yoe = y - era * 400;
    let doy = (153 * (if m > 2 { m - 3 } else { m + 9 }) + 2) / 5 + d - 1;
    let doe = yoe * 365 + yoe / 4 - yoe / 100 + doy;
    era * 146097 + doe - 719468
}

pub fn civil_from_days(z: i64) -> (i64, i64, i64) {
    let z = z + 719468;
    let era = if z >= 0 { z } else { z - 146096 } / 146097;
    let doe = z - era * 146097;
    let yoe = (doe - doe / 1460 + doe / 36524 - doe / 146096) / 365;
    let y = yoe + era * 400;
    let doy = doe - (365 * yoe + yoe / 4 - yoe / 100);
    let mp = (5 * doy + 2) / 153;
    let d = doy - (153 * mp + 2) / 5 + 1;
    let m = if mp < 10 { mp + 3 } else { mp - 9 };
    (if m <= 2 { y + 1 } else { y }, m, d)
}

pub fn days_in_month(y: i64, m: i64) -> i64 {
    match m {
        1 | 3 | 5 | 7 | 8 | 10 | 12 => 31,
        4 | 6 | 9 | 11 => 30,
        _ => {
            if (y % 4 == 0 && y % 100 != 0) || y % 400 == 0 {
                29
            } else {
                28
            }
        }
    }
}

fn num(b: &[u8]) -> Option<i64> {
    if b.is_empty() || !b.iter().all(|c| c.is_ascii_digit()) {
        return None;
    }
    Some(b.iter().fold(0i64, |a, c| a * 10 + (*c - b'0') as i64))
}

/// None = not an RFC 3339 date-time. Some((class, instant as nanoseconds since the Unix epoch)).
pub fn parse(s: &str) -> Option<(Class, i128)> {
    let b = s.as_bytes();
    let mut class = Class::Strict;
    if b.len() < 20 {
        return None;
    }
    if b[4] != b'-' || b[7] != b'-' || b[13] != b':' || b[16] != b':' {
        return None;
    }
    let (y, mo, d) = (num(&b[0..4])?, num(&b[5..7])?, num(&b[8..10])?);
    match b[10] {
        b'T' => {}
        b't' | b' ' => class = Class::Lenient,
        _ => return None,
    }
    let (h, mi, sec) = (num(&b[11..13])?, num(&b[14..16])?, num(&b[17..19])?);
    if mo < 1 || mo > 12 || d < 1 || d > days_in_month(y, mo) || h > 23 || mi > 59 || sec > 60 {
        return None;
    }
    if sec == 60 {
        class = Class::Lenient;
    }
    let mut i = 19;
    let mut ns: i128 = 0;
    if b[i] == b'.' {
        i += 1;
        let st = i;
        while i < b.len() && b[i].is_ascii_digit() {
            i += 1;
        }
        if i == st {
            return None;
        }
        let mut scale: i128 = 100_000_000;
        for c in b[st..i].iter().take(9) {
            ns += (*c - b'0') as i128 * scale;
            scale /= 10;
        }
        if i - st > 9 {
            // more precision than a nanosecond: permitted by the grammar, implementations differ
            class = Class::Lenient;
        }
    }
    if i >= b.len() {
        return None;
    }
    let off: i64 = match b[i] {
        b'Z' => {
            if i + 1 != b.len() {
                return None;
            }
            0
        }
        b'z' => {
            if i + 1 != b.len() {
                return None;
            }
            class = Class::Lenient;
            0
        }
        c @ (b'+' | b'-') => {
            if i + 6 != b.len() || b[i + 3] != b':' {
                return None;
            }
            let (oh, om) = (num(&b[i + 1..i + 3])?, num(&b[i + 4..i + 6])?);
            if oh > 23 || om > 59 {
                return None;
            }
            let o = oh * 3600 + om * 60;
            if c == b'-' && o == 0 {
                // "-00:00": valid grammar with the special meaning "local offset unknown" (RFC 3339 4.3)
                class = Class::Lenient;
            }
            if c == b'-' {
                -o
            } else {
                o
            }
        }
        _ => return None,
    };
    let secs = days_from_civil(y, mo, d) * 86400 + h * 3600 + mi * 60 + sec - off;
    Some((class, secs as i128 * 1_000_000_000 + ns))
}

#[derive(Clone, Copy, Debug, PartialEq, Eq)]
pub enum ZForm {
    /// 'Z' (offset must be 0)
    Z,
    /// 'z' (offset must be 0)
    LowerZ,
    /// numeric "+hh:mm" / "-hh:mm" (+00:00 for zero)
    Numeric,
    /// "-00:00" (offset must be 0): "unknown local offset" in RFC 3339
    MinusZero,
}

/// Renders `instant_ns` in the UTC offset `off_s` seconds with `frac` fractional digits (truncating).
/// None if the local year leaves 0000..=9999.
pub fn render(instant_ns: i128, off_s: i64, frac: usize, sep: char, z: ZForm) -> Option<String> {
    let local = instant_ns + off_s as i128 * 1_000_000_000;
    let secs = local.div_euclid(1_000_000_000) as i64;
    let nanos = local.rem_euclid(1_000_000_000) as i64;
    let days = secs.div_euclid(86400);
    let sod = secs.rem_euclid(86400);
    let (y, m, d) = civil_from_days(days);
    if !(0..=9999).contains(&y) {
        return None;
    }
    let fr = if frac == 0 { String::new() } else { format!(".{}", &format!("{:09}", nanos)[..frac.min(9)]) };
    let off = match z {
        ZForm::Z if off_s == 0 => "Z".to_string(),
        ZForm::LowerZ if off_s == 0 => "z".to_string(),
        ZForm::MinusZero if off_s == 0 => "-00:00".to_string(),
        _ => format!("{}{:02}:{:02}", if off_s < 0 { '-' } else { '+' }, off_s.abs() / 3600, off_s.abs() % 3600 / 60),
    };
    Some(format!("{:04}-{:02}-{:02}{}{:02}:{:02}:{:02}{}{}", y, m, d, sep, sod / 3600, sod % 3600 / 60, sod % 60, fr, off))
}

/// every UTC offset -23:59 ..= +23:59 in whole minutes (2 879 values), 0 first
pub fn all_offsets() -> Vec<i64> {
    let mut v = vec![0i64];
    for h in 0..24i64 {
        for m in 0..60i64 {
            if h + m > 0 {
                v.push(h * 3600 + m * 60);
                v.push(-(h * 3600 + m * 60));
            }
        }
    }
    v
}

#[cfg(test)]
mod tests {
    use super::*;
    #[test]
    fn known_instants() {
        assert_eq!(parse("1970-01-01T00:00:00Z"), Some((Class::Strict, 0)));
        assert_eq!(parse("1970-01-01T01:00:00+01:00"), Some((Class::Strict, 0)));
        assert_eq!(parse("2000-03-01T00:00:00.5Z").unwrap().1, 951868800_500_000_000);
        assert_eq!(parse("1969-12-31T23:59:59-00:01").unwrap().1, 59_000_000_000);
        assert_eq!(parse("2023-02-29T00:00:00Z"), None);
        assert_eq!(parse("2024-02-29t00:00:00Z").unwrap().0, Class::Lenient);
        assert_eq!(parse("2024-02-29T00:00:00"), None);
        assert_eq!(parse("2024-02-29T00:00:00+24:00"), None);
        assert_eq!(parse("2024-02-29T00:00:00Zx"), None);
        assert_eq!(parse(""), None);
    }
    #[test]
    fn render_round_trips() {
        let t: i128 = 1_781_526_896_123_456_789;
        for off in [0i64, 3600, -3600, 86340, -86340, 19800] {
            for k in [0usize, 1, 3, 9] {
                let s = render(t, off, k, 'T', ZForm::Numeric).unwrap();
                let (c, back) = parse(&s).unwrap();
                assert_eq!(c, Class::Strict);
                let trunc = match k {
                    0 => t - t.rem_euclid(1_000_000_000),
                    9 => t,
                    k => t - t.rem_euclid(10i128.pow(9 - k as u32)),
                };
                assert_eq!(back, trunc, "{}", s);
            }
        }
        assert_eq!(civil_from_days(days_from_civil(2028, 2, 29)), (2028, 2, 29));
        assert_eq!(all_offsets().len(), 2879);
    }
}
