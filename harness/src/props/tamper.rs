//! C03: every alteration of an authentic token is detected before its content is used.
//! Engine A over explicitly enumerated mutation neighbourhoods; oracle R2 (`cases::judge`, strict mode).

use crate::adapter::{Layer, Out, Proto};
use crate::b64;
use crate::cases::{judge, Auth, IssueCase, Judgement, Presentation};
use crate::domains;
use crate::explore::par_units;
use crate::report::{Acc, Run};
use serde_json::json;

const P384_N: &str = "ffffffffffffffffffffffffffffffffffffffffffffffffc7634d81f4372ddf581a0db248b0a77aecec196accc52973";
/// Ed25519 group order L, little endian
const ED_L_LE: &str = "edd3f55c1a631258d69cf7a2def9de1400000000000000000000000000000010";

#[derive(Clone, Copy, Debug, PartialEq, Eq, PartialOrd, Ord)]
pub enum Family {
    BitFlip,
    CharSubst,
    Prefix,
    SuffixExt,
    InsertDelete,
    BoundaryShift,
    Splice,
    NonCanonical,
    SigReencode,
    BitFlipPairs,
    FooterRespell,
    SigRange,
    TagBitPairs,
}
impl Family {
    fn name(self) -> &'static str {
        match self {
            Family::BitFlip => "1-bitflip",
            Family::CharSubst => "2-char-subst",
            Family::Prefix => "3a-prefix",
            Family::SuffixExt => "3b-suffix-ext",
            Family::InsertDelete => "3c-insert-delete",
            Family::BoundaryShift => "4-boundary-shift",
            Family::Splice => "5-splice",
            Family::NonCanonical => "6-noncanonical-b64",
            Family::SigReencode => "7-sig-reencode",
            Family::BitFlipPairs => "8-bitflip-pairs",
            Family::FooterRespell => "9-footer-respelled",
            Family::SigRange => "10-signature-value-range",
            Family::TagBitPairs => "11-tag-bit-pairs",
        }
    }
}

struct Parts {
    header: String,
    payload: String,
    decoded: Vec<u8>,
    /// text after the payload segment, including its leading '.', or ""
    rest: String,
}

fn parts(token: &str) -> Option<Parts> {
    let segs: Vec<&str> = token.split('.').collect();
    if segs.len() < 3 {
        return None;
    }
    let header = format!("{}.{}.", segs[0], segs[1]);
    let decoded = b64::decode_strict(segs[2])?;
    let rest = if segs.len() > 3 { format!(".{}", segs[3..].join(".")) } else { String::new() };
    Some(Parts { header, payload: segs[2].to_string(), decoded, rest })
}

fn reassemble(p: &Parts, decoded: &[u8]) -> String {
    format!("{}{}{}", p.header, b64::encode(decoded), p.rest)
}

/// big-endian a - b (a >= b), fixed width
fn be_sub(a: &[u8], b: &[u8]) -> Vec<u8> {
    let mut out = vec![0u8; a.len()];
    let mut borrow = 0i16;
    for i in (0..a.len()).rev() {
        let mut d = a[i] as i16 - b[i] as i16 - borrow;
        if d < 0 {
            d += 256;
            borrow = 1;
        } else {
            borrow = 0;
        }
        out[i] = d as u8;
    }
    out
}
/// little-endian a + b, fixed width (carry out dropped)
fn le_add(a: &[u8], b: &[u8]) -> Vec<u8> {
    let mut out = vec![0u8; a.len()];
    let mut carry = 0u16;
    for i in 0..a.len() {
        let s = a[i] as u16 + b[i] as u16 + carry;
        out[i] = s as u8;
        carry = s >> 8;
    }
    out
}

/// The mutants of one family for base token `t` (`other` = a second base token under the same key).
pub fn mutants(fam: Family, proto: Proto, t: &str, others: &[String]) -> Vec<String> {
    let mut out: Vec<String> = Vec::new();
    let Some(p) = parts(t) else { return out };
    let alpha = b64::token_alphabet();
    let tb = t.as_bytes();
    match fam {
        Family::BitFlip => {
            for i in 0..p.decoded.len() * 8 {
                let mut d = p.decoded.clone();
                d[i / 8] ^= 1 << (i % 8);
                out.push(reassemble(&p, &d));
            }
        }
        Family::CharSubst => {
            for pos in 0..tb.len() {
                for &c in &alpha {
                    if c != tb[pos] {
                        let mut m = tb.to_vec();
                        m[pos] = c;
                        out.push(String::from_utf8(m).unwrap());
                    }
                }
            }
        }
        Family::Prefix => {
            for n in 0..tb.len() {
                out.push(t[..n].to_string());
            }
        }
        Family::SuffixExt => {
            // decorations a transport or a careless caller adds around the token
            for pre in ["Bearer ", "bearer ", "\u{feff}", " ", "\n", "\"", "token="] {
                out.push(format!("{}{}", pre, t));
            }
            for post in [" ", "\n", "\r\n", "\0", "\"", ";", ","] {
                out.push(format!("{}{}", t, post));
            }
            for &a in &alpha {
                out.push(format!("{}{}", t, a as char));
                for &b in &alpha {
                    out.push(format!("{}{}{}", t, a as char, b as char));
                }
            }
        }
        Family::InsertDelete => {
            for pos in 0..=tb.len() {
                for &c in &alpha {
                    let mut m = tb[..pos].to_vec();
                    m.push(c);
                    m.extend_from_slice(&tb[pos..]);
                    out.push(String::from_utf8(m).unwrap());
                }
            }
            for pos in 0..tb.len() {
                let mut m = tb[..pos].to_vec();
                m.extend_from_slice(&tb[pos + 1..]);
                out.push(String::from_utf8(m).unwrap());
            }
        }
        Family::BoundaryShift => {
            let d = &p.decoded;
            let mut bounds = vec![d.len().saturating_sub(proto.tail_len())];
            if proto.is_local() {
                bounds.push(proto.nonce_len().min(d.len()));
            }
            for &b in &bounds {
                for k in 1..=d.len().min(80) {
                    // k bytes before the boundary removed (the right part moves left)
                    if b >= k {
                        let mut m = d[..b - k].to_vec();
                        m.extend_from_slice(&d[b..]);
                        out.push(reassemble(&p, &m));
                    }
                    // k bytes after the boundary removed
                    if b + k <= d.len() {
                        let mut m = d[..b].to_vec();
                        m.extend_from_slice(&d[b + k..]);
                        out.push(reassemble(&p, &m));
                    }
                    // k zero bytes / k duplicated bytes inserted at the boundary
                    let mut m = d[..b].to_vec();
                    m.extend(std::iter::repeat(0u8).take(k));
                    m.extend_from_slice(&d[b..]);
                    out.push(reassemble(&p, &m));
                    if b >= k {
                        let mut m = d[..b].to_vec();
                        m.extend_from_slice(&d[b - k..b]);
                        m.extend_from_slice(&d[b..]);
                        out.push(reassemble(&p, &m));
                    }
                }
            }
            // shifts of the '.' between payload and footer segment
            let footer_txt = p.rest.strip_prefix('.').unwrap_or("");
            for k in 1..=p.payload.len().min(24) {
                let cut = p.payload.len() - k;
                out.push(format!("{}{}.{}{}", p.header, &p.payload[..cut], &p.payload[cut..], footer_txt));
            }
            for k in 1..=footer_txt.len() {
                out.push(format!("{}{}{}.{}", p.header, p.payload, &footer_txt[..k], &footer_txt[k..]));
            }
            if !footer_txt.is_empty() {
                // dot removed altogether, footer text glued to the payload
                out.push(format!("{}{}{}", p.header, p.payload, footer_txt));
            }
        }
        Family::Splice => {
          for o in others.iter().filter_map(|o| parts(o)) {
            let (a, b) = (&p.decoded, &o.decoded);
            let tail = proto.tail_len();
            if a.len() < tail || b.len() < tail {
                continue;
            }
            let mut bodies: Vec<Vec<u8>> = Vec::new();
            if proto.is_local() {
                let nl = proto.nonce_len();
                if a.len() < nl + tail || b.len() < nl + tail {
                    continue;
                }
                let pa = [&a[..nl], &a[nl..a.len() - tail], &a[a.len() - tail..]];
                let pb = [&b[..nl], &b[nl..b.len() - tail], &b[b.len() - tail..]];
                for mask in 1..7u8 {
                    let mut m = Vec::new();
                    for i in 0..3 {
                        m.extend_from_slice(if mask & (1 << i) != 0 { pb[i] } else { pa[i] });
                    }
                    bodies.push(m);
                }
            } else {
                let pa = [&a[..a.len() - tail], &a[a.len() - tail..]];
                let pb = [&b[..b.len() - tail], &b[b.len() - tail..]];
                for mask in 1..3u8 {
                    let mut m = Vec::new();
                    for i in 0..2 {
                        m.extend_from_slice(if mask & (1 << i) != 0 { pb[i] } else { pa[i] });
                    }
                    bodies.push(m);
                }
            }
            if o.rest != p.rest {
                bodies.push(b.clone()); // the whole other body under this token's (different) footer
            }
            for body in bodies {
                out.push(format!("{}{}{}", p.header, b64::encode(&body), p.rest));
                if o.rest != p.rest {
                    out.push(format!("{}{}{}", p.header, b64::encode(&body), o.rest));
                }
            }
            if o.rest != p.rest {
                out.push(format!("{}{}{}", p.header, p.payload, o.rest));
            }
          }
        }
        Family::NonCanonical => {
            // every non-zero setting of the unused trailing bits of a segment
            let tweak = |seg: &str| -> Vec<String> {
                let mut v = Vec::new();
                let free_bits = match seg.len() % 4 {
                    2 => 4,
                    3 => 2,
                    _ => 0,
                };
                if free_bits > 0 && !seg.is_empty() {
                    let last = seg.as_bytes()[seg.len() - 1];
                    let val = b64::val(last).unwrap_or(0);
                    for extra in 1..(1u8 << free_bits) {
                        let nv = (val & !((1 << free_bits) - 1)) | extra;
                        if nv != val {
                            v.push(format!("{}{}", &seg[..seg.len() - 1], b64::ALPHABET[nv as usize] as char));
                        }
                    }
                }
                v.push(format!("{}=", seg));
                v.push(format!("{}==", seg));
                if seg.contains('-') {
                    v.push(seg.replace('-', "+"));
                }
                if seg.contains('_') {
                    v.push(seg.replace('_', "/"));
                }
                v
            };
            for s in tweak(&p.payload) {
                out.push(format!("{}{}{}", p.header, s, p.rest));
            }
            if let Some(f) = p.rest.strip_prefix('.') {
                for s in tweak(f) {
                    out.push(format!("{}{}.{}", p.header, p.payload, s));
                }
            }
        }
        Family::FooterRespell => {
            // other bytes in the footer segment that a *text-level* comparison might take for the same footer:
            // ill-formed UTF-8 in place of each U+FFFD (what a lossy decode maps to it), case changes, added /
            // removed white space, the other normalisation form, a BOM
            if let Some(f) = p.rest.strip_prefix('.') {
                if let Some(fb) = b64::decode_strict(f) {
                    let mut alts: Vec<Vec<u8>> = Vec::new();
                    let pat = [0xefu8, 0xbf, 0xbd];
                    let ill: [&[u8]; 8] = [&[0xff], &[0x80], &[0xc0], &[0xef, 0xbf], &[0xf3, 0xbf, 0xbd], &[0xed, 0xa0, 0x80], &[0xc0, 0xaf], &[0xf8, 0x88, 0x80, 0x80, 0x80]];
                    let mut i = 0;
                    while i + 3 <= fb.len() {
                        if fb[i..i + 3] == pat {
                            for r in ill {
                                let mut v = fb[..i].to_vec();
                                v.extend_from_slice(r);
                                v.extend_from_slice(&fb[i + 3..]);
                                alts.push(v);
                            }
                            i += 3;
                        } else {
                            i += 1;
                        }
                    }
                    // every U+FFFD at once
                    if fb.windows(3).any(|w| w == pat) {
                        for r in [&[0xffu8][..], &[0x80]] {
                            let mut v = Vec::new();
                            let mut j = 0;
                            while j < fb.len() {
                                if j + 3 <= fb.len() && fb[j..j + 3] == pat {
                                    v.extend_from_slice(r);
                                    j += 3;
                                } else {
                                    v.push(fb[j]);
                                    j += 1;
                                }
                            }
                            alts.push(v);
                        }
                    }
                    if let Ok(txt) = std::str::from_utf8(&fb) {
                        for t in [
                            txt.to_uppercase(),
                            txt.to_lowercase(),
                            format!("{} ", txt),
                            format!(" {}", txt),
                            format!("{}\n", txt),
                            format!("\u{feff}{}", txt),
                            format!("{}\0", txt),
                            txt.trim().to_string(),
                        ] {
                            alts.push(t.into_bytes());
                        }
                    }
                    // an invalid byte appended / prepended (a lossy or truncating text view may drop it)
                    for extra in [0xffu8, 0x80, 0xc3] {
                        let mut v = fb.clone();
                        v.push(extra);
                        alts.push(v);
                        let mut w = vec![extra];
                        w.extend_from_slice(&fb);
                        alts.push(w);
                    }
                    for a in alts {
                        if a != fb {
                            out.push(format!("{}{}.{}", p.header, p.payload, b64::encode(&a)));
                        }
                    }
                }
            }
        }
        Family::SigReencode => {
            let d = &p.decoded;
            match proto {
                Proto::V3P if d.len() >= 96 => {
                    let n = b64::unhex(P384_N).unwrap();
                    let s = &d[d.len() - 48..];
                    let mut m = d[..d.len() - 48].to_vec();
                    m.extend_from_slice(&be_sub(&n, s));
                    out.push(reassemble(&p, &m));
                    // r + n does not fit 48 bytes; r replaced by n - r is a different r: must be rejected
                    let r = &d[d.len() - 96..d.len() - 48];
                    let mut m2 = d[..d.len() - 96].to_vec();
                    m2.extend_from_slice(&be_sub(&n, r));
                    m2.extend_from_slice(s);
                    out.push(reassemble(&p, &m2));
                }
                Proto::V2P | Proto::V4P if d.len() >= 64 => {
                    let l = b64::unhex(ED_L_LE).unwrap();
                    let s = &d[d.len() - 32..];
                    let mut m = d[..d.len() - 32].to_vec();
                    m.extend_from_slice(&le_add(s, &l));
                    out.push(reassemble(&p, &m));
                    let mut m2 = d.clone();
                    let i = d.len() - 33; // last byte of R: sign bit
                    m2[i] ^= 0x80;
                    out.push(reassemble(&p, &m2));
                }
                _ => {}
            }
        }
        Family::SigRange => {
            // the signature / tag replaced by values at the edges of what its encoding can hold: zero, one, the
            // group order and its neighbours, the field prime, all ones - values no bit flip of an honest
            // signature reaches (the top half of the P-384 order is all ones)
            let d = &p.decoded;
            let tail = proto.tail_len();
            if d.len() >= tail {
                let body = &d[..d.len() - tail];
                let be = |hex: &str, width: usize| -> Vec<u8> {
                    let v = b64::unhex(hex).unwrap();
                    let mut o = vec![0u8; width - v.len()];
                    o.extend_from_slice(&v);
                    o
                };
                let add1_be = |v: &[u8]| -> Vec<u8> {
                    let mut o = v.to_vec();
                    for i in (0..o.len()).rev() {
                        o[i] = o[i].wrapping_add(1);
                        if o[i] != 0 {
                            break;
                        }
                    }
                    o
                };
                let sub1_be = |v: &[u8]| -> Vec<u8> {
                    let mut o = v.to_vec();
                    for i in (0..o.len()).rev() {
                        o[i] = o[i].wrapping_sub(1);
                        if o[i] != 0xff {
                            break;
                        }
                    }
                    o
                };
                let mut sigs: Vec<Vec<u8>> = vec![vec![0u8; tail], vec![0xffu8; tail]];
                match proto {
                    Proto::V3P => {
                        let n = be(P384_N, 48);
                        let field_p = be("fffffffffffffffffffffffffffffffffffffffffffffffffffffffffffffffeffffffff0000000000000000ffffffff", 48);
                        let mut one = vec![0u8; 48];
                        one[47] = 1;
                        let specials = [vec![0u8; 48], one, sub1_be(&n), n.clone(), add1_be(&n), field_p, vec![0xffu8; 48]];
                        let (r, sv) = (&d[d.len() - 96..d.len() - 48], &d[d.len() - 48..]);
                        for x in &specials {
                            sigs.push([x.as_slice(), sv].concat());
                            sigs.push([r, x.as_slice()].concat());
                        }
                        sigs.push([specials[3].as_slice(), specials[3].as_slice()].concat());
                    }
                    Proto::V2P | Proto::V4P => {
                        let l = b64::unhex(ED_L_LE).unwrap();
                        let le_small = |x: u8| {
                            let mut v = vec![0u8; 32];
                            v[0] = x;
                            v
                        };
                        let mut l_minus = l.clone();
                        l_minus[0] -= 1;
                        let mut two_252 = vec![0u8; 32];
                        two_252[31] = 0x10;
                        let mut two_253 = vec![0u8; 32];
                        two_253[31] = 0x20;
                        let s_specials = [le_small(0), le_small(1), l_minus, l.clone(), le_add(&l, &le_small(1)), two_252, two_253, vec![0xffu8; 32]];
                        // R: the identity, a point of order two, y = p (non-canonical zero), all ones, zero
                        let mut identity = vec![0u8; 32];
                        identity[0] = 1;
                        let mut order2 = vec![0xffu8; 32];
                        order2[0] = 0xec;
                        order2[31] = 0x7f;
                        let mut y_is_p = vec![0xffu8; 32];
                        y_is_p[0] = 0xed;
                        y_is_p[31] = 0x7f;
                        let r_specials = [vec![0u8; 32], identity, order2, y_is_p, vec![0xffu8; 32]];
                        let (r, sv) = (&d[d.len() - 64..d.len() - 32], &d[d.len() - 32..]);
                        for x in &s_specials {
                            sigs.push([r, x.as_slice()].concat());
                        }
                        for x in &r_specials {
                            sigs.push([x.as_slice(), sv].concat());
                            sigs.push([x.as_slice(), s_specials[0].as_slice()].concat());
                        }
                    }
                    Proto::V1P => {
                        let mut one = vec![0u8; tail];
                        one[tail - 1] = 1;
                        let mut top = vec![0u8; tail];
                        top[0] = 0x80;
                        sigs.push(one);
                        sigs.push(top);
                    }
                    _ => {}
                }
                for sg in sigs {
                    if sg.as_slice() != &d[d.len() - tail..] {
                        out.push(reassemble(&p, &[body, sg.as_slice()].concat()));
                    }
                }
            }
        }
        Family::TagBitPairs => {
            // two bits of the tag / signature flipped together: the same bit in every pair of its bytes, and
            // every pair of bits inside one byte (a comparison that folds differences with XOR, or compares
            // lane sums, lets correlated differences cancel)
            let d = &p.decoded;
            let tail = proto.tail_len().min(64);
            if d.len() >= tail {
                let start = d.len() - tail;
                for i in 0..tail {
                    for j in (i + 1)..tail {
                        for bit in 0..8u8 {
                            let mut m = d.clone();
                            m[start + i] ^= 1 << bit;
                            m[start + j] ^= 1 << bit;
                            out.push(reassemble(&p, &m));
                        }
                    }
                    for b1 in 0..8u8 {
                        for b2 in (b1 + 1)..8u8 {
                            let mut m = d.clone();
                            m[start + i] ^= (1 << b1) | (1 << b2);
                            out.push(reassemble(&p, &m));
                        }
                    }
                }
            }
        }
        Family::BitFlipPairs => {
            let bits = p.decoded.len() * 8;
            for i in 0..bits {
                for j in (i + 1)..bits {
                    let mut d = p.decoded.clone();
                    d[i / 8] ^= 1 << (i % 8);
                    d[j / 8] ^= 1 << (j % 8);
                    out.push(reassemble(&p, &d));
                }
            }
        }
    }
    out.retain(|m| m != t);
    out
}

#[derive(Clone)]
struct Base {
    case: IssueCase,
    token: String,
    /// other authentic tokens under the same key: [0] same footer and assertion, different message and
    /// nonce (for part mixing); [1] a different footer ("g") (for footer swaps / foreign bodies)
    siblings: Vec<String>,
}

fn base_messages() -> Vec<String> {
    // all are JSON objects (so that the parser layers accept the original), with multi-byte characters so
    // that "decrypt first, authenticate later" surfaces as a UTF-8 error on some flip
    vec![
        "{}".to_string(),
        "{\"data\":\"\u{00e9}\u{2603}\u{1d11e}\u{4e2d}\"}".to_string(),
        format!("{{\"data\":\"{}\",\"n\":[1,2,{{\"k\":null}}]}}", "\u{00fc}\u{1f642}x".repeat(6)),
    ]
}

fn bases(p: Proto, quick: bool) -> Vec<Base> {
    let pool = domains::key_pool(p);
    let keys: Vec<_> = if quick { pool.into_iter().take(1).collect() } else { pool.into_iter().take(2).collect() };
    // the third footer contains U+FFFD (what a lossy UTF-8 decode produces) and mixed case
    let footers: Vec<Option<String>> = vec![None, Some("f".into()), Some("Kid\u{fffd}x\u{fffd}".into())];
    let assertions: Vec<Option<String>> = if p.has_assertion() { vec![None, Some("{\"test-vector\":\"4-S-3\"}".into())] } else { vec![None] };
    let msgs = base_messages();
    let seed = domains::seeds(p)[2].clone();
    let mut seed2 = seed.clone();
    seed2[0] ^= 0x55;
    let mut out = Vec::new();
    for k in &keys {
        for (fi, f) in footers.iter().enumerate() {
            for (ai, a) in assertions.iter().enumerate() {
                for (mi, m) in msgs.iter().enumerate() {
                    if quick && !((mi == 1 && fi == 1 && ai == assertions.len() - 1) || (mi == 0 && fi == 0 && ai == 0) || (mi == 0 && fi == 2 && ai == 0)) {
                        continue;
                    }
                    // the U+FFFD footer only with the shortest message (its purpose is the footer families)
                    if fi == 2 && mi != 0 {
                        continue;
                    }
                    let case = IssueCase::new(p, Layer::Core, k, Some(&seed), m, f, a);
                    let Out::Ok(token) = case.issue() else { continue };
                    let mut siblings = Vec::new();
                    let sib_case = IssueCase::new(p, Layer::Core, k, Some(&seed2), &msgs[(mi + 1) % msgs.len()], f, a);
                    if let Some(t) = sib_case.issue().ok() {
                        siblings.push(t.clone());
                    }
                    let sib2 = IssueCase::new(p, Layer::Core, k, Some(&seed2), &msgs[(mi + 1) % msgs.len()], &Some("g".to_string()), a);
                    if let Some(t) = sib2.issue().ok() {
                        siblings.push(t.clone());
                    }
                    out.push(Base { case, token, siblings });
                }
            }
        }
    }
    out
}

fn check_mutant(base: &Base, fam: Family, mutant: &str, layer: Layer, acc: &mut Acc) {
    let mut pres = Presentation::of(&base.case, mutant);
    pres.layer = layer;
    let (obs, calls) = pres.present();
    acc.executions += 1;
    acc.impl_calls += 1;
    acc.see(&(mutant, layer));
    match &obs {
        Out::Ok(_) => acc.bump("accepted-under-latitude-or-violation"),
        Out::Err(e) => acc.bump(&format!("rejected:{}", e.short())),
        Out::Panic(_) => acc.bump("panic"),
    }
    let mut verdict = judge(&base.case, &base.token, &pres, &obs, calls, true);
    // the small families are presented a second time straight away: a rejection must be repeatable (a failed
    // attempt must not leave anything behind that lets the same text through afterwards)
    let mut fam_name = fam.name().to_string();
    if matches!(verdict, Judgement::Pass) && obs.is_err() && matches!(fam, Family::BitFlip | Family::Splice | Family::NonCanonical | Family::SigReencode | Family::FooterRespell | Family::BoundaryShift | Family::SigRange) {
        let (obs2, calls2) = pres.present();
        acc.executions += 1;
        acc.impl_calls += 1;
        if !obs2.is_err() {
            if let Judgement::Fail(kind, why) = judge(&base.case, &base.token, &pres, &obs2, calls2, true) {
                verdict = Judgement::Fail(kind, format!("rejected at first, but when the same text was presented again immediately: {}", why));
                fam_name = format!("{}:retried", fam_name);
            }
        }
    }
    if let Judgement::Fail(kind, why) = verdict {
        let key = match &obs {
            // a panic is identified by where it happens (shared with C09's findings)
            Out::Panic(loc) => format!("C03|{}|{}|panic|{}", base.case.proto.name(), layer.name(), crate::adapter::panic_site(loc)),
            _ => format!("C03|{}|{}|{}|{}", base.case.proto.name(), layer.name(), fam_name, kind),
        };
        acc.violate(
            key,
            format!("{} mutant presented to the {} layer: {}", fam_name, layer.name(), why),
            json!({"issue": base.case, "issued_token": base.token, "family": fam_name, "presentation": pres,
                   "unit_test": crate::cases::unit_test_for(&pres, "r.is_err()", "a mutant of an authentic token: must be rejected (and with an authentication / format error)")}),
        );
    }
}

pub fn run(tier: &str) -> i32 {
    let run = Run::new("C03", tier);
    let quick = tier == "quick";
    let mut fams = vec![
        Family::BitFlip,
        Family::CharSubst,
        Family::Prefix,
        Family::SuffixExt,
        Family::InsertDelete,
        Family::BoundaryShift,
        Family::Splice,
        Family::NonCanonical,
        Family::SigReencode,
        Family::FooterRespell,
        Family::SigRange,
        Family::TagBitPairs,
    ];
    if !quick {
        fams.push(Family::BitFlipPairs);
    }
    // bases are issued once (v1.public signatures are randomised), then shared
    let all_bases: Vec<(Proto, Vec<Base>)> = Proto::ALL.iter().map(|p| (*p, bases(*p, quick))).collect();
    let mut units: Vec<(Proto, usize, Family, Layer)> = Vec::new();
    for (p, bs) in &all_bases {
        for bi in 0..bs.len() {
            for f in &fams {
                if *f == Family::BitFlipPairs {
                    // pairs: the empty-object base of the first key only, core layer only
                    if bs[bi].case.msg == "{}" && bs[bi].case.footer.is_none() && bs[bi].case.assertion.is_none() && bs[bi].case.key_label == bs[0].case.key_label {
                        units.push((*p, bi, *f, Layer::Core));
                    }
                    continue;
                }
                // the U+FFFD-footer base exists for the footer families; the big text-edit families already
                // run on the two other bases
                let fffd_base = bs[bi].case.footer.as_deref().map_or(false, |f| f.contains('\u{fffd}'));
                if fffd_base && !matches!(f, Family::FooterRespell | Family::NonCanonical | Family::Splice | Family::BoundaryShift | Family::Prefix | Family::SigRange) {
                    continue;
                }
                if *f == Family::TagBitPairs {
                    // the shortest base of the protocol, core layer (the comparison under test is the core's)
                    if bi == 0 {
                        units.push((*p, bi, *f, Layer::Core));
                    }
                    continue;
                }
                for l in Layer::ALL {
                    // quick: the slow verifiers get the big families at the core layer only
                    let slow = matches!(p, Proto::V3P);
                    if quick && slow && l != Layer::Core && matches!(f, Family::CharSubst | Family::InsertDelete | Family::SuffixExt) {
                        continue;
                    }
                    units.push((*p, bi, *f, l));
                }
            }
        }
    }
    let mut controls = Acc::default();
    for (_, bs) in &all_bases {
        for b in bs {
            for l in Layer::ALL {
                let mut pres = Presentation::of(&b.case, &b.token);
                pres.layer = l;
                let (obs, calls) = pres.present();
                controls.impl_calls += 1;
                match judge(&b.case, &b.token, &pres, &obs, calls, true) {
                    Judgement::Pass if obs.is_ok() => controls.controls_ok += 1,
                    _ => controls.skipped_control_failed += 1,
                }
            }
        }
    }
    if controls.controls_ok == 0 {
        crate::report::machinery_error("C03: no base token is accepted by its own entry point (vacuous)");
    }
    let accs = par_units(&units, |(p, bi, fam, layer)| {
        let base = &all_bases.iter().find(|(q, _)| q == p).unwrap().1[*bi];
        let mut acc = Acc::default();
        // a base whose own control fails at this layer is skipped here (C01/C02 report it)
        let mut ctl = Presentation::of(&base.case, &base.token);
        ctl.layer = *layer;
        if !ctl.present().0.is_ok() {
            acc.bump("unit-skipped-control-failed");
            return acc;
        }
        let ms = mutants(*fam, *p, &base.token, &base.siblings);
        acc.choice_points += ms.len() as u64;
        acc.bump_n(&format!("mutants:{}", fam.name()), ms.len() as u64);
        for m in &ms {
            check_mutant(base, *fam, m, *layer, &mut acc);
        }
        if acc.samples.is_empty() {
            if let Some(m) = ms.get(ms.len() / 2) {
                acc.sample(json!({"proto": p.name(), "layer": layer.name(), "family": fam.name(), "base": base.case.brief(), "issued": base.token, "mutant": m}));
            }
        }
        acc
    });
    let mut all = Acc::merge_all(accs);
    all.merge(controls);
    // a parser that holds an expectation without a JSON form (u128) or a rejecting validator: an altered token
    // must still be refused with an authentication / format error - nothing about the claims may be looked at,
    // serialised or run before the token is authentic
    {
        use crate::adapter::{ClaimSpec, Form, PEvent, POp};
        let units: Vec<(Proto, Layer)> = Proto::ALL.iter().flat_map(|p| [Layer::Generic, Layer::Prelude].into_iter().map(move |l| (*p, l))).collect();
        let accs = par_units(&units, |(p, l)| {
            let mut acc = Acc::default();
            let Some((_, bs)) = all_bases.iter().find(|(q, _)| q == p) else { return acc };
            let Some(base) = bs.first() else { return acc };
            let mut ms = mutants(Family::BitFlip, *p, &base.token, &base.siblings);
            ms.truncate(96);
            ms.extend(mutants(Family::SigRange, *p, &base.token, &base.siblings).into_iter().take(8));
            ms.extend(mutants(Family::Prefix, *p, &base.token, &base.siblings).into_iter().rev().take(8));
            let key = crate::b64::unhex(&base.case.pk_hex).unwrap_or_default();
            let configs: Vec<(&str, Vec<POp>)> = vec![
                ("an expectation without a JSON form", vec![POp::Check(ClaimSpec { key: "big".into(), value: serde_json::Value::Null, form: Form::Native(11) })]),
                ("a rejecting validator", vec![POp::Validate("data".into(), 3)]),
                ("both", vec![POp::Validate("data".into(), 3), POp::Check(ClaimSpec { key: "big".into(), value: serde_json::Value::Null, form: Form::Native(11) })]),
            ];
            for (cname, cfg_ops) in &configs {
                crate::adapter::reset_verdicts();
                crate::adapter::set_verdict(3, crate::adapter::Verdict::Reject);
                let mut ops = cfg_ops.clone();
                if let Some(f) = &base.case.footer {
                    ops.push(POp::Footer(f.clone()));
                }
                if let (Some(a), true) = (&base.case.assertion, p.has_assertion()) {
                    ops.push(POp::Assertion(a.clone()));
                }
                ops.extend((0..ms.len()).map(|i| POp::Parse(i, 0)));
                let _ = crate::adapter::take_calls();
                let ev = crate::adapter::parse_history(*p, *l, false, &[key.clone()], &ms, &ops);
                crate::adapter::reset_verdicts();
                let parsed: Vec<&PEvent> = ev.iter().filter(|e| matches!(e, PEvent::Parsed(..))).collect();
                for (i, e) in parsed.iter().enumerate() {
                    let PEvent::Parsed(o, calls) = e else { continue };
                    acc.executions += 1;
                    acc.impl_calls += 1;
                    acc.choice_points += 1;
                    let bad = match o {
                        Out::Err(crate::adapter::ErrClass::Other(_)) if calls.is_empty() => None,
                        Out::Err(crate::adapter::ErrClass::Other(_)) => Some("a validator ran on an altered token".to_string()),
                        other => Some(format!("{} instead of an authentication / format error", other.short())),
                    };
                    match bad {
                        None => acc.bump("configured-parser:altered-token-refused-early"),
                        Some(w) => acc.violate(
                            format!("C03|{}|{}|configured-parser|{}", p.name(), l.name(), cname),
                            format!("a parser holding {} is shown an altered token ({}): {}", cname, ms.get(i).map_or("", |m| m.as_str()).chars().take(60).collect::<String>(), w),
                            json!({"issue": base.case, "issued_token": base.token, "family": "configured-parser", "presentation": Presentation::of(&base.case, ms.get(i).map_or("", |m| m.as_str()))}),
                        ),
                    }
                }
            }
            acc
        });
        all.merge(Acc::merge_all(accs));
    }
    // bytes moved across the boundary between two pieces of the pre-authentication encoding. PAE frames every
    // piece with a 64-bit length; an encoder that loses a bit or the upper bytes of a length (bit 7 masked in the
    // wrong byte, a length narrowed to 8 or 16 bits) makes two different splits of the same bytes encode alike
    // when the pieces are crafted for it: footer = A || le64(5) || "tail!" with |A| = s - 8. Moving
    // le64(|footer| mod s) || A to the end of the message / ciphertext and leaving "tail!" as the footer shifts the
    // boundary by s bytes. With exact lengths the two encodings differ, so every such token must be refused.
    {
        let units: Vec<(Proto, usize)> = Proto::ALL.iter().filter(|p| **p != Proto::V2L).flat_map(|p| [128usize, 256, 65_536].into_iter().map(move |sft| (*p, sft))).collect();
        let accs = par_units(&units, |(p, shift)| {
            let mut acc = Acc::default();
            let key = domains::key_pool(*p)[0].clone();
            let seed = domains::seeds(*p)[2].clone();
            let le5 = "\u{5}\0\0\0\0\0\0\0";
            let a = "a".repeat(*shift - 8);
            let footer = format!("{}{}tail!", a, le5);
            let case = IssueCase::new(*p, Layer::Core, &key, if p.is_local() { Some(&seed) } else { None }, "{\"data\":\"x\"}", &Some(footer.clone()), &None);
            let Out::Ok(token) = case.issue() else { return acc };
            let Some(pt) = parts(&token) else { return acc };
            let tail = p.tail_len();
            if pt.decoded.len() < tail {
                return acc;
            }
            let (body, sig) = pt.decoded.split_at(pt.decoded.len() - tail);
            let mut moved = body.to_vec();
            moved.extend_from_slice(le5.as_bytes());
            moved.extend_from_slice(a.as_bytes());
            moved.extend_from_slice(sig);
            let respliced = format!("{}{}.{}", pt.header, b64::encode(&moved), b64::encode(b"tail!"));
            for layer in Layer::ALL {
                // control: the crafted token itself is authentic under its long footer
                let mut ctl = Presentation::of(&case, &token);
                ctl.layer = layer;
                if !ctl.present().0.is_ok() {
                    acc.bump("pae-resplice:control-failed(see C01/C02)");
                    continue;
                }
                acc.controls_ok += 1;
                let mut pres = Presentation::of(&case, &respliced);
                pres.layer = layer;
                pres.footer = Some("tail!".into());
                let (obs, calls) = pres.present();
                acc.executions += 1;
                acc.impl_calls += 1;
                acc.choice_points += 1;
                acc.see(&(&respliced, layer));
                if let Judgement::Fail(kind, why) = judge(&case, &token, &pres, &obs, calls, true) {
                    acc.violate(
                        format!("C03|{}|{}|pae-resplice-{}|{}", p.name(), layer.name(), shift, kind),
                        format!("{} bytes moved from the front of the footer to the end of the message / ciphertext (footer crafted as A || le64(5) || \"tail!\"), presented with the footer \"tail!\": {}", shift, why),
                        json!({"issue": case, "issued_token": token, "family": "pae-resplice", "presentation": pres}),
                    );
                } else {
                    acc.bump("pae-resplice:refused");
                }
            }
            acc
        });
        all.merge(Acc::merge_all(accs));
    }
    // ---- large tokens: messages of 70 001 and 131 075 bytes (a PAE that spans one and two 64 KiB blocks plus a
    //      remainder), core layer: one bit flipped in the decoded payload at its first and last 24 bytes and two
    //      bytes either side of every multiple of 65 536 (from the front and from the back), and the last
    //      character of the footer segment replaced. Authentication that walks the input in blocks has to cover
    //      the last, partial one as well.
    {
        let protos: Vec<Proto> = Proto::ALL.to_vec();
        let accs = par_units(&protos, |p| {
            let mut acc = Acc::default();
            let key = domains::key_pool(*p)[0].clone();
            let seed = domains::seeds(*p)[2].clone();
            let a = if p.has_assertion() { Some("{\"test-vector\":\"4-S-3\"}".to_string()) } else { None };
            for n in [70_001usize, 131_075] {
                if quick && n > 100_000 && matches!(*p, Proto::V1P | Proto::V3P) {
                    continue;
                }
                let msg = format!("{{\"data\":\"{}\"}}", "x".repeat(n - 11));
                let case = IssueCase::new(*p, Layer::Core, &key, Some(&seed), &msg, &Some("f".to_string()), &a);
                let Out::Ok(token) = case.issue() else { continue };
                let base = Base { case, token: token.clone(), siblings: Vec::new() };
                let Some(pt) = parts(&token) else { continue };
                let len = pt.decoded.len();
                let mut positions: Vec<usize> = (0..24.min(len)).chain(len.saturating_sub(24)..len).collect();
                let mut b = 65_536usize;
                while b < len + 2 {
                    for d in 0..4usize {
                        let front = (b + d).wrapping_sub(2);
                        if front < len {
                            positions.push(front);
                        }
                        if let Some(back) = (len + 1).checked_sub(b + d) {
                            if back < len {
                                positions.push(back);
                            }
                        }
                    }
                    b += 65_536;
                }
                positions.sort();
                positions.dedup();
                for pos in positions {
                    let mut d = pt.decoded.clone();
                    d[pos] ^= 1 << (pos % 8);
                    check_mutant(&base, Family::BitFlip, &reassemble(&pt, &d), Layer::Core, &mut acc);
                    acc.choice_points += 1;
                }
                for repl in ["Zw", "Zg.", ""] {
                    let cut = token.rfind('.').map_or(token.len(), |i| i + 1);
                    let m = format!("{}{}", &token[..cut], repl);
                    check_mutant(&base, Family::BitFlip, &m, Layer::Core, &mut acc);
                    acc.choice_points += 1;
                }
                acc.bump("large-token-bases");
            }
            acc
        });
        all.merge(Acc::merge_all(accs));
    }
    all.states = all.distinct.len() as u64;
    let bases_n: usize = all_bases.iter().map(|(_, b)| b.len()).sum();
    let extra = json!({
        "space": "for every base token (protocol x key x message x footer x assertion), every element of the listed mutation families, presented to the core, generic and batteries-included entry points",
        "base_tokens": bases_n,
        "families": fams.iter().map(|f| f.name()).collect::<Vec<_>>(),
        "units": units.len(),
        "distinct_rule": "distinct (mutant text, layer) pairs presented",
        "latitudes": "empty trailing segment and signature-only re-encoding may be accepted if the original content is returned",
        "caps_hit": [],
    });
    run.finish(&all, true, extra, &["the mutation neighbourhoods are those listed in DESIGN.md 5/C03; cryptographic unforgeability is not claimed", "base tokens are issued at the core layer with JSON messages so that all three entry points accept the original"])
}

pub fn replay(case: &serde_json::Value) -> i32 {
    let (Ok(ic), Ok(pres)) = (serde_json::from_value::<IssueCase>(case["issue"].clone()), serde_json::from_value::<Presentation>(case["presentation"].clone())) else {
        crate::report::machinery_error("replay file lacks issue / presentation");
    };
    let issued = case["issued_token"].as_str().unwrap_or("").to_string();
    let mut verdicts = Vec::new();
    for _ in 0..2 {
        let (obs, calls) = pres.present();
        verdicts.push((obs.short(), judge(&ic, &issued, &pres, &obs, calls, true)));
    }
    if verdicts[0] != verdicts[1] {
        crate::report::machinery_error("replay is not deterministic");
    }
    println!("authentic-for-issued: {:?}", crate::cases::authentic(&ic, &issued, &pres) != Auth::No);
    println!("observed: {}", verdicts[0].0);
    match &verdicts[0].1 {
        Judgement::Pass => {
            println!("replay: property holds on this case");
            0
        }
        Judgement::Fail(k, why) => {
            println!("VIOLATION property=C03 replay=(this file)\n  kind: {}\n  what: {}", k, why);
            1
        }
    }
}
