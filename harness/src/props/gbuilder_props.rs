//! C14: parsed claims equal the claims that were set. Engine B closure over the GenericBuilder reference
//! model (models/gbuilder.rs) + unmerged engine-A enumeration of call sequences to a small depth.

use crate::adapter::{Form, Proto};
use crate::explore::{explore, par_units};
use crate::models::gbuilder::{replay_and_judge, value_alphabet, GenericBuilderModel, Op, CUSTOM_KEYS, REPLAYS, TYPED_KEYS};
use crate::models::{self};
use crate::report::{Acc, Run};
use serde::{Deserialize, Serialize};
use serde_json::{json, Value};
use std::sync::atomic::Ordering;

#[derive(Clone, Debug, Serialize, Deserialize)]
pub struct ClaimsCase {
    pub proto: Proto,
    pub path: Vec<Op>,
    /// "full" or "quick": which value alphabet the indices refer to
    pub alphabet: String,
}

fn values_for(which: &str) -> Vec<(Value, Form)> {
    let all = value_alphabet();
    if which == "hostile" {
        // every hostile text as a string value
        return crate::domains::hostile_texts().into_iter().map(|h| (json!(h), Form::TupleStr)).collect();
    }
    if which == "ws" {
        // all 8 custom keys (incl. the white-space-only and the long one) with two values: 3^8 states
        return [0usize, 5].iter().map(|i| all[*i].clone()).collect();
    }
    if which == "quick" {
        // Unicode string, "", -1, null, nested array, struct, f32, object with one member named like the key
        // ... an application-defined one-field claim and a value that reads mutable state when serialised
        [0usize, 1, 3, 5, 9, 11, 15, 16, 18, 21, 22, 23].iter().map(|i| all[*i].clone()).collect()
    } else {
        all
    }
}

fn describe(path: &[Op], values: &[(Value, Form)]) -> String {
    path.iter()
        .map(|o| match o {
            Op::Set(k, v) => format!("set_claim(({:?}, {}))", CUSTOM_KEYS[*k], show(&values[*v])),
            Op::SetOwned(k, v) => format!("set_claim((String {:?}, {}))", CUSTOM_KEYS[*k], show(&values[*v])),
            Op::SetKeyOnly(k) => format!("set_claim(CustomClaim::try_from({:?}))", CUSTOM_KEYS[*k]),
            Op::Remove(k) => format!("remove_claim({:?})", CUSTOM_KEYS[*k]),
            Op::SetTyped(k, v) => format!("set_claim(<{}>#{})", TYPED_KEYS[*k], v),
            Op::RemoveTyped(k) => format!("remove_claim({:?})", TYPED_KEYS[*k]),
        })
        .collect::<Vec<_>>()
        .join("; ")
}
fn show(v: &(Value, Form)) -> String {
    match v.1 {
        Form::Native(n) => format!("<native #{}>", n),
        _ => {
            let s = v.0.to_string();
            if s.len() > 40 {
                format!("{}...", s.chars().take(40).collect::<String>())
            } else {
                s
            }
        }
    }
}

fn record(proto: Proto, which: &str, path: &[Op], verdict: &Option<(String, String)>, values: &[(Value, Form)], acc: &mut Acc) {
    if let Some((kind, why)) = verdict {
        acc.violate(
            format!("C14|{}|{}", proto.name(), kind),
            format!("history [{}; build; parse]: {}", describe(path, values), why),
            json!({"claims_case": ClaimsCase { proto, path: path.to_vec(), alphabet: which.to_string() }}),
        );
    }
}

pub fn run(tier: &str) -> i32 {
    let run = Run::new("C14", tier);
    let quick = tier == "quick";
    let mut all = Acc::default();
    let mut model_runs = Vec::new();
    REPLAYS.store(0, Ordering::Relaxed);

    // (protocol, alphabet name, custom keys, typed instance?)
    let mut plan: Vec<(Proto, &str, usize, bool)> = Vec::new();
    if quick {
        plan.push((Proto::workhorse(), "quick", 3, false));
        plan.push((Proto::workhorse(), "ws", 8, false));
        plan.push((Proto::workhorse(), "full", 1, false)); // one key, every value of the alphabet
        plan.push((Proto::workhorse(), "hostile", 1, false)); // one key, every hostile text as value
        plan.push((Proto::workhorse(), "quick", 1, true));
        for p in Proto::ALL {
            if p != Proto::workhorse() {
                plan.push((p, "quick", if matches!(p, Proto::V3P | Proto::V1P) { 1 } else { 2 }, false));
            }
        }
    } else {
        plan.push((Proto::workhorse(), "full", 4, false));
        plan.push((Proto::workhorse(), "quick", 5, false));
        plan.push((Proto::workhorse(), "ws", 8, false));
        plan.push((Proto::workhorse(), "hostile", 2, false));
        plan.push((Proto::workhorse(), "quick", 1, true));
        for p in Proto::ALL {
            if p != Proto::workhorse() {
                plan.push((p, "quick", if matches!(p, Proto::V3P | Proto::V1P) { 2 } else { 3 }, false));
                if !matches!(p, Proto::V3P | Proto::V1P) {
                    plan.push((p, "quick", 1, true));
                }
            }
        }
    }
    for (p, which, ncustom, typed) in plan {
        let t = std::time::Instant::now();
        let before = REPLAYS.load(Ordering::Relaxed);
        let mut values = values_for(which);
        if typed {
            values.truncate(2);
        }
        let model = GenericBuilderModel { proto: p, values: values.clone(), ncustom, typed };
        let nactions = model.alphabet().len();
        let out = models::bfs(model, None);
        all.states += out.unique_states as u64;
        all.choice_points += out.generated_states as u64;
        for (_, actions, last) in &out.discoveries {
            record(p, which, actions, &last.verdict, &values, &mut all);
        }
        model_runs.push(json!({
            "protocol": p.name(), "value_alphabet": which, "values": values.len(), "custom_keys": ncustom, "typed_registered_claims": typed,
            "actions": nactions, "unique_states": out.unique_states, "transitions": out.generated_states, "max_depth": out.max_depth,
            "replays_on_real_builder": REPLAYS.load(Ordering::Relaxed) - before,
            "closure_reached": out.discoveries.is_empty(),
            "wall_s": (t.elapsed().as_secs_f64() * 100.0).round() / 100.0,
        }));
        if all.samples.len() < 2 {
            all.sample(json!({"engine": "B", "protocol": p.name(), "example_history": describe(&[Op::Set(0, 0), Op::SetOwned(0, 1), Op::Remove(0), Op::SetKeyOnly(0)], &values), "oracle": "parsed JSON object == model map"}));
        }
    }

    // ---- engine A: unmerged sequences to depth 3 over the quick alphabet with typed claims, v4.local
    let values = values_for("quick");
    let seq_model = GenericBuilderModel { proto: Proto::workhorse(), values: values.clone(), ncustom: 2, typed: true };
    let alphabet = seq_model.alphabet();
    let depth = if quick { 2 } else { 3 };
    let firsts: Vec<usize> = (0..alphabet.len()).collect();
    let accs = par_units(&firsts, |first| {
        let mut acc = Acc::default();
        for len in 1..=depth {
            let (_, pts) = explore(None, |c| {
                let mut path = vec![alphabet[*first].clone()];
                for _ in 1..len {
                    path.push(alphabet[c.choose("call", alphabet.len())].clone());
                }
                let v = replay_and_judge(Proto::workhorse(), &path, &values);
                acc.executions += 1;
                acc.see(&path);
                acc.bump(if v.is_some() { "sequence:disagrees" } else { "sequence:conforms" });
                record(Proto::workhorse(), "quick", &path, &v, &values, &mut acc);
            });
            acc.choice_points += pts;
        }
        acc
    });
    let seq = Acc::merge_all(accs);
    let seq_exec = seq.executions;
    all.merge(seq);

    // ---- hostile texts as claim keys (with a second, ordinary claim next to them), every protocol
    {
        let accs = par_units(&Proto::ALL.to_vec(), |p| {
            let mut acc = Acc::default();
            crate::adapter::freeze_default_clock();
            let key = crate::domains::key_pool(*p)[0].clone();
            // an earlier set_claim on ANOTHER builder of this thread whose value cannot be serialised (a map with
            // tuple keys): whatever it does (error, panic), later builders must be unaffected
            {
                let mut bad = std::collections::BTreeMap::new();
                bad.insert((1u8, 2u8), 3u8);
                #[cfg(feature = "v4_local")]
                let _ = crate::adapter::guard(|| {
                    use rusty_paseto::prelude::*;
                    let mut b = GenericBuilder::<V4, Local>::default();
                    if let Ok(c) = CustomClaim::try_from(("bad", bad.clone())) {
                        b.set_claim(c);
                    }
                });
                acc.bump("poison-pre-step");
            }
            let hostile = crate::domains::hostile_texts();
            for (i, h) in hostile.iter().enumerate() {
                if matches!(p, Proto::V1P | Proto::V3P) && i % 4 != 0 {
                    continue; // the slow signers take every fourth
                }
                let other = &hostile[(i + 7) % hostile.len()];
                let ops = vec![
                    crate::adapter::BOp::Claim(crate::adapter::ClaimSpec { key: h.clone(), value: json!(other), form: Form::TupleString }),
                    crate::adapter::BOp::Claim(crate::adapter::ClaimSpec { key: "plain".into(), value: json!(h), form: Form::TupleStr }),
                    crate::adapter::BOp::Build,
                ];
                let (ev, _) = crate::adapter::with_rng_script(vec![vec![3u8; 32]], || crate::adapter::build_history(*p, crate::adapter::Layer::Generic, &key.sk, &ops));
                acc.executions += 1;
                acc.see(&(p.name(), h));
                let got = match ev.last() {
                    Some(crate::adapter::BEvent::Built(crate::adapter::Out::Ok(t))) => match crate::adapter::parse_history(*p, crate::adapter::Layer::Generic, false, &[key.pk.clone()], &[t.clone()], &[crate::adapter::POp::Parse(0, 0)]).last() {
                        Some(crate::adapter::PEvent::Parsed(crate::adapter::Out::Ok(v), _)) => Some(v.clone()),
                        _ => None,
                    },
                    _ => None,
                };
                let mut want = serde_json::Map::new();
                want.insert(h.clone(), json!(other));
                want.insert("plain".into(), json!(h));
                if got == Some(Value::Object(want.clone())) {
                    acc.controls_ok += 1;
                } else {
                    acc.violate(
                        format!("C14|{}|hostile-key-or-value", p.name()),
                        format!("set_claim(({:?}, {:?})); set_claim((\"plain\", {:?})); build; parse -> {:?}, expected {}", h, other, h, got, Value::Object(want)),
                        json!({"hostile_key": h}),
                    );
                }
            }
            acc
        });
        all.merge(Acc::merge_all(accs));
    }

    // ---- the registered claim types made with `Default::default()` (another typed route besides From / TryFrom):
    //      the claim appears under its registered name, and replaces an earlier value given through From
    {
        use crate::adapter::{BEvent, BOp, ClaimSpec, Layer, Out, PEvent, POp};
        let mut acc = Acc::default();
        for p in { let mut v = vec![Proto::workhorse(), Proto::V2P.or_workhorse()]; v.sort(); v.dedup(); v } {
            crate::adapter::freeze_default_clock();
            let key = crate::domains::key_pool(p)[0].clone();
            for k in ["iss", "sub", "aud", "jti", "exp", "nbf", "iat"] {
                for earlier in [false, true] {
                    let mut ops: Vec<BOp> = vec![BOp::Claim(ClaimSpec::auto("other", json!(1)))];
                    if earlier {
                        ops.push(BOp::Claim(ClaimSpec::auto(k, json!(if matches!(k, "exp" | "nbf" | "iat") { "2999-01-01T00:00:00Z" } else { "earlier" }))));
                    }
                    ops.push(BOp::Claim(ClaimSpec { key: k.to_string(), value: Value::Null, form: Form::RegisteredDefault }));
                    ops.push(BOp::Build);
                    let (ev, _) = crate::adapter::with_rng_script(vec![vec![3u8; 32]], || crate::adapter::build_history(p, Layer::Generic, &key.sk, &ops));
                    acc.executions += 1;
                    let got = match ev.last() {
                        Some(BEvent::Built(Out::Ok(t))) => match crate::adapter::parse_history(p, Layer::Generic, false, &[key.pk.clone()], &[t.clone()], &[POp::Parse(0, 0)]).last() {
                            Some(PEvent::Parsed(Out::Ok(v), _)) => Some(v.clone()),
                            _ => None,
                        },
                        _ => None,
                    };
                    let ok = got.as_ref().map_or(false, |v| {
                        let m = v.get(k);
                        v.as_object().map_or(0, |o| o.len()) == 2 && m.map_or(false, |x| x.is_string()) && (!earlier || m != Some(&json!("earlier")) && m != Some(&json!("2999-01-01T00:00:00Z")))
                    });
                    if ok {
                        acc.controls_ok += 1;
                        acc.bump("registered-default:present");
                    } else {
                        acc.violate(
                            format!("C14|{}|registered-claim-through-default|{}", p.name(), k),
                            format!("set_claim(<{} claim type>::default()){}; build; parse -> {:?}: expected the members \"other\" and {:?} (the default value, as a string)", k, if earlier { " after an earlier value for the same claim" } else { "" }, got, k),
                            json!({"hostile_key": format!("registered-default {}", k)}),
                        );
                    }
                }
            }
        }
        all.merge(acc);
    }

    // ---- the typed time claims with every spelling their constructors may take: RFC 3339 renderings and the wider
    //      ISO 8601 forms of the iso8601 crate (no offset, no seconds, basic format, ordinal / week dates, fractions,
    //      hour-only offsets, lower-case separators). Whatever spelling the constructor accepts is the claim that was
    //      set, so the parsed member is that text, byte for byte; a refused spelling is no claim and not judged here.
    {
        use crate::adapter::{BEvent, BOp, ClaimSpec, Layer, Out, PEvent, POp};
        let mut acc = Acc::default();
        let p = Proto::workhorse();
        crate::adapter::freeze_default_clock();
        let key = crate::domains::key_pool(p)[0].clone();
        let mut spellings: Vec<String> = Vec::new();
        for date in ["2039-01-01", "20390101", "2039-001", "2039001", "2039-W01-1", "2039W011", "0000-01-01", "9999-12-31", "2040-02-29"] {
            for time in ["00:00:00", "0000", "00:00", "000000", "23:59:59", "23:59:60", "12:30:45.5", "12:30:45.250", "12:30:45,5", "12:30:45.123456789", "24:00:00", "00"] {
                for sep in ["T", "t", " "] {
                    for off in ["", "Z", "z", "+00:00", "-00:00", "+0000", "+00", "-05:00", "+05:30", "+14:00", "-12", "+0530"] {
                        spellings.push(format!("{}{}{}{}", date, sep, time, off));
                    }
                }
            }
        }
        for s in ["2039-01-01", "2039-01", "2039", "2039-01-01T", "2039-01-01T00:00:00 ", "2039-01-01T00:00:00Z ", "2039-01-01T00:00:00+00:00Z", "2039-01-01T00:00:00.Z", "2039-01-01T00:00:00.0000000000Z"] {
            spellings.push(s.to_string());
        }
        let mut accepted = 0u64;
        for s in &spellings {
            for k in ["exp", "nbf", "iat"] {
                let ops = vec![BOp::Claim(ClaimSpec::auto("other", json!(1))), BOp::Claim(ClaimSpec::auto(k, json!(s))), BOp::Build];
                let (ev, _) = crate::adapter::with_rng_script(vec![vec![3u8; 32]], || crate::adapter::build_history(p, Layer::Generic, &key.sk, &ops));
                acc.executions += 1;
                acc.choice_points += 1;
                if matches!(ev.get(1), Some(BEvent::Ctor(_))) {
                    acc.bump("time-spelling:refused-by-constructor");
                    continue;
                }
                accepted += 1;
                let got = match ev.last() {
                    Some(BEvent::Built(Out::Ok(t))) => match crate::adapter::parse_history(p, Layer::Generic, false, &[key.pk.clone()], &[t.clone()], &[POp::Parse(0, 0)]).last() {
                        Some(PEvent::Parsed(Out::Ok(v), _)) => Some(v.clone()),
                        _ => None,
                    },
                    _ => None,
                };
                if got.as_ref().map_or(false, |v| v.as_object().map_or(0, |o| o.len()) == 2 && v.get(k) == Some(&json!(s)) && v.get("other") == Some(&json!(1))) {
                    acc.controls_ok += 1;
                    acc.bump("time-spelling:parsed-verbatim");
                } else {
                    acc.violate(
                        format!("C14|{}|time-claim-spelling-not-kept|{}", p.name(), k),
                        format!("set_claim(<{} claim type>::try_from({:?})) was accepted; build; parse -> {:?}: expected {{\"other\":1,{:?}:{:?}}}", k, s, got, k, s),
                        json!({"hostile_key": format!("time-spelling {} {}", k, s)}),
                    );
                }
            }
        }
        acc.bump_n("time-spelling:spellings", spellings.len() as u64);
        if accepted == 0 {
            acc.violate("C14|time-claim-spellings|vacuous".into(), "no time-claim spelling was accepted by any constructor: the pass decided nothing".into(), json!({"hostile_key": "time-spelling vacuous"}));
        }
        all.merge(acc);
    }

    // ---- long histories: one key set N times (the last value wins), set N times then removed (absent), and N
    //      distinct keys (all present), for N on both sides of powers of two
    {
        use crate::adapter::{BEvent, BOp, ClaimSpec, Layer, Out, PEvent, POp};
        let counts: Vec<usize> = if quick { vec![2, 3, 127, 128, 129, 255, 256, 257, 511, 512, 513, 65_535, 65_536, 65_537] } else { (2..=1_030).chain([4_095, 4_096, 4_097, 65_535, 65_536, 65_537, 131_072, 131_073]).collect() };
        let units: Vec<(Proto, usize)> = { let mut v = vec![Proto::workhorse(), Proto::V2P.or_workhorse()]; v.sort(); v.dedup(); v }.iter().flat_map(|p| counts.iter().map(move |n| (*p, *n))).collect();
        let accs = par_units(&units, |(p, n)| {
            let mut acc = Acc::default();
            crate::adapter::freeze_default_clock();
            let key = crate::domains::key_pool(*p)[0].clone();
            let parse = |t: &str| match crate::adapter::parse_history(*p, Layer::Generic, false, &[key.pk.clone()], &[t.to_string()], &[POp::Parse(0, 0)]).last() {
                Some(PEvent::Parsed(Out::Ok(v), _)) => Some(v.clone()),
                _ => None,
            };
            let mut histories: Vec<(&str, Vec<BOp>, Value)> = Vec::new();
            let mut ops: Vec<BOp> = vec![BOp::Claim(ClaimSpec::auto("other", json!(1)))];
            ops.extend((0..*n).map(|i| BOp::Claim(ClaimSpec::auto("role", json!(i)))));
            ops.push(BOp::Build);
            histories.push(("same key set N times", ops.clone(), json!({"other": 1, "role": *n - 1})));
            ops.pop();
            ops.push(BOp::Remove("role".into()));
            ops.push(BOp::Build);
            histories.push(("same key set N times, then removed", ops, json!({"other": 1})));
            if *n <= 1_030 || *n == 65_537 {
                let ops: Vec<BOp> = (0..*n).map(|i| BOp::Claim(ClaimSpec::auto(&format!("k{}", i), json!(i)))).chain([BOp::Build]).collect();
                let want: serde_json::Map<String, Value> = (0..*n).map(|i| (format!("k{}", i), json!(i))).collect();
                histories.push(("N distinct keys", ops, Value::Object(want)));
            }
            for (name, ops, want) in histories {
                let (ev, _) = crate::adapter::with_rng_script(vec![vec![3u8; 32]], || crate::adapter::build_history(*p, Layer::Generic, &key.sk, &ops));
                acc.executions += 1;
                acc.choice_points += 1;
                acc.see(&(p.name(), n, name));
                let panicked = ev.iter().find_map(|e| if let BEvent::Built(Out::Panic(l)) = e { Some(l.clone()) } else { None });
                let got = match ev.last() {
                    Some(BEvent::Built(Out::Ok(t))) => parse(t),
                    _ => None,
                };
                if got.as_ref() == Some(&want) {
                    acc.bump("long-history:conforms");
                } else {
                    let shown = |v: &Value| { let t = v.to_string(); if t.len() > 100 { format!("{}...", t.chars().take(100).collect::<String>()) } else { t } };
                    acc.violate(
                        format!("C14|{}|long-history|{}", p.name(), if panicked.is_some() { "panic" } else { "different-claims" }),
                        format!("{} (N = {}): {} - parsed {}, expected {}", name, n, panicked.map_or("no panic".to_string(), |l| format!("panic at {}", l)), got.as_ref().map_or("nothing (build or parse failed)".to_string(), shown), shown(&want)),
                        json!({"hostile_key": format!("long-history {} {}", name, n)}),
                    );
                }
            }
            acc
        });
        all.merge(Acc::merge_all(accs));
    }

    all.executions += REPLAYS.load(Ordering::Relaxed);
    all.impl_calls = all.executions * 2;
    all.controls_ok = *all.hist.get("sequence:conforms").unwrap_or(&0);
    let extra = json!({
        "space": "reachable states of the GenericBuilder reference model (claim key -> last value, absent after remove) over custom keys with quotes/newline/non-BMP/Cyrillic/blank, a 24-element JSON value alphabet (Unicode string, empty, ints incl. u64::MAX, 1.5, bool, null, arrays, depth-5 object, native struct/Option/map/f32, an object whose single member is named like its claim key, a value that reads mutable state when serialised, a value whose Serialize builds and parses an inner token, members named \"\" below the top level), 3 constructor forms, remove_claim, and the 7 typed registered claims; plus unmerged sequences",
        "model_runs": model_runs,
        "unmerged_sequence_depth": depth,
        "unmerged_sequences": seq_exec,
        "distinct_rule": "distinct call sequences (engine A part); states/transitions are the model's",
        "caps_hit": [],
    });
    run.finish(&all, true, extra, &["states are merged on the key->value map; the verdict is computed on every transition and cross-checked by the unmerged enumeration", "numbers are limited to those with an exact short decimal form (the statement's own restriction)"])
}

pub fn replay(case: &Value) -> i32 {
    if case.get("hostile_key").is_some() {
        println!("this finding comes from the hostile-key pass: re-run `./check C14 quick`");
        return 2;
    }
    let Ok(cc) = serde_json::from_value::<ClaimsCase>(case["claims_case"].clone()) else { crate::report::machinery_error("replay file has no claims_case") };
    let values = values_for(&cc.alphabet);
    let v1 = replay_and_judge(cc.proto, &cc.path, &values);
    let v2 = replay_and_judge(cc.proto, &cc.path, &values);
    if v1 != v2 {
        crate::report::machinery_error("replay is not deterministic");
    }
    println!("history: {}", describe(&cc.path, &values));
    match v1 {
        Some((k, w)) => {
            println!("VIOLATION property=C14 replay=(this file)\n  kind: {}\n  what: {}", k, w);
            1
        }
        None => {
            println!("replay: property holds on this history");
            0
        }
    }
}
