//! Object-reuse histories shared by C01/C02 (round trip), C04 (key), C05 (footer) and C06 (assertion):
//! the same builder builds several tokens while being reconfigured, and the same parser parses several
//! tokens while being reconfigured or handed different keys. Each observation says which binding it
//! exercises and whether acceptance is expected; the properties pick the dimension they own.
//! (Caches, `take()`-style moves and ignored re-configuration only show on a *second* use of an object.)

use crate::adapter::{self, BEvent, BOp, ClaimSpec, Layer, Out, PEvent, POp, Proto};
use crate::domains;
use serde_json::{json, Value};

#[derive(Clone, Copy, Debug, PartialEq, Eq)]
pub enum Dim {
    /// authentic presentation after reuse: must be accepted with the original content
    RoundTrip,
    Key,
    Footer,
    Assertion,
}

#[derive(Clone, Debug)]
pub struct Obs {
    pub dim: Dim,
    pub what: String,
    pub expect_ok: bool,
    pub got_ok: bool,
    pub got: String,
    /// replay description
    pub case: Value,
}

fn seed_script(p: Proto, n: usize) -> Vec<Vec<u8>> {
    (0..n).map(|i| vec![(i as u8).wrapping_mul(41).wrapping_add(5); p.draw_len()]).collect()
}

/// one builder: build, build again, change the footer, build, change the assertion, build;
/// every token must open with exactly the (footer, assertion) in force when it was built
pub fn builder_reuse(p: Proto, layer: Layer) -> Vec<Obs> {
    let key = domains::key_pool(p)[0].clone();
    let (f1, f2) = ("footer-one", "footer-two");
    let (a1, a2) = ("{\"assertion\":\"one\"}", "{\"assertion\":\"two\"}");
    let mut ops = vec![BOp::Claim(ClaimSpec::auto("data", json!("reuse \u{00e9}"))), BOp::Footer(f1.into())];
    if p.has_assertion() {
        ops.push(BOp::Assertion(a1.into()));
    }
    ops.push(BOp::Build);
    ops.push(BOp::Build);
    ops.push(BOp::Footer(f2.into()));
    ops.push(BOp::Build);
    if p.has_assertion() {
        ops.push(BOp::Assertion(a2.into()));
        ops.push(BOp::Build);
    }
    let (ev, _) = adapter::with_rng_script(seed_script(p, 4), || adapter::build_history(p, layer, &key.sk, &ops));
    // the configuration in force at each build
    let mut cfgs: Vec<(String, Option<String>)> = vec![(f1.into(), None), (f1.into(), None), (f2.into(), None)];
    if p.has_assertion() {
        cfgs = vec![(f1.into(), Some(a1.into())), (f1.into(), Some(a1.into())), (f2.into(), Some(a1.into())), (f2.into(), Some(a2.into()))];
    }
    let tokens: Vec<Out<String>> = ev.iter().filter_map(|e| if let BEvent::Built(o) = e { Some(o.clone()) } else { None }).collect();
    let mut out = Vec::new();
    for (i, t) in tokens.iter().enumerate() {
        let case = json!({"kind": "builder-reuse", "proto": p, "layer": layer, "build_no": i + 1});
        let Out::Ok(token) = t else {
            out.push(Obs { dim: Dim::RoundTrip, what: format!("build #{} from one reused builder", i + 1), expect_ok: true, got_ok: false, got: t.short(), case });
            continue;
        };
        let (f, a) = &cfgs[i.min(cfgs.len() - 1)];
        let mut trials: Vec<(Dim, String, Option<&str>, Option<&str>, bool)> = vec![(Dim::RoundTrip, "its own footer/assertion".into(), Some(f.as_str()), a.as_deref(), true)];
        let other_f = if f == f1 { f2 } else { f1 };
        trials.push((Dim::Footer, "the builder's other footer".into(), Some(other_f), a.as_deref(), false));
        trials.push((Dim::Footer, "no footer".into(), None, a.as_deref(), false));
        if p.has_assertion() {
            let other_a = if a.as_deref() == Some(a1) { a2 } else { a1 };
            trials.push((Dim::Assertion, "the builder's other assertion".into(), Some(f.as_str()), Some(other_a), false));
            trials.push((Dim::Assertion, "no assertion".into(), Some(f.as_str()), None, false));
        }
        for (dim, what, pf, pa, expect) in trials {
            let (obs, _) = adapter::present(p, layer, &key.pk, token, pf, pa);
            let content_ok = match &obs {
                Out::Ok(adapter::Opened::Json(v, _)) => v["data"] == json!("reuse \u{00e9}"),
                _ => false,
            };
            out.push(Obs {
                dim,
                what: format!("token of build #{} from one reused builder, presented with {}", i + 1, what),
                expect_ok: expect,
                got_ok: obs.is_ok() && (content_ok || !expect),
                got: obs.short(),
                case: case.clone(),
            });
        }
    }
    out
}

fn issue_core_json(p: Proto, sk: &[u8], footer: Option<&str>, assertion: Option<&str>, tag: &str) -> Option<String> {
    let seed = if p.is_local() { domains::seeds(p)[2].clone() } else { vec![] };
    adapter::core_issue(p, sk, &seed, &json!({"data": tag}).to_string(), footer, assertion).ok().cloned()
}

/// one parser, several keys: the same token string under the right key, a wrong key, the right key again
pub fn parser_reuse_keys(p: Proto, layer: Layer, default_parser: bool) -> Vec<Obs> {
    let pool = domains::key_pool(p);
    let (k0, k1) = (&pool[0], &pool[1]);
    let Some(t) = issue_core_json(p, &k0.sk, None, None, "k0") else { return vec![] };
    let Some(t1) = issue_core_json(p, &k1.sk, None, None, "k1") else { return vec![] };
    let tokens = vec![t, t1];
    let mut out = Vec::new();
    for order in [vec![(0, 0), (0, 1), (0, 0), (1, 1), (1, 0), (0, 1)], vec![(0, 1), (0, 0), (0, 1), (1, 0), (1, 1)]] {
        let ops: Vec<POp> = order.iter().map(|(ti, ki)| POp::Parse(*ti, *ki)).collect();
        let ev = adapter::parse_history(p, layer, default_parser, &[k0.pk.clone(), k1.pk.clone()], &tokens, &ops);
        for (step, ((ti, ki), e)) in order.iter().zip(ev.iter()).enumerate() {
            let PEvent::Parsed(o, _) = e else { continue };
            let expect = ti == ki;
            out.push(Obs {
                dim: if expect { Dim::RoundTrip } else { Dim::Key },
                what: format!("one parser, step {} of {:?}: token issued under key {} parsed with key {}", step + 1, order, ti, ki),
                expect_ok: expect,
                got_ok: o.is_ok(),
                got: o.short(),
                case: json!({"kind": "parser-reuse-keys", "proto": p, "layer": layer, "default_parser": default_parser, "order": order}),
            });
        }
    }
    out
}

/// one parser, reconfigured between parses: footer F1 -> F2 -> "" and assertion A1 -> A2 -> ""
pub fn parser_reconfig(p: Proto, layer: Layer, default_parser: bool) -> Vec<Obs> {
    let key = domains::key_pool(p)[0].clone();
    let mut out = Vec::new();
    // tokens: 0 = footer f1, 1 = footer f2, 2 = no footer; (with assertion a1 for the assertion part: 3 = a1, 4 = a2, 5 = none)
    let (f1, f2, a1, a2) = ("footer-one", "footer-two", "{\"assertion\":\"one\"}", "{\"assertion\":\"two\"}");
    let mut tokens = Vec::new();
    for f in [Some(f1), Some(f2), None] {
        tokens.push(issue_core_json(p, &key.sk, f, None, "footer").unwrap_or_default());
    }
    if p.has_assertion() {
        for a in [Some(a1), Some(a2), None] {
            tokens.push(issue_core_json(p, &key.sk, None, a, "assertion").unwrap_or_default());
        }
    }
    // (op, expected acceptance of each later parse) as a script
    let mut ops: Vec<POp> = Vec::new();
    let mut expect: Vec<Option<(Dim, bool, String)>> = Vec::new();
    let mut push_cfg = |ops: &mut Vec<POp>, expect: &mut Vec<Option<(Dim, bool, String)>>, op: POp| {
        ops.push(op);
        expect.push(None);
    };
    let mut footer_now: Option<&str> = None;
    for (step, f) in [Some(f1), Some(f2), Some(""), Some(f1), None].into_iter().enumerate() {
        if let Some(f) = f {
            push_cfg(&mut ops, &mut expect, POp::Footer(f.to_string()));
            footer_now = if f.is_empty() { None } else { Some(f) };
        }
        for (ti, tf) in [(0usize, Some(f1)), (1, Some(f2)), (2, None)] {
            ops.push(POp::Parse(ti, 0));
            let ok = tf == footer_now;
            expect.push(Some((if ok { Dim::RoundTrip } else { Dim::Footer }, ok, format!("after footer reconfiguration step {} (expected footer now {:?}): token built with footer {:?}", step + 1, footer_now, tf))));
        }
    }
    if p.has_assertion() {
        // back to no footer
        push_cfg(&mut ops, &mut expect, POp::Footer(String::new()));
        let mut a_now: Option<&str> = None;
        for (step, a) in [Some(a1), Some(a2), Some(""), Some(a1)].into_iter().enumerate() {
            if let Some(a) = a {
                push_cfg(&mut ops, &mut expect, POp::Assertion(a.to_string()));
                a_now = if a.is_empty() { None } else { Some(a) };
            }
            for (ti, ta) in [(3usize, Some(a1)), (4, Some(a2)), (5, None)] {
                ops.push(POp::Parse(ti, 0));
                let ok = ta == a_now;
                expect.push(Some((if ok { Dim::RoundTrip } else { Dim::Assertion }, ok, format!("after assertion reconfiguration step {} (expected assertion now {:?}): token built with assertion {:?}", step + 1, a_now, ta))));
            }
        }
    }
    let ev = adapter::parse_history(p, layer, default_parser, &[key.pk.clone()], &tokens, &ops);
    for (e, x) in ev.iter().zip(expect.iter()) {
        if let (PEvent::Parsed(o, _), Some((dim, ok, what))) = (e, x) {
            out.push(Obs {
                dim: *dim,
                what: format!("one parser, {}", what),
                expect_ok: *ok,
                got_ok: o.is_ok(),
                got: o.short(),
                case: json!({"kind": "parser-reconfig", "proto": p, "layer": layer, "default_parser": default_parser}),
            });
        }
    }
    out
}

/// core layer: one `Paseto::builder()` object issuing two tokens; both must open with the builder's
/// footer / assertion and return the message, neither may open without them
pub fn core_builder_reuse(p: Proto) -> Vec<Obs> {
    let key = domains::key_pool(p)[0].clone();
    let seed = if p.is_local() { domains::seeds(p)[2].clone() } else { vec![] };
    let msg = "{\"data\":\"core reuse \u{00e9}\"}";
    let (f, a) = ("footer-one", "{\"assertion\":\"one\"}");
    let a_opt = if p.has_assertion() { Some(a) } else { None };
    let toks = adapter::core_issue_twice(p, &key.sk, &seed, msg, Some(f), a_opt);
    let mut out = Vec::new();
    for (i, t) in toks.iter().enumerate() {
        let case = json!({"kind": "core-builder-reuse", "proto": p, "issue_no": i + 1});
        let Out::Ok(token) = t else {
            out.push(Obs { dim: Dim::RoundTrip, what: format!("core layer, issue #{} from one reused Paseto builder", i + 1), expect_ok: true, got_ok: false, got: t.short(), case });
            continue;
        };
        let mut trials: Vec<(Dim, &str, Option<&str>, Option<&str>, bool)> = vec![(Dim::RoundTrip, "its own footer/assertion", Some(f), a_opt, true), (Dim::Footer, "no footer", None, a_opt, false)];
        if p.has_assertion() {
            trials.push((Dim::Assertion, "no assertion", Some(f), None, false));
        }
        for (dim, what, pf, pa, expect) in trials {
            let o = adapter::core_present(p, &key.pk, token, pf, pa);
            let ok = match &o {
                Out::Ok(m) => !expect || m == msg,
                _ => false,
            };
            out.push(Obs { dim, what: format!("core layer, token #{} from one reused Paseto builder, presented with {}", i + 1, what), expect_ok: expect, got_ok: ok, got: o.short(), case: case.clone() });
        }
    }
    // other call orders: footer / assertion before the payload; payload replaced on the configured builder
    let msg2 = "{\"data\":\"second payload\"}";
    let ord = adapter::core_issue_orders(p, &key.sk, &seed, msg, msg2, Some(f), a_opt);
    for (i, (t, m)) in ord.iter().zip([msg, msg2, msg2]).enumerate() {
        let case = json!({"kind": "core-call-order", "proto": p, "issue_no": i + 1});
        let what = match i {
            0 => "core layer, set_footer / set_implicit_assertion BEFORE set_payload",
            1 => "core layer, set_payload again on the configured builder",
            _ => "core layer, token issued from a clone() of the configured builder",
        };
        let Out::Ok(token) = t else {
            out.push(Obs { dim: Dim::RoundTrip, what: what.into(), expect_ok: true, got_ok: false, got: t.short(), case });
            continue;
        };
        let mut trials: Vec<(Dim, &str, Option<&str>, Option<&str>, bool)> = vec![(Dim::RoundTrip, "its own footer/assertion", Some(f), a_opt, true), (Dim::Footer, "no footer", None, a_opt, false)];
        if p.has_assertion() {
            trials.push((Dim::Assertion, "no assertion", Some(f), None, false));
        }
        for (dim, with, pf, pa, expect) in trials {
            let o = adapter::core_present(p, &key.pk, token, pf, pa);
            let ok = match &o {
                Out::Ok(got) => !expect || got == m,
                _ => false,
            };
            out.push(Obs { dim, what: format!("{}: token presented with {}", what, with), expect_ok: expect, got_ok: ok, got: o.short(), case: case.clone() });
        }
    }
    out
}

/// everything for one protocol: (layer is Generic or Prelude; the prelude parser in both flavours)
pub fn all_for(p: Proto) -> Vec<Obs> {
    let mut v = core_builder_reuse(p);
    for layer in [Layer::Generic, Layer::Prelude] {
        v.extend(builder_reuse(p, layer));
        v.extend(parser_reuse_keys(p, layer, false));
        v.extend(parser_reconfig(p, layer, false));
    }
    v.extend(parser_reuse_keys(p, Layer::Prelude, true));
    v.extend(parser_reconfig(p, Layer::Prelude, true));
    v
}

/// Records the observations of dimension `dims` under property `prop`.
pub fn record(prop: &str, p: Proto, obs: &[Obs], dims: &[Dim], acc: &mut crate::report::Acc) {
    for o in obs.iter().filter(|o| dims.contains(&o.dim)) {
        acc.executions += 1;
        acc.impl_calls += 1;
        acc.see(&o.what);
        acc.bump(&format!("reuse:{:?}:{}", o.dim, if o.got_ok { "accepted" } else { "rejected" }));
        if o.got_ok != o.expect_ok {
            acc.violate(
                format!("{}|{}|object-reuse|{:?}|{}", prop, p.name(), o.dim, if o.expect_ok { "authentic-rejected" } else { "accepted-unauthentic" }),
                format!("{}: expected {}, observed {}", o.what, if o.expect_ok { "acceptance with the original content" } else { "rejection" }, o.got),
                json!({"reuse_case": o.case}),
            );
        } else if o.expect_ok {
            acc.controls_ok += 1;
        }
    }
}

pub fn replay(prop: &'static str, case: &Value, dims: &[Dim]) -> i32 {
    let rc = &case["reuse_case"];
    let Ok(p) = serde_json::from_value::<Proto>(rc["proto"].clone()) else { crate::report::machinery_error("reuse_case lacks proto") };
    let mut acc = crate::report::Acc::default();
    record(prop, p, &all_for(p), dims, &mut acc);
    for v in &acc.violations {
        println!("VIOLATION property={} replay=(this file)\n  key:  {}\n  what: {}", prop, v.key, v.what);
    }
    if acc.violations.is_empty() {
        println!("replay: property holds on the object-reuse histories of {}", p.name());
        0
    } else {
        1
    }
}
