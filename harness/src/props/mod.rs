pub mod roundtrip;
pub mod tamper;
pub mod binding;
pub mod nopanic;
pub mod spec;
pub mod nonce;
pub mod timeclaims;
pub mod claimkeys;
