pub mod roundtrip;
