//! C01 (local) and C02 (public): issue then present with the same key / footer / assertion returns
//! exactly the original message, at all three layers. Engine A, oracle: identity.

use crate::adapter::{Layer, Opened, Out, Proto};
use crate::cases::{content_matches, IssueCase, Presentation};
use crate::domains::{self, KeyMat};
use crate::explore::{explore, par_units, Chooser};
use crate::report::{Acc, Run};
use serde_json::json;

#[derive(Clone)]
struct Alphabet {
    keys: Vec<KeyMat>,
    seeds: Vec<Vec<u8>>,
    lengths: Vec<usize>,
    classes: usize,
    footers: Vec<Option<String>>,
    assertions: Vec<Option<String>>,
}

fn full_alphabet(p: Proto, quick: bool) -> Alphabet {
    Alphabet {
        keys: domains::key_pool(p),
        seeds: if p.is_local() { domains::seeds(p) } else { vec![vec![]] },
        lengths: if quick { domains::quick_lengths() } else { domains::MSG_LENGTHS.to_vec() },
        classes: domains::MSG_CLASSES,
        footers: domains::footers(),
        assertions: if p.has_assertion() { domains::assertions() } else { vec![None] },
    }
}

fn reduced_alphabet(p: Proto) -> Alphabet {
    let a = full_alphabet(p, true);
    Alphabet {
        keys: a.keys.into_iter().take(2).collect(),
        seeds: a.seeds.into_iter().enumerate().filter(|(i, _)| *i == 0 || *i == 2).map(|(_, s)| s).collect(),
        lengths: vec![0, 17, 65],
        classes: domains::MSG_CLASSES,
        footers: a.footers.into_iter().take(3).collect(),
        assertions: a.assertions.into_iter().take(3).collect(),
    }
}

/// one execution: decode the case from the chooser, run it on the real crate, judge
fn body(c: &mut Chooser, p: Proto, layer: Layer, al: &Alphabet, fixed_key: Option<usize>, acc: &mut Acc, prop: &str) {
    let ki = match fixed_key {
        Some(k) => k,
        None => c.choose("key", al.keys.len()),
    };
    let si = c.choose("seed", al.seeds.len());
    let li = c.choose("len", al.lengths.len());
    let ci = c.choose("class", al.classes);
    let fi = c.choose("footer", al.footers.len());
    let ai = c.choose("assertion", al.assertions.len());
    let msg = domains::message(al.lengths[li], ci);
    let seed = if p.is_local() { Some(al.seeds[si].as_slice()) } else { None };
    let case = IssueCase::new(p, layer, &al.keys[ki], seed, &msg, &al.footers[fi], &al.assertions[ai]);
    evaluate(&case, acc, prop);
}

pub fn evaluate(case: &IssueCase, acc: &mut Acc, prop: &str) {
    acc.executions += 1;
    acc.impl_calls += 2;
    let sig = |kind: &str| format!("{}|{}|{}|{}", prop, case.proto.name(), case.layer.name(), kind);
    let token = match case.issue() {
        Out::Ok(t) => t,
        other => {
            acc.bump("issue-failed");
            acc.violate(sig(&format!("issue:{}", other.short())), format!("issuing failed: {}", other.short()), json!({"issue": case}));
            return;
        }
    };
    acc.see(&token);
    let pres = Presentation::of(case, &token);
    let (obs, _) = pres.present();
    match &obs {
        Out::Ok(opened) if content_matches(case, opened) => {
            acc.bump("round-trip-ok");
            acc.controls_ok += 1;
            if acc.samples.len() < 2 {
                let mut b = case.brief();
                b["token_len"] = json!(token.len());
                b["returned"] = json!(match opened {
                    Opened::Msg(m) => m.chars().take(40).collect::<String>(),
                    Opened::Json(v, _) => v.to_string().chars().take(80).collect::<String>(),
                });
                acc.sample(b);
            }
        }
        Out::Ok(opened) => {
            acc.bump("different-content");
            let got = match opened {
                Opened::Msg(m) => m.chars().take(120).collect::<String>(),
                Opened::Json(v, _) => v.to_string().chars().take(120).collect::<String>(),
            };
            acc.violate(sig("different-content"), format!("round trip returned different content: {:?}", got), json!({"issue": case, "token": token}));
        }
        other => {
            acc.bump("present-failed");
            acc.violate(
                sig(&format!("present:{}", other.short())),
                format!("the token was refused under its own key/footer/assertion: {}", other.short()),
                json!({"issue": case, "token": token, "unit_test": crate::cases::unit_test_for(&pres, "r.is_ok()", "a token produced by the library under this key / footer / assertion: must be accepted")}),
            );
        }
    }
}

pub fn run(prop: &'static str, tier: &str) -> i32 {
    let run = Run::new(prop, tier);
    let quick = tier == "quick";
    let protos: Vec<Proto> = if prop == "C01" { Proto::LOCAL.to_vec() } else { Proto::PUBLIC.to_vec() };
    let mut all = Acc::default();
    let mut phases = Vec::new();

    // phase 1: deviation bounds 0, 1, 2 over the full alphabet (key is an input dimension here)
    let mut completed_bound = 0;
    for bound in 0..=2u32 {
        let units: Vec<(Proto, Layer)> = protos.iter().flat_map(|p| Layer::ALL.iter().map(move |l| (*p, *l))).collect();
        let accs = par_units(&units, |(p, l)| {
            let al = full_alphabet(*p, quick);
            let mut acc = Acc::default();
            let (_, pts) = explore(Some(bound), |c| body(c, *p, *l, &al, None, &mut acc, prop));
            acc.choice_points += pts;
            acc
        });
        let a = Acc::merge_all(accs);
        phases.push(json!({"phase": format!("deviation<={}", bound), "executions": a.executions}));
        if bound == 2 {
            all.merge(a);
        }
        completed_bound = bound;
    }

    // phase 2: full product (quick: reduced alphabet; thorough: the full alphabet), split by key
    let mut product_sizes = serde_json::Map::new();
    {
        let mut units: Vec<(Proto, Layer, usize)> = Vec::new();
        for p in &protos {
            let nkeys = if quick { reduced_alphabet(*p).keys.len() } else { full_alphabet(*p, false).keys.len() };
            for l in Layer::ALL {
                for k in 0..nkeys {
                    units.push((*p, l, k));
                }
            }
        }
        let accs = par_units(&units, |(p, l, k)| {
            let al = if quick { reduced_alphabet(*p) } else { full_alphabet(*p, false) };
            let mut acc = Acc::default();
            let (_, pts) = explore(None, |c| body(c, *p, *l, &al, Some(*k), &mut acc, prop));
            acc.choice_points += pts;
            acc
        });
        let a = Acc::merge_all(accs);
        for p in &protos {
            let al = if quick { reduced_alphabet(*p) } else { full_alphabet(*p, false) };
            product_sizes.insert(
                p.name().to_string(),
                json!({"keys": al.keys.len(), "seeds": al.seeds.len(), "lengths": al.lengths.len(), "classes": al.classes, "footers": al.footers.len(), "assertions": al.assertions.len(), "layers": 3}),
            );
        }
        phases.push(json!({"phase": if quick {"full product, reduced alphabet"} else {"full product, full alphabet"}, "executions": a.executions}));
        all.merge(a);
    }

    // phase 3 (thorough): every message length 0..=300, default class, other dimensions default
    if !quick {
        let units: Vec<(Proto, Layer)> = protos.iter().flat_map(|p| Layer::ALL.iter().map(move |l| (*p, *l))).collect();
        let accs = par_units(&units, |(p, l)| {
            let al = full_alphabet(*p, false);
            let mut acc = Acc::default();
            for len in 0..=300usize {
                for class in 0..domains::MSG_CLASSES {
                    let seed = if p.is_local() { Some(al.seeds[0].as_slice()) } else { None };
                    let case = IssueCase::new(*p, *l, &al.keys[0], seed, &domains::message(len, class), &al.footers[2], &al.assertions[al.assertions.len().min(3) - 1]);
                    evaluate(&case, &mut acc, prop);
                    acc.choice_points += 2;
                }
            }
            acc
        });
        let a = Acc::merge_all(accs);
        phases.push(json!({"phase": "all lengths 0..=300 x 3 classes", "executions": a.executions}));
        all.merge(a);
    }

    // phase 4: free-running pass at the upper layers (real RNG for local nonces; nothing scripted)
    {
        let units: Vec<(Proto, Layer)> = protos.iter().flat_map(|p| [Layer::Generic, Layer::Prelude].into_iter().map(move |l| (*p, l))).collect();
        let accs = par_units(&units, |(p, l)| {
            let al = reduced_alphabet(*p);
            let mut acc = Acc::default();
            crate::adapter::set_clock(None); // real clock, real RNG: the hooks stay idle in this pass
            for li in 0..al.lengths.len() {
                for fi in 0..al.footers.len() {
                    for ai in 0..al.assertions.len() {
                        let case = IssueCase::new(*p, *l, &al.keys[0], None, &domains::message(al.lengths[li], 1), &al.footers[fi], &al.assertions[ai]);
                        evaluate(&case, &mut acc, prop);
                        acc.choice_points += 3;
                    }
                }
            }
            acc
        });
        let a = Acc::merge_all(accs);
        phases.push(json!({"phase": "free-running (real RNG, hooks idle)", "executions": a.executions}));
        all.merge(a);
    }

    // phase 4b: texts that sanitisation / normalisation shortcuts damage, as message, as footer, as assertion
    {
        let units: Vec<(Proto, Layer)> = protos.iter().flat_map(|p| Layer::ALL.iter().map(move |l| (*p, *l))).collect();
        let accs = par_units(&units, |(p, l)| {
            let al = full_alphabet(*p, true);
            let mut acc = Acc::default();
            let seed = if p.is_local() { Some(al.seeds[2].as_slice()) } else { None };
            for h in domains::hostile_texts() {
                let plain = domains::message(17, 0);
                let cases = [
                    IssueCase::new(*p, *l, &al.keys[0], seed, &h, &None, &None),
                    IssueCase::new(*p, *l, &al.keys[0], seed, &plain, &Some(h.clone()), &None),
                    IssueCase::new(*p, *l, &al.keys[0], seed, &plain, &Some("f".into()), &Some(h.clone())),
                ];
                for c in cases.iter().take(if p.has_assertion() { 3 } else { 2 }) {
                    evaluate(c, &mut acc, prop);
                    acc.choice_points += 1;
                }
            }
            acc
        });
        let a = Acc::merge_all(accs);
        phases.push(json!({"phase": "hostile texts as message / footer / assertion", "executions": a.executions}));
        all.merge(a);
    }

    // phase 4d: multi-byte characters lying across every power-of-two byte offset up to 128 KiB (chunked
    // processing validates or copies text per block): a uniform text of 2-, 3- and 4-byte characters behind
    // 0..width-1 ASCII bytes, so that some character straddles offset P (and every multiple of P) in each
    // alignment
    {
        let powers: Vec<usize> = if quick { vec![64, 4_096, 65_536, 131_072] } else { vec![16, 32, 64, 128, 256, 512, 1_024, 2_048, 4_096, 8_192, 16_384, 32_768, 65_536, 131_072, 262_144] };
        let units: Vec<(Proto, Layer, usize)> = protos.iter().flat_map(|p| Layer::ALL.iter().flat_map({ let powers = powers.clone(); move |l| powers.clone().into_iter().map(move |pw| (*p, *l, pw)) })).collect();
        let accs = par_units(&units, |(p, l, pw)| {
            let al = full_alphabet(*p, true);
            let mut acc = Acc::default();
            let seed = if p.is_local() { Some(al.seeds[2].as_slice()) } else { None };
            for ch in ["\u{00e9}", "\u{20ac}", "\u{1f600}"] {
                for lead in 0..ch.len() {
                    let mut m = "a".repeat(lead);
                    while m.len() < *pw + 2 * ch.len() {
                        m.push_str(ch);
                    }
                    let case = IssueCase::new(*p, *l, &al.keys[0], seed, &m, &None, &None);
                    evaluate(&case, &mut acc, prop);
                    acc.choice_points += 1;
                }
            }
            acc
        });
        let a = Acc::merge_all(accs);
        phases.push(json!({"phase": "multi-byte characters across power-of-two offsets", "executions": a.executions, "offsets": powers}));
        all.merge(a);
    }

    // phase 4c: at the builder layers "the message" is a set of claims. Structured claim sets (values shaped like
    // their own key, deep / empty containers, number classes, escapes, many claims, unusual keys) must come back
    // from the matching parser member for member
    {
        let units: Vec<(Proto, Layer)> = protos.iter().flat_map(|p| [Layer::Generic, Layer::Prelude].into_iter().map(move |l| (*p, l))).collect();
        let accs = par_units(&units, |(p, l)| {
            let al = full_alphabet(*p, true);
            let mut acc = Acc::default();
            let seed = if p.is_local() { Some(al.seeds[2].as_slice()) } else { None };
            for (si, set) in claim_sets().iter().enumerate() {
                acc.executions += 1;
                acc.choice_points += 1;
                acc.impl_calls += 2;
                let fail = |acc: &mut Acc, kind: &str, what: String| {
                    acc.violate(
                        format!("{}|{}/{}|claim-set-{}|{}", prop, p.name(), l.name(), si, kind),
                        what,
                        json!({"claim_set": {"proto": p.name(), "layer": l.name(), "key": al.keys[0].label, "set": si}}),
                    );
                };
                let tok = match crate::adapter::issue(*p, *l, &al.keys[0].sk, seed, "m", set, Some("f"), None) {
                    Out::Ok(t) => t,
                    Out::Err(e) => {
                        fail(&mut acc, "build-failed", format!("building a token from claim set #{} ({}) failed: {}", si, describe_set(set), e.short()));
                        continue;
                    }
                    Out::Panic(loc) => {
                        fail(&mut acc, "build-panic", format!("building a token from claim set #{} panicked at {}", si, loc));
                        continue;
                    }
                };
                acc.see(&tok);
                match crate::adapter::present(*p, *l, &al.keys[0].pk, &tok, Some("f"), None).0 {
                    Out::Ok(crate::adapter::Opened::Json(v, _)) => {
                        let mut ok = v.get("data") == Some(&serde_json::Value::String("m".into()));
                        let mut why = String::new();
                        for c in set {
                            let want = c.expected_json();
                            if v.get(&c.key) != Some(&want) {
                                ok = false;
                                why = format!("claim {:?}: built from {} but the parser returned {}", c.key, want, v.get(&c.key).map_or("no such member".to_string(), |x| x.to_string()));
                                break;
                            }
                        }
                        if ok && *l == Layer::Generic {
                            let n = v.as_object().map_or(0, |o| o.len());
                            if n != set.len() + 1 {
                                ok = false;
                                why = format!("{} members returned for {} claims set", n, set.len() + 1);
                            }
                        }
                        if ok {
                            acc.controls_ok += 1;
                            acc.bump("claim-set:round-trip-ok");
                        } else {
                            fail(&mut acc, "different-content", format!("claim set #{} did not come back as built: {}", si, why));
                        }
                    }
                    Out::Ok(_) => fail(&mut acc, "harness", "parser layer returned a message".into()),
                    Out::Err(e) => fail(&mut acc, "rejected", format!("the matching parser rejected the token built from claim set #{} ({}): {}", si, describe_set(set), e.short())),
                    Out::Panic(loc) => fail(&mut acc, "parse-panic", format!("parsing the token built from claim set #{} panicked at {}", si, loc)),
                }
            }
            acc
        });
        let a = Acc::merge_all(accs);
        phases.push(json!({"phase": "structured claim sets through the builder layers", "executions": a.executions, "claim_sets": claim_sets().len()}));
        all.merge(a);
    }

    // phase 4e: key material rotated in place - the same buffer is overwritten with the next key of the same
    // length and handed to the library again, on the issuing and on the accepting side: every token must open
    // under the key that was in the buffer when it was made
    {
        let units: Vec<(Proto, Layer)> = protos.iter().flat_map(|p| Layer::ALL.iter().map(move |l| (*p, *l))).collect();
        let accs = par_units(&units, |(p, l)| {
            let mut acc = Acc::default();
            let pool = domains::key_pool(*p);
            let al = full_alphabet(*p, true);
            let seed = if p.is_local() { Some(al.seeds[2].as_slice()) } else { None };
            let Some(first) = pool.iter().find(|k| pool.iter().filter(|o| o.sk.len() == k.sk.len() && o.pk.len() == k.pk.len()).count() >= 2) else { return acc };
            let same_len: Vec<&KeyMat> = pool.iter().filter(|k| k.sk.len() == first.sk.len() && k.pk.len() == first.pk.len()).take(4).collect();
            let mut sk_buf = same_len[0].sk.clone();
            let mut pk_buf = same_len[0].pk.clone();
            for (round, k) in same_len.iter().chain(same_len.iter()).enumerate() {
                sk_buf.copy_from_slice(&k.sk);
                pk_buf.copy_from_slice(&k.pk);
                acc.executions += 1;
                acc.choice_points += 1;
                acc.impl_calls += 2;
                let msg = format!("rotation round {}", round);
                let issued = crate::adapter::issue(*p, *l, &sk_buf, seed, &msg, &[], Some("f"), None);
                let back = match &issued {
                    Out::Ok(t) => Some(crate::adapter::present(*p, *l, &pk_buf, t, Some("f"), None).0),
                    _ => None,
                };
                let ok = match &back {
                    Some(Out::Ok(Opened::Msg(m))) => *m == msg,
                    Some(Out::Ok(Opened::Json(v, _))) => v["data"] == json!(msg),
                    _ => false,
                };
                if ok {
                    acc.controls_ok += 1;
                    acc.bump("rotated-key:round-trip-ok");
                } else {
                    acc.violate(
                        format!("{}|{}/{}|key-rotated-in-place|{}", prop, p.name(), l.name(), if issued.is_ok() { "not-opened" } else { "not-issued" }),
                        format!("key buffer overwritten with key {} (round {}): issue -> {}, open under the matching key -> {}", k.label, round, issued.short(), back.map_or("-".to_string(), |b| b.short())),
                        json!({"rotation": {"proto": p.name(), "layer": l.name(), "round": round}}),
                    );
                }
            }
            acc
        });
        let a = Acc::merge_all(accs);
        phases.push(json!({"phase": "key material rotated in place", "executions": a.executions}));
        all.merge(a);
    }

    // phase 4f: keys loaded from their hex text (`Key::<N>::try_from(&str)`, the documented way to bring key
    // material in) in lower case, upper case and mixed case: the key object must be the key, on the issuing side
    // (hex-loaded key issues, raw-bytes key opens) and on the accepting side (the other way round)
    {
        let units: Vec<(Proto, Layer)> = protos.iter().filter(|p| **p != Proto::V1P).flat_map(|p| Layer::ALL.iter().map(move |l| (*p, *l))).collect();
        let accs = par_units(&units, |(p, l)| {
            let mut acc = Acc::default();
            let al = full_alphabet(*p, true);
            let seed = if p.is_local() { Some(al.seeds[2].as_slice()) } else { None };
            for k in domains::key_pool(*p).iter() {
                let spell = |bytes: &[u8], how: usize| -> String {
                    let h = crate::b64::hex(bytes);
                    match how {
                        0 => h,
                        1 => h.to_uppercase(),
                        _ => h.chars().enumerate().map(|(i, c)| if i % 3 == 0 { c.to_ascii_uppercase() } else { c }).collect(),
                    }
                };
                for how in 0..3 {
                    let sk = crate::adapter::key_bytes_via_hex(k.sk.len(), &spell(&k.sk, how));
                    let pk = crate::adapter::key_bytes_via_hex(k.pk.len(), &spell(&k.pk, how));
                    acc.executions += 1;
                    acc.choice_points += 1;
                    acc.impl_calls += 4;
                    let msg = "hex-loaded key";
                    let mut problem: Option<String> = None;
                    match (&sk, &pk) {
                        (Some(skb), Some(pkb)) => {
                            for (side, s_bytes, p_bytes) in [("issuing", skb.as_slice(), k.pk.as_slice()), ("accepting", k.sk.as_slice(), pkb.as_slice())] {
                                let t = crate::adapter::issue(*p, *l, s_bytes, seed, msg, &[], None, None);
                                let ok = match &t {
                                    Out::Ok(t) => match crate::adapter::present(*p, *l, p_bytes, t, None, None).0 {
                                        Out::Ok(Opened::Msg(m)) => m == msg,
                                        Out::Ok(Opened::Json(v, _)) => v["data"] == json!(msg),
                                        _ => false,
                                    },
                                    _ => false,
                                };
                                if !ok && problem.is_none() {
                                    problem = Some(format!("key {} loaded from its {} hex text on the {} side: the round trip with the same key given as bytes on the other side fails (issue -> {})", k.label, ["lower-case", "upper-case", "mixed-case"][how], side, t.short()));
                                }
                            }
                        }
                        _ => problem = Some(format!("Key::try_from refused the {} hex text of key {}", ["lower-case", "upper-case", "mixed-case"][how], k.label)),
                    }
                    match problem {
                        None => {
                            acc.controls_ok += 1;
                            acc.bump("hex-loaded-key:round-trip-ok");
                        }
                        Some(w) => acc.violate(format!("{}|{}/{}|hex-loaded-key|{}", prop, p.name(), l.name(), ["lower", "upper", "mixed"][how]), w, json!({"rotation": {"proto": p.name(), "layer": l.name(), "hex": how}})),
                    }
                }
            }
            acc
        });
        let a = Acc::merge_all(accs);
        phases.push(json!({"phase": "keys loaded from hex text (lower / upper / mixed case)", "executions": a.executions}));
        all.merge(a);
    }

    // phase 5: object reuse - one builder building several tokens while being reconfigured, one parser
    // parsing several tokens while being reconfigured / handed different keys: every authentic presentation
    // must still be accepted with the original content
    {
        let accs = par_units(&protos, |p| {
            let mut acc = Acc::default();
            let obs = crate::props::reuse::all_for(*p);
            crate::props::reuse::record(prop, *p, &obs, &[crate::props::reuse::Dim::RoundTrip], &mut acc);
            acc.choice_points += obs.len() as u64;
            acc
        });
        let a = Acc::merge_all(accs);
        phases.push(json!({"phase": "object reuse (second build / reconfigured parser), authentic presentations", "executions": a.executions}));
        all.merge(a);
    }

    all.states = all.executions;
    if all.controls_ok == 0 {
        crate::report::machinery_error("no round trip succeeded at all: vacuous harness or unusable build");
    }
    let extra = json!({
        "space": "protocol x layer x key x nonce-seed x message(length x class) x footer x assertion",
        "deviation_bound_completed": completed_bound,
        "phases": phases,
        "full_product_domain_sizes": product_sizes,
        "distinct_rule": "distinct tokens produced",
        "caps_hit": [],
    });
    run.finish(
        &all,
        true,
        extra,
        &["keys, seeds and messages are drawn from the structured alphabets of DESIGN.md section 3, not from {0,1}^256 / UTF-8*", "upper layers: the message travels as the custom claim `data`; local nonces are injected through the H1 RNG script (plus one free-running pass)"],
    )
}

fn describe_set(set: &[crate::adapter::ClaimSpec]) -> String {
    let v: Vec<String> = set.iter().take(4).map(|c| format!("{:?}: {}", c.key, { let t = c.expected_json().to_string(); if t.len() > 60 { format!("{}...", t.chars().take(60).collect::<String>()) } else { t } })).collect();
    format!("{}{}", v.join(", "), if set.len() > 4 { ", ..." } else { "" })
}

/// Claim sets for phase 4c (keys are never registered claim names and never `data` / `vcount`).
pub fn claim_sets() -> Vec<Vec<crate::adapter::ClaimSpec>> {
    use crate::adapter::ClaimSpec as C;
    let mut deep = json!(1);
    for i in 0..40 {
        deep = if i % 2 == 0 { json!({ "n": deep }) } else { json!([deep]) };
    }
    let mut sets: Vec<Vec<C>> = vec![
        // a value shaped like the claim's own serialised form {key: value}
        vec![C::auto("k", json!({"k": "v"}))],
        vec![C::auto("k", json!({"k": {"k": {"k": 1}}})), C::auto("j", json!({"k": 2}))],
        vec![C::auto("role", json!({"role": null})), C::auto("r2", json!({"r2": []}))],
        // containers
        vec![C::auto("a", json!([])), C::auto("o", json!({})), C::auto("s", json!("")), C::auto("aa", json!([[], [[]], {}])), C::auto("deep", deep)],
        vec![C::auto("list", json!([{"list": 1}, "list", ["list"]])), C::auto("nul", json!(null))],
        // number classes
        vec![
            C::auto("u", json!(u64::MAX)), C::auto("i", json!(i64::MIN)), C::auto("z", json!(0)), C::auto("f", json!(1.5)), C::auto("big", json!(1e300)),
            C::auto("tiny", json!(5e-324)), C::auto("neg", json!(-1)), C::auto("p53", json!(9007199254740993u64)), C::auto("third", json!(0.1)),
        ],
        vec![C::auto("t", json!(true)), C::auto("ff", json!(false)), C::auto("strue", json!("true")), C::auto("snum", json!("12")), C::auto("snull", json!("null"))],
        // texts
        vec![C::auto("esc", json!("\"\\/\u{8}\u{c}\n\r\t\u{0}\u{1f}\u{7f}\u{2028}\u{2029}\u{1f600}\u{fffd}\u{feff}")), C::auto("json", json!("{\"exp\":\"x\"}")), C::auto("tok", json!("v4.local.AAAA.BBBB"))],
        // keys
        vec![
            C::auto("Data", json!(1)), C::auto("data2", json!(2)), C::auto(" ", json!(3)), C::auto("\u{43a}\u{43b}\u{44e}\u{447}", json!(4)), C::auto("a.b", json!(5)), C::auto("a/b", json!(6)),
            C::auto("$ref", json!(7)), C::auto("__proto__", json!(8)), C::auto("0", json!(9)), C::auto("EXP", json!(10)), C::auto("exp ", json!(11)), C::auto("k\"q", json!(12)), C::auto("k\\", json!(13)),
        ],
    ];
    // members named "" below the top level; a value whose Serialize implementation uses the library itself
    sets.push(vec![C::auto("obj", json!({"": 1, "a": {"": [], "b": [{"": null}]}})), C::auto("arr", json!([{"": {"": "deep"}}]))]);
    sets.push(vec![C { key: "delegation".into(), value: json!(null), form: crate::adapter::Form::Native(13) }, C::auto("after", json!(1))]);
    // many claims, given in descending key order
    sets.push((0..64).rev().map(|i| C::auto(&format!("k{:02}", i), json!({"i": i, "s": format!("v{}", i)}))).collect());
    sets
}

pub fn replay(prop: &'static str, case: &serde_json::Value) -> i32 {
    if case.get("reuse_case").is_some() {
        return crate::props::reuse::replay(prop, case, &[crate::props::reuse::Dim::RoundTrip]);
    }
    if let Some(cs) = case.get("claim_set") {
        return replay_claim_set(prop, cs);
    }
    if case.get("rotation").is_some() {
        println!("this finding comes from the key-rotation history: re-run `./check {} quick`", prop);
        return 2;
    }
    let Ok(ic) = serde_json::from_value::<IssueCase>(case["issue"].clone()) else {
        crate::report::machinery_error("replay file has no `issue` case");
    };
    let mut a1 = Acc::default();
    evaluate(&ic, &mut a1, prop);
    let mut a2 = Acc::default();
    evaluate(&ic, &mut a2, prop);
    let k1: Vec<_> = a1.violations.iter().map(|v| v.key.clone()).collect();
    let k2: Vec<_> = a2.violations.iter().map(|v| v.key.clone()).collect();
    if k1 != k2 {
        crate::report::machinery_error("replay is not deterministic");
    }
    for v in &a1.violations {
        println!("VIOLATION property={} replay=(this file)\n  key:  {}\n  what: {}", prop, v.key, v.what);
    }
    if a1.violations.is_empty() {
        println!("replay: property holds on this case");
        0
    } else {
        1
    }
}

fn replay_claim_set(prop: &'static str, cs: &serde_json::Value) -> i32 {
    let Some(p) = Proto::ALL.iter().copied().find(|p| Some(p.name()) == cs["proto"].as_str()) else { crate::report::machinery_error("claim_set replay: unknown protocol") };
    let Some(l) = Layer::ALL.iter().copied().find(|l| Some(l.name()) == cs["layer"].as_str()) else { crate::report::machinery_error("claim_set replay: unknown layer") };
    let si = cs["set"].as_u64().unwrap_or(0) as usize;
    let sets = claim_sets();
    let Some(set) = sets.get(si) else { crate::report::machinery_error("claim_set replay: no such set") };
    let al = full_alphabet(p, true);
    let seed = if p.is_local() { Some(al.seeds[2].as_slice()) } else { None };
    let tok = crate::adapter::issue(p, l, &al.keys[0].sk, seed, "m", set, Some("f"), None);
    println!("claim set #{}: {}", si, describe_set(set));
    let Out::Ok(tok) = tok else {
        println!("VIOLATION property={} replay=(this file)\n  what: build failed / panicked: {:?}", prop, tok);
        return 1;
    };
    let (o, _) = crate::adapter::present(p, l, &al.keys[0].pk, &tok, Some("f"), None);
    if let Out::Ok(crate::adapter::Opened::Json(v, _)) = &o {
        let same = v.get("data") == Some(&serde_json::Value::String("m".into())) && set.iter().all(|c| v.get(&c.key) == Some(&c.expected_json()));
        let count_ok = l != Layer::Generic || v.as_object().map_or(0, |m| m.len()) == set.len() + 1;
        if same && count_ok {
            println!("replay: property holds on this case");
            return 0;
        }
        println!("VIOLATION property={} replay=(this file)\n  what: parser returned {}", prop, v);
        return 1;
    }
    println!("VIOLATION property={} replay=(this file)\n  what: {:?}", prop, o);
    1
}
