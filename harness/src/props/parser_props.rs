//! C15 (expected-claim checks) and C16 (custom validators): stateright closure over the parser
//! configuration model (engine B, models/parser.rs), every transition replayed on the real parser against
//! a pool of authentic and unauthentic tokens; C15 additionally enumerates the full (token claim set S,
//! expected set E) product with engine A.

use crate::adapter::{self, ClaimSpec, ErrClass, Form, Layer, Out, PEvent, POp, Proto};
use crate::domains;
use crate::explore::{explore, par_units};
use crate::models::parser::{build_pool, replay_and_judge, Flavor, Kind, Op, ParserModel, Verdicts, KEYS, PARSES, REPLAYS};
use crate::models::{self};
use crate::report::{Acc, Run};
use serde::{Deserialize, Serialize};
use serde_json::{json, Value};
use std::sync::atomic::Ordering;
use std::sync::Arc;

#[derive(Clone, Debug, Serialize, Deserialize)]
pub struct ParserCase {
    pub proto: Proto,
    pub flavor: Flavor,
    pub nkeys: usize,
    pub path: Vec<Op>,
}

fn describe(path: &[Op]) -> String {
    if path.is_empty() {
        return "(no configuration)".into();
    }
    path.iter()
        .map(|o| match o {
            Op::Check(k, v) => format!("check_claim({}=v{})", KEYS[*k], v),
            Op::Validate(k, kind) => format!("validate_claim({}, {:?})", KEYS[*k], kind),
            Op::ExtendValidate(k, kind) => format!("extend_validation_claims({{{}: {:?}}})", KEYS[*k], kind),
            Op::ExtendCheck(k, v) => format!("extend_check_claims({{{}=v{}}})", KEYS[*k], v),
        })
        .collect::<Vec<_>>()
        .join("; ")
}

fn pick<'a>(prop: &str, v: &'a Verdicts) -> Option<&'a (String, String)> {
    if prop == "C15" {
        v.c15.as_ref()
    } else {
        v.c16.as_ref()
    }
}

/// the configuration shape that matters for a finding's identity: which registration routes were used
fn route_signature(path: &[Op]) -> String {
    let mut routes: Vec<&str> = path
        .iter()
        .map(|o| match o {
            Op::Check(..) => "check_claim",
            Op::Validate(..) => "validate_claim",
            Op::ExtendValidate(..) => "extend_validation_claims",
            Op::ExtendCheck(..) => "extend_check_claims",
        })
        .collect();
    routes.dedup();
    if routes.is_empty() {
        "no-config".into()
    } else {
        routes.join(">")
    }
}

fn record(prop: &str, proto: Proto, flavor: Flavor, nkeys: usize, path: &[Op], v: &Verdicts, acc: &mut Acc) {
    if let Some(b) = &v.broken {
        crate::report::machinery_error(&format!("the real parser could not be driven on [{}]: {}", describe(path), b));
    }
    if let Some((kind, why)) = pick(prop, v) {
        acc.violate(
            format!("{}|{}|{:?}|{}|{}", prop, proto.name(), flavor, kind, route_signature(path)),
            format!("parser configured by [{}]: {}", describe(path), why),
            json!({"parser_case": ParserCase { proto, flavor, nkeys, path: path.to_vec() }}),
        );
    }
}

// ------------------------------------------------------------------------------------------------ C15 product

const PKEYS: [&str; 4] = ["iss", "sub", "a", "b"];
fn token_side(k: usize) -> Vec<Option<Value>> {
    match PKEYS[k] {
        "iss" | "sub" => vec![None, Some(json!("Alice")), Some(json!("Bob")), Some(Value::Null)],
        "a" => vec![None, Some(json!("v")), Some(json!(4)), Some(Value::Null)],
        _ => vec![None, Some(json!(true)), Some(json!([1])), Some(Value::Null)],
    }
}
fn expect_side(k: usize) -> Vec<Option<Value>> {
    match PKEYS[k] {
        // same value, the other value, changed case, one trailing blank
        "iss" | "sub" => vec![None, Some(json!("Alice")), Some(json!("Bob")), Some(json!("alice")), Some(json!("Alice "))],
        // same, other, the same digits in another JSON type, changed case
        // ... and an expectation whose value serialises to null: no payload can satisfy it
        "a" => vec![None, Some(json!("v")), Some(json!(4)), Some(json!("4")), Some(json!("V")), Some(Value::Null)],
        _ => vec![None, Some(json!(true)), Some(json!([1])), Some(json!("true")), Some(json!([1, 2])), Some(Value::Null)],
    }
}

fn product_unit(prop: &str, proto: Proto, flavor: Flavor, e0: usize, quick: bool, acc: &mut Acc) {
    adapter::freeze_default_clock();
    let pool = domains::key_pool(proto);
    let key = &pool[0];
    let seed = if proto.is_local() { domains::seeds(proto)[2].clone() } else { vec![] };
    let nk = if quick { 3 } else { 4 };
    // all token claim sets S
    let mut tokens: Vec<String> = Vec::new();
    let mut payloads: Vec<Value> = Vec::new();
    let ts: Vec<Vec<Option<Value>>> = (0..nk).map(token_side).collect();
    let mut idx = vec![0usize; nk];
    loop {
        let mut obj = serde_json::Map::new();
        for k in 0..nk {
            if let Some(v) = &ts[k][idx[k]] {
                obj.insert(PKEYS[k].to_string(), v.clone());
            }
        }
        obj.insert("data".into(), json!("x"));
        let p = Value::Object(obj);
        match adapter::core_issue(proto, &key.sk, &seed, &p.to_string(), None, None) {
            Out::Ok(t) => {
                tokens.push(t);
                payloads.push(p);
            }
            _ => crate::report::machinery_error("cannot issue a product token"),
        }
        let mut i = 0;
        while i < nk {
            idx[i] += 1;
            if idx[i] < ts[i].len() {
                break;
            }
            idx[i] = 0;
            i += 1;
        }
        if i == nk {
            break;
        }
    }
    let es: Vec<Vec<Option<Value>>> = (0..nk).map(expect_side).collect();
    let (layer, default) = match flavor {
        Flavor::Generic => (Layer::Generic, false),
        Flavor::PreludeNew => (Layer::Prelude, false),
        Flavor::PreludeDefault => (Layer::Prelude, true),
    };
    let (_, pts) = explore(None, |c| {
        let mut e_idx = vec![e0];
        for k in 1..nk {
            e_idx.push(c.choose("expectation", es[k].len()));
        }
        let mut ops: Vec<POp> = Vec::new();
        let mut expected: Vec<(usize, Value)> = Vec::new();
        for k in 0..nk {
            if let Some(v) = &es[k][e_idx[k]] {
                let form = if k < 2 { Form::Auto } else { Form::TupleString };
                ops.push(POp::Check(ClaimSpec { key: PKEYS[k].into(), value: v.clone(), form }));
                expected.push((k, v.clone()));
            }
        }
        let nconf = ops.len();
        for i in 0..tokens.len() {
            ops.push(POp::Parse(i, 0));
        }
        let ev = adapter::parse_history(proto, layer, default, &[key.pk.clone()], &tokens, &ops);
        for (i, e) in ev[nconf..].iter().enumerate() {
            let PEvent::Parsed(out, _) = e else { crate::report::machinery_error("no parse event") };
            acc.executions += 1;
            acc.impl_calls += 1;
            let payload = &payloads[i];
            let mut unmet: Vec<(usize, bool)> = Vec::new();
            for (k, want) in &expected {
                let actual = payload.get(PKEYS[*k]).cloned().unwrap_or(Value::Null);
                if actual.is_null() {
                    unmet.push((*k, true));
                } else if actual != *want {
                    unmet.push((*k, false));
                }
            }
            acc.bump(if unmet.is_empty() { "S-satisfies-E" } else { "S-violates-E" });
            let fail = |acc: &mut Acc, kind: &str, why: String| {
                acc.violate(
                    format!("{}|{}|{:?}|product|{}", prop, proto.name(), flavor, kind),
                    format!("token claims {} vs expected {:?}: {}", payload, expected.iter().map(|(k, v)| format!("{}={}", PKEYS[*k], v)).collect::<Vec<_>>(), why),
                    json!({"product_case": {"proto": proto, "flavor": flavor, "payload": payload, "expected": expected.iter().map(|(k, v)| json!([PKEYS[*k], v])).collect::<Vec<_>>()}}),
                );
            };
            match out {
                Out::Ok(j) => {
                    if !unmet.is_empty() {
                        fail(acc, "accepted-despite-unmet-expectation", format!("accepted although {:?} is {}", PKEYS[unmet[0].0], if unmet[0].1 { "missing / null" } else { "different" }));
                    } else if j != payload {
                        fail(acc, "returned-different-payload", format!("returned {}", j));
                    } else {
                        acc.controls_ok += 1;
                    }
                }
                Out::Err(e) => {
                    if unmet.is_empty() {
                        fail(acc, "rejected-although-all-met", format!("rejected with {:?}", e));
                    } else if !e.is_claim() {
                        fail(acc, "non-claim-error", format!("rejected with {:?}, not a claim error", e));
                    } else if unmet.len() == 1 && unmet[0].1 && !matches!(e, ErrClass::Claim(kind, arg) if kind == "Missing" && arg == PKEYS[unmet[0].0]) {
                        fail(acc, "missing-claim-not-reported-as-missing", format!("claim {:?} is missing / null but the error is {:?}", PKEYS[unmet[0].0], e));
                    }
                }
                Out::Panic(l) => fail(acc, "panic", format!("panicked at {}", l)),
            }
        }
        if acc.samples.is_empty() && expected.len() == 2 {
            acc.sample(json!({"engine": "A", "expected": expected.iter().map(|(k, v)| format!("{}={}", PKEYS[*k], v)).collect::<Vec<_>>(), "token_claim_sets_parsed_with_this_one_parser": tokens.len()}));
        }
    });
    acc.choice_points += pts;
}

/// one-character neighbours of keys: an expectation on `A` / `isss` is not satisfied by `a` / `iss`
fn key_neighbours(prop: &str, proto: Proto, acc: &mut Acc) {
    let pool = domains::key_pool(proto);
    let key = &pool[0];
    let seed = if proto.is_local() { domains::seeds(proto)[2].clone() } else { vec![] };
    let payload = json!({"a": "v", "iss": "Alice", "isss": "Mallory", "ab": "w"});
    let Out::Ok(t) = adapter::core_issue(proto, &key.sk, &seed, &payload.to_string(), None, None) else { return };
    // an expectation is not met by a token value that merely *contains* the expected value
    let containers = json!({"aud": ["api", "web"], "a": ["v"], "b": {"v": 1}, "c": "v,w", "d": [["v"]], "e": {"e": "v"}});
    if let Out::Ok(tc) = adapter::core_issue(proto, &key.sk, &seed, &containers.to_string(), None, None) {
        for (ek, ev) in [("aud", "api"), ("aud", "web"), ("a", "v"), ("b", "v"), ("c", "v"), ("d", "v"), ("e", "v")] {
            let form = if ek == "aud" { Form::Auto } else { Form::TupleString };
            let ops = vec![POp::Check(ClaimSpec { key: ek.into(), value: json!(ev), form }), POp::Parse(0, 0)];
            for (layer, default) in [(Layer::Generic, false), (Layer::Prelude, true)] {
                let ev2 = adapter::parse_history(proto, layer, default, &[key.pk.clone()], &[tc.clone()], &ops);
                acc.executions += 1;
                if let Some(PEvent::Parsed(out, _)) = ev2.last() {
                    if out.is_ok() {
                        acc.violate(format!("{}|{}|{:?}|containment-accepted", prop, proto.name(), layer), format!("expectation {}={:?} accepted for the payload {} (the value only contains it)", ek, ev, containers), json!({"product_case": {"proto": proto, "flavor": Flavor::Generic, "payload": containers, "expected": [[ek, ev]]}}));
                    }
                }
            }
        }
    }
    // an expectation whose value has no JSON form (an integer beyond 64 bits) can never be met: never Ok
    if let Out::Ok(t7) = adapter::core_issue(proto, &key.sk, &seed, "{\"acct\":7,\"data\":\"x\"}", None, None) {
        for (layer, default) in [(Layer::Generic, false), (Layer::Prelude, true)] {
            let ops = vec![POp::Check(ClaimSpec { key: "acct".into(), value: Value::Null, form: Form::Native(11) }), POp::Parse(0, 0)];
            let ev2 = adapter::parse_history(proto, layer, default, &[key.pk.clone()], &[t7.clone()], &ops);
            acc.executions += 1;
            if let Some(PEvent::Parsed(out, _)) = ev2.last() {
                if out.is_ok() {
                    acc.violate(format!("{}|{}|{:?}|unserialisable-expectation-accepted", prop, proto.name(), layer), "expectation acct = u128::MAX (no JSON form) accepted for a token carrying acct = 7".into(), json!({"product_case": {"proto": proto, "flavor": Flavor::Generic, "payload": {"acct": 7}, "expected": [["acct", "u128::MAX"]]}}));
                }
            }
        }
    }
    // keys that look like paths / JSON pointers are plain member names: a token that lacks the member but has
    // a nested structure where the "path" resolves does not carry the claim
    let nested = json!({"example.com": {"role": "auditor"}, "a": {"b": "deep"}, "x~y": {"z": 1}, "list": ["zero", "one"], "data": "x"});
    if let Out::Ok(tn) = adapter::core_issue(proto, &key.sk, &seed, &nested.to_string(), None, None) {
        adapter::reset_verdicts();
        adapter::set_verdict(0, adapter::Verdict::Accept);
        for k in ["example.com/role", "/example.com/role", "a/b", "a.b", "x~1y/z", "x~0y", "list/1", "list.1", "list[1]", "$.a.b"] {
            // expectation on the path-like key: the member is missing
            let ops = vec![POp::Check(ClaimSpec { key: k.into(), value: json!("auditor"), form: Form::TupleString }), POp::Parse(0, 0)];
            let ev2 = adapter::parse_history(proto, Layer::Generic, false, &[key.pk.clone()], &[tn.clone()], &ops);
            acc.executions += 1;
            if let Some(PEvent::Parsed(out, _)) = ev2.last() {
                if out.is_ok() {
                    acc.violate(format!("{}|{}|Generic|path-like-key-resolved", prop, proto.name()), format!("expectation on the key {:?} accepted for the payload {} (no such member)", k, nested), json!({"product_case": {"proto": proto, "flavor": Flavor::Generic, "payload": nested, "expected": [[k, "auditor"]]}}));
                }
            }
            // validator on the path-like key: must be handed null
            let ops = vec![POp::Validate(k.into(), 0), POp::Parse(0, 0)];
            let ev3 = adapter::parse_history(proto, Layer::Generic, false, &[key.pk.clone()], &[tn.clone()], &ops);
            if let Some(PEvent::Parsed(_, calls)) = ev3.last() {
                for c in calls {
                    if c.key == k && !c.value.is_null() {
                        acc.violate(format!("{}|{}|Generic|path-like-key-validator-value", prop, proto.name()), format!("the validator for the key {:?} was handed {} although the payload {} has no such member", k, c.value, nested), json!({"product_case": {"proto": proto, "flavor": Flavor::Generic, "payload": nested, "expected": [[k, "<validator>"]]}}));
                    }
                }
            }
        }
        adapter::reset_verdicts();
    }
    for (ek, ev, should) in [("a", "v", true), ("A", "v", false), ("a ", "v", false), ("ab", "v", false), ("ab", "w", true), ("isss", "Alice", false), ("isss", "Mallory", true), ("is", "Alice", false)] {
        let ops = vec![POp::Check(ClaimSpec { key: ek.into(), value: json!(ev), form: Form::TupleString }), POp::Parse(0, 0)];
        let ev2 = adapter::parse_history(proto, Layer::Generic, false, &[key.pk.clone()], &[t.clone()], &ops);
        acc.executions += 1;
        if let Some(PEvent::Parsed(out, _)) = ev2.last() {
            if out.is_ok() != should {
                acc.violate(format!("{}|{}|Generic|key-neighbour", prop, proto.name()), format!("expectation {}={:?} against payload {}: {}", ek, ev, payload, out.short()), json!({"product_case": {"proto": proto, "flavor": Flavor::Generic, "payload": payload, "expected": [[ek, ev]]}}));
            } else {
                acc.controls_ok += 1;
            }
        }
    }
}

/// the same number spelled differently in the token's JSON text (tokens made by another implementation):
/// JSON-equal floats must satisfy the expectation, a different number or the digits as a string must not
fn number_spellings(prop: &str, proto: Proto, acc: &mut Acc) {
    let pool = domains::key_pool(proto);
    let key = &pool[0];
    let seed = if proto.is_local() { domains::seeds(proto)[2].clone() } else { vec![] };
    let cases: [(&str, Value, bool); 10] = [
        ("1.5", json!(1.5), true),
        ("1.50", json!(1.5), true),
        ("15e-1", json!(1.5), true),
        ("0.15E1", json!(1.5), true),
        ("1.5e0", json!(1.5), true),
        ("1.51", json!(1.5), false),
        ("\"1.5\"", json!(1.5), false),
        ("100", json!(100), true),
        ("-0.25", json!(-0.25), true),
        ("-25e-2", json!(-0.25), true),
    ];
    for (text, expected, should) in cases {
        let payload = format!("{{\"n\":{},\"data\":\"x\"}}", text);
        let Out::Ok(t) = adapter::core_issue(proto, &key.sk, &seed, &payload, None, None) else { continue };
        for (layer, default) in [(Layer::Generic, false), (Layer::Prelude, false), (Layer::Prelude, true)] {
            let ops = vec![POp::Check(ClaimSpec { key: "n".into(), value: expected.clone(), form: Form::TupleString }), POp::Parse(0, 0)];
            let ev = adapter::parse_history(proto, layer, default, &[key.pk.clone()], &[t.clone()], &ops);
            acc.executions += 1;
            if let Some(PEvent::Parsed(out, _)) = ev.last() {
                if out.is_ok() != should {
                    acc.violate(
                        format!("{}|{}|{:?}|number-spelling|{}", prop, proto.name(), layer, if should { "json-equal-number-rejected" } else { "different-value-accepted" }),
                        format!("expected n={} against the payload text {}: {}", expected, payload, out.short()),
                        json!({"spelling_case": {"proto": proto, "payload": payload, "expected": expected, "should_accept": should}}),
                    );
                } else if should {
                    acc.controls_ok += 1;
                }
            }
        }
    }
}

/// Expectations, validators and the default rules must survive a later set_footer / set_implicit_assertion
/// (and must work when registered after it): tokens carry the footer (and assertion) the parser is given.
fn config_around_footer(prop: &str, proto: Proto, acc: &mut Acc) {
    let pool = domains::key_pool(proto);
    let key = &pool[0];
    let seed = if proto.is_local() { domains::seeds(proto)[2].clone() } else { vec![] };
    let (f, a) = ("cfg-footer", "cfg-assertion");
    let a_opt = if proto.has_assertion() { Some(a) } else { None };
    let issue = |payload: &str| adapter::core_issue(proto, &key.sk, &seed, payload, Some(f), a_opt).ok().cloned();
    let (Some(t_ok), Some(t_other), Some(t_missing), Some(t_expired)) = (issue("{\"a\":\"v1\"}"), issue("{\"a\":\"v2\"}"), issue("{\"data\":1}"), issue("{\"a\":\"v1\",\"exp\":\"1999-01-01T00:00:00Z\"}")) else { return };
    let tokens = vec![t_ok, t_other, t_missing, t_expired];
    adapter::reset_verdicts();
    adapter::set_verdict(1, adapter::Verdict::Reject);
    adapter::set_verdict(0, adapter::Verdict::Accept);
    let footer_ops = |v: &mut Vec<POp>| {
        v.push(POp::Footer(f.into()));
        if proto.has_assertion() {
            v.push(POp::Assertion(a.into()));
        }
    };
    // (registration, token index -> expected Ok?)
    let regs: Vec<(&str, Vec<POp>, [Option<bool>; 4], bool)> = vec![
        ("check_claim(a=v1)", vec![POp::Check(ClaimSpec { key: "a".into(), value: json!("v1"), form: Form::TupleString })], [Some(true), Some(false), Some(false), None], false),
        ("validate_claim(a, rejecting)", vec![POp::Validate("a".into(), 1)], [Some(false), Some(false), Some(false), None], false),
        ("validate_claim(a, accepting)", vec![POp::Validate("a".into(), 0)], [Some(true), Some(true), Some(true), None], false),
        ("PasetoParser::default() rules", vec![], [Some(true), Some(true), Some(true), Some(false)], true),
    ];
    for (what, reg, want, default_only) in regs {
        for (layer, default) in [(Layer::Generic, false), (Layer::Prelude, false), (Layer::Prelude, true)] {
            if default_only && !default {
                continue;
            }
            for order in ["registration then set_footer", "set_footer then registration"] {
                let mut ops: Vec<POp> = Vec::new();
                if order.starts_with("registration") {
                    ops.extend(reg.iter().cloned());
                    footer_ops(&mut ops);
                } else {
                    footer_ops(&mut ops);
                    ops.extend(reg.iter().cloned());
                }
                for ti in 0..tokens.len() {
                    ops.push(POp::Parse(ti, 0));
                }
                let ev = adapter::parse_history(proto, layer, default, &[key.pk.clone()], &tokens, &ops);
                let outs: Vec<bool> = ev.iter().filter_map(|e| if let PEvent::Parsed(o, _) = e { Some(o.is_ok()) } else { None }).collect();
                for (ti, w) in want.iter().enumerate() {
                    // the expired token is only judged under the default parser (otherwise nothing looks at exp)
                    let w = if ti == 3 && default && what != "PasetoParser::default() rules" { Some(false) } else { *w };
                    let Some(w) = w else { continue };
                    acc.executions += 1;
                    if outs.get(ti) == Some(&w) {
                        if w {
                            acc.controls_ok += 1;
                        }
                    } else {
                        acc.violate(
                            format!("{}|{}|{:?}{}|config-around-footer|{}", prop, proto.name(), layer, if default { "(default)" } else { "" }, if w { "rejected" } else { "accepted" }),
                            format!("{} with {} ({}): token #{} -> accepted = {:?}, expected {}", what, order, if proto.has_assertion() { "footer and assertion" } else { "footer" }, ti, outs.get(ti), w),
                            json!({"config_around_footer": {"proto": proto}}),
                        );
                    }
                }
            }
        }
    }
    adapter::reset_verdicts();
}

/// C16: whichever error a validator returns, and whether the claim is present, absent or null, the parse fails
/// (and the validator was handed the payload's value); C15: an expectation under the empty key and under keys
/// made of white space counts like any other
fn error_variants_and_odd_keys(prop: &str, proto: Proto, acc: &mut Acc) {
    let pool = domains::key_pool(proto);
    let key = &pool[0];
    let seed = if proto.is_local() { domains::seeds(proto)[2].clone() } else { vec![] };
    let issue = |payload: &str| adapter::core_issue(proto, &key.sk, &seed, payload, None, None).ok().cloned();
    if prop == "C16" {
        let (Some(present), Some(absent), Some(null)) = (issue("{\"role\":\"admin\",\"data\":1}"), issue("{\"data\":1}"), issue("{\"role\":null,\"data\":1}")) else { return };
        let tokens = vec![present, absent, null];
        let handed = [json!("admin"), Value::Null, Value::Null];
        for variant in 0..9u8 {
            for (layer, default) in [(Layer::Generic, false), (Layer::Prelude, false), (Layer::Prelude, true)] {
                for route in ["validate_claim", "extend_validation_claims"] {
                    if route == "extend_validation_claims" && layer != Layer::Generic {
                        continue;
                    }
                    adapter::reset_verdicts();
                    adapter::set_verdict(2, adapter::Verdict::RejectWith(variant));
                    let mut ops: Vec<POp> = if route == "validate_claim" { vec![POp::Validate("role".into(), 2)] } else { vec![POp::ExtendValidate(vec![("role".into(), 2)])] };
                    ops.extend((0..tokens.len()).map(|ti| POp::Parse(ti, 0)));
                    let _ = adapter::take_calls();
                    let ev = adapter::parse_history(proto, layer, default, &[key.pk.clone()], &tokens, &ops);
                    adapter::reset_verdicts();
                    let parsed: Vec<&PEvent> = ev.iter().filter(|e| matches!(e, PEvent::Parsed(..))).collect();
                    for (ti, e) in parsed.iter().enumerate() {
                        let PEvent::Parsed(o, calls) = e else { continue };
                        acc.executions += 1;
                        let mine: Vec<&adapter::ValidatorCall> = calls.iter().filter(|c| c.slot == 2).collect();
                        let problem = if o.is_ok() {
                            Some("the validator returned an error, yet the parse succeeded".to_string())
                        } else if mine.len() != 1 || mine[0].key != "role" || mine[0].value != handed[ti] {
                            Some(format!("the validator calls were {:?}, expected exactly one with (\"role\", {})", mine.iter().map(|c| (&c.key, &c.value)).collect::<Vec<_>>(), handed[ti]))
                        } else {
                            None
                        };
                        match problem {
                            None => acc.bump("error-variant:parse-failed"),
                            Some(w) => acc.violate(
                                format!("C16|{}|{:?}{}|validator-error-variant-{}|{}", proto.name(), layer, if default { "(default)" } else { "" }, variant, ["present", "absent", "null"][ti]),
                                format!("{} with a validator for \"role\" that returns error variant #{} of PasetoClaimError; token with the claim {}: {}", route, variant, ["present", "absent", "null"][ti], w),
                                json!({"config_around_footer": {"proto": proto}, "variant": variant}),
                            ),
                        }
                    }
                }
            }
        }
    } else {
        for k in ["", " ", "\t", "\u{a0}"] {
            let member = serde_json::to_string(k).unwrap();
            let (Some(t_ok), Some(t_other), Some(t_missing)) = (issue(&format!("{{{}:\"admin\",\"data\":1}}", member)), issue(&format!("{{{}:\"guest\",\"data\":1}}", member)), issue("{\"data\":1}")) else { continue };
            let tokens = vec![t_ok, t_other, t_missing];
            let want = [true, false, false];
            for layer in [Layer::Generic, Layer::Prelude] {
                for route in ["check_claim", "extend_check_claims"] {
                    if route == "extend_check_claims" && layer != Layer::Generic {
                        continue;
                    }
                    let spec = ClaimSpec { key: k.to_string(), value: json!("admin"), form: Form::TupleString };
                    let mut ops: Vec<POp> = if route == "check_claim" { vec![POp::Check(spec)] } else { vec![POp::ExtendCheck(vec![spec])] };
                    ops.extend((0..tokens.len()).map(|ti| POp::Parse(ti, 0)));
                    let ev = adapter::parse_history(proto, layer, false, &[key.pk.clone()], &tokens, &ops);
                    // the constructor may refuse such a key (then nothing was registered: not this property's business)
                    if ev.iter().any(|e| matches!(e, PEvent::Ctor(_))) {
                        acc.bump("odd-key:constructor-refused");
                        continue;
                    }
                    let outs: Vec<bool> = ev.iter().filter_map(|e| if let PEvent::Parsed(o, _) = e { Some(o.is_ok()) } else { None }).collect();
                    acc.executions += 3;
                    if outs == want {
                        acc.controls_ok += 1;
                        acc.bump("odd-key:conforms");
                    } else {
                        acc.violate(
                            format!("C15|{}|{:?}|odd-key-expectation|{}", proto.name(), layer, route),
                            format!("{}(({:?}, \"admin\")); tokens carrying {:?}: \"admin\" / \"guest\" / no such member -> accepted = {:?}, expected {:?}", route, k, k, outs, want),
                            json!({"config_around_footer": {"proto": proto}, "odd_key": k}),
                        );
                    }
                }
            }
        }
    }
}

/// authentic tokens of another implementation whose message is not UTF-8: no validator may be handed (and no
/// parse may return) a text that was never signed
fn foreign_non_utf8(prop: &str, proto: Proto, acc: &mut Acc) {
    let key = domains::key_pool(proto)[0].clone();
    for t in crate::cases::foreign_tokens().iter().filter(|t| t["proto"] == proto.name()) {
        let token = t["token"].as_str().unwrap_or("").to_string();
        let footer = t["footer"].as_str().map(|f| f.to_string());
        let utf8 = t["valid_utf8"] == json!(true);
        for (layer, default) in [(Layer::Generic, false), (Layer::Prelude, false)] {
            adapter::reset_verdicts();
            let mut ops: Vec<POp> = vec![POp::Validate("role".into(), 0)];
            if let Some(f) = &footer {
                ops.push(POp::Footer(f.clone()));
            }
            ops.push(POp::Parse(0, 0));
            let _ = adapter::take_calls();
            let ev = adapter::parse_history(proto, layer, default, &[key.pk.clone()], &[token.clone()], &ops);
            let Some(PEvent::Parsed(o, calls)) = ev.last() else { continue };
            acc.executions += 1;
            let problem = if utf8 {
                if o.is_ok() && calls.iter().any(|c| c.key == "role" && c.value == json!("admin")) { None } else { Some(format!("the UTF-8 control token of the reference was not parsed as expected: {} with validator calls {:?}", o.short(), calls.iter().map(|c| (&c.key, &c.value)).collect::<Vec<_>>())) }
            } else if o.is_ok() {
                Some(format!("a token whose signed / encrypted message ({} ...) is not UTF-8 was parsed successfully: the claims returned were never in the payload", &t["msg_hex"].as_str().unwrap_or("")[..24.min(t["msg_hex"].as_str().unwrap_or("").len())]))
            } else if !calls.is_empty() {
                Some(format!("a validator was handed {:?} although the message is not UTF-8 (that text was never in the payload)", calls.iter().map(|c| (&c.key, &c.value)).collect::<Vec<_>>()))
            } else {
                None
            };
            match problem {
                None => acc.bump(if utf8 { "foreign-token:control-parsed" } else { "foreign-token:non-utf8-refused" }),
                Some(w) => acc.violate(format!("{}|{}|{:?}|foreign-non-utf8-message", prop, proto.name(), layer), w, json!({"config_around_footer": {"proto": proto}, "foreign": t})),
            }
        }
    }
    adapter::reset_verdicts();
}

/// C15: structured expectations that differ from the token's value by little (a null member more or less, an
/// empty container, member order is NOT a difference); C16: validators under names the specification also uses in
/// footers (kid, wpk) or as registered claims, with a JSON-object footer carrying members of those names - the
/// validator is handed the PAYLOAD's value
fn structured_and_footer_members(prop: &str, proto: Proto, acc: &mut Acc) {
    let key = domains::key_pool(proto)[0].clone();
    let seed = if proto.is_local() { domains::seeds(proto)[2].clone() } else { vec![] };
    if prop == "C15" {
        // (token value, expected value, JSON-equal?)
        let pairs: Vec<(Value, Value, bool)> = vec![
            (json!({"t": "acme"}), json!({"t": "acme", "r": null}), false),
            (json!({"t": "acme", "r": null}), json!({"t": "acme"}), false),
            (json!({"t": "acme", "r": null}), json!({"r": null, "t": "acme"}), true),
            (json!({"a": {"b": {"c": 1}}}), json!({"a": {"b": {"c": 1, "d": null}}}), false),
            (json!([{"x": 1}]), json!([{"x": 1, "y": null}]), false),
            (json!({}), json!({"": null}), false),
            (json!({"l": []}), json!({"l": [null]}), false),
            (json!({"l": [1, 2]}), json!({"l": [2, 1]}), false),
            (json!({"n": [1, {"m": "x"}]}), json!({"n": [1, {"m": "x"}]}), true),
            (json!({"s": ""}), json!({"s": null}), false),
            (json!({"o": {}}), json!({"o": null}), false),
        ];
        for (tv, ev, equal) in pairs {
            let payload = json!({"meta": tv, "data": 1}).to_string();
            let Some(tok) = adapter::core_issue(proto, &key.sk, &seed, &payload, None, None).ok().cloned() else { continue };
            for layer in [Layer::Generic, Layer::Prelude] {
                let ops = vec![POp::Check(ClaimSpec { key: "meta".into(), value: ev.clone(), form: Form::TupleString }), POp::Parse(0, 0)];
                let out = adapter::parse_history(proto, layer, false, &[key.pk.clone()], &[tok.clone()], &ops);
                acc.executions += 1;
                let got = matches!(out.last(), Some(PEvent::Parsed(o, _)) if o.is_ok());
                if got == equal {
                    acc.bump("structured-expectation:conforms");
                    if equal {
                        acc.controls_ok += 1;
                    }
                } else {
                    acc.violate(
                        format!("C15|{}|{:?}|structured-expectation|{}", proto.name(), layer, if equal { "rejected-equal" } else { "accepted-different" }),
                        format!("check_claim((\"meta\", {})) on a token carrying \"meta\": {} -> {}, the two values are {}JSON-equal", ev, tv, if got { "accepted" } else { "rejected" }, if equal { "" } else { "not " }),
                        json!({"config_around_footer": {"proto": proto}, "structured": [tv, ev]}),
                    );
                }
            }
        }
    } else {
        let footer = "{\"kid\":\"k4.lid.FOOTER\",\"wpk\":\"k4.local-wrap.pie.FOOTER\",\"exp\":\"2999-01-01T00:00:00Z\",\"sub\":\"footer-subject\",\"role\":\"footer-role\"}";
        for (payload, handed) in [
            ("{\"data\":1}".to_string(), [Value::Null, Value::Null, Value::Null, Value::Null]),
            ("{\"kid\":\"payload-kid\",\"wpk\":7,\"sub\":\"payload-subject\",\"role\":[\"payload\"]}".to_string(), [json!("payload-kid"), json!(7), json!("payload-subject"), json!(["payload"])]),
        ] {
            let Some(tok) = adapter::core_issue(proto, &key.sk, &seed, &payload, Some(footer), None).ok().cloned() else { continue };
            for layer in [Layer::Generic, Layer::Prelude] {
                for route in ["validate_claim", "extend_validation_claims"] {
                    if route == "extend_validation_claims" && layer != Layer::Generic {
                        continue;
                    }
                    adapter::reset_verdicts();
                    let names = ["kid", "wpk", "sub", "role"];
                    let mut ops: Vec<POp> = if route == "validate_claim" { names.iter().map(|k| POp::Validate(k.to_string(), 0)).collect() } else { vec![POp::ExtendValidate(names.iter().map(|k| (k.to_string(), 0)).collect())] };
                    for order in ["footer last", "footer first"] {
                        let mut o2 = ops.clone();
                        if order == "footer last" {
                            o2.push(POp::Footer(footer.into()));
                        } else {
                            o2.insert(0, POp::Footer(footer.into()));
                        }
                        o2.push(POp::Parse(0, 0));
                        let _ = adapter::take_calls();
                        let ev = adapter::parse_history(proto, layer, false, &[key.pk.clone()], &[tok.clone()], &o2);
                        let Some(PEvent::Parsed(o, calls)) = ev.last() else { continue };
                        acc.executions += 1;
                        let mut problem = if o.is_ok() { None } else { Some(format!("the parse failed: {}", o.short())) };
                        for (i, k) in names.iter().enumerate() {
                            let mine: Vec<&adapter::ValidatorCall> = calls.iter().filter(|c| c.key == *k).collect();
                            if mine.len() != 1 || mine[0].value != handed[i] {
                                problem = Some(format!("the validator for {:?} was handed {:?}, the payload's value is {}", k, mine.iter().map(|c| &c.value).collect::<Vec<_>>(), handed[i]));
                                break;
                            }
                        }
                        match problem {
                            None => acc.bump("footer-members:validators-see-payload"),
                            Some(w) => acc.violate(
                                format!("C16|{}|{:?}|footer-member-names|{}", proto.name(), layer, route),
                                format!("{} for kid / wpk / sub / role, parser footer {} ({}), payload {}: {}", route, footer, order, payload, w),
                                json!({"config_around_footer": {"proto": proto}, "footer_members": payload}),
                            ),
                        }
                    }
                    ops.clear();
                }
            }
        }
        adapter::reset_verdicts();
    }
}

/// N expectations / N validators on one parser, N on both sides of powers of two: every one of them counts
fn many_registrations(prop: &str, proto: Proto, quick: bool, acc: &mut Acc) {
    let pool = domains::key_pool(proto);
    let key = &pool[0];
    let seed = if proto.is_local() { domains::seeds(proto)[2].clone() } else { vec![] };
    let counts: Vec<usize> = if quick { vec![1, 2, 127, 128, 129, 255, 256, 257, 1_025] } else { (1..=300).chain([511, 512, 513, 1_023, 1_024, 1_025, 4_097, 65_537]).collect() };
    for n in counts {
        let member = |i: usize, v: Value| format!("{}:{}", serde_json::to_string(&format!("k{}", i)).unwrap(), v);
        let payload = |bad: Option<(usize, Option<Value>)>| -> String {
            let parts: Vec<String> = (0..n)
                .filter_map(|i| match &bad {
                    Some((j, None)) if *j == i => None,
                    Some((j, Some(v))) if *j == i => Some(member(i, v.clone())),
                    _ => Some(member(i, json!(i))),
                })
                .collect();
            format!("{{{}}}", parts.join(","))
        };
        let spots: Vec<usize> = { let mut v = vec![0, n / 2, n - 1]; v.dedup(); v };
        let mut tokens: Vec<String> = Vec::new();
        let mut want_ok: Vec<bool> = Vec::new();
        let mut push = |pl: String, ok: bool, tokens: &mut Vec<String>, want_ok: &mut Vec<bool>| {
            if let Some(t) = adapter::core_issue(proto, &key.sk, &seed, &pl, None, None).ok() {
                tokens.push(t.clone());
                want_ok.push(ok);
            }
        };
        push(payload(None), true, &mut tokens, &mut want_ok);
        for j in &spots {
            push(payload(Some((*j, Some(json!("other"))))), false, &mut tokens, &mut want_ok);
            push(payload(Some((*j, None))), false, &mut tokens, &mut want_ok);
        }
        let parses: Vec<POp> = (0..tokens.len()).map(|ti| POp::Parse(ti, 0)).collect();
        for layer in [Layer::Generic, Layer::Prelude] {
            if prop == "C15" {
                let mut ops: Vec<POp> = (0..n).map(|i| POp::Check(ClaimSpec { key: format!("k{}", i), value: json!(i), form: Form::TupleString })).collect();
                ops.extend(parses.iter().cloned());
                let ev = adapter::parse_history(proto, layer, false, &[key.pk.clone()], &tokens, &ops);
                let outs: Vec<bool> = ev.iter().filter_map(|e| if let PEvent::Parsed(o, _) = e { Some(o.is_ok()) } else { None }).collect();
                acc.executions += tokens.len() as u64;
                if outs == want_ok {
                    acc.controls_ok += 1;
                    acc.bump("many-expectations:conforms");
                } else {
                    acc.violate(
                        format!("C15|{}|{:?}|many-expectations", proto.name(), layer),
                        format!("{} check_claim expectations k0..k{}; tokens [all satisfied, then k{:?} different / missing in turn]: accepted = {:?}, expected {:?}", n, n - 1, spots, outs, want_ok),
                        json!({"config_around_footer": {"proto": proto}, "many": n}),
                    );
                }
            } else {
                // validators: N keys on an accepting validator (each must run exactly once with its own value on the
                // satisfied token), then key j moved to a rejecting validator
                adapter::reset_verdicts();
                adapter::set_verdict(0, adapter::Verdict::Accept);
                adapter::set_verdict(1, adapter::Verdict::Reject);
                for route in ["validate_claim", "extend_validation_claims"] {
                    if route == "extend_validation_claims" && layer != Layer::Generic {
                        continue;
                    }
                    for rejecting in std::iter::once(None).chain(spots.iter().map(|j| Some(*j))) {
                        let slot_of = |i: usize| if rejecting == Some(i) { 1 } else { 0 };
                        let mut ops: Vec<POp> = if route == "validate_claim" { (0..n).map(|i| POp::Validate(format!("k{}", i), slot_of(i))).collect() } else { vec![POp::ExtendValidate((0..n).map(|i| (format!("k{}", i), slot_of(i))).collect())] };
                        ops.push(POp::Parse(0, 0));
                        let _ = adapter::take_calls();
                        let ev = adapter::parse_history(proto, layer, false, &[key.pk.clone()], &tokens, &ops);
                        acc.executions += 1;
                        let Some(PEvent::Parsed(o, calls)) = ev.last() else { continue };
                        let problem = if rejecting.is_some() {
                            if o.is_ok() { Some("a registered validator rejects, yet the parse succeeded".to_string()) } else { None }
                        } else if !o.is_ok() {
                            Some(format!("all validators accept, yet the parse failed: {}", o.short()))
                        } else {
                            let mut seen = vec![0usize; n];
                            let mut wrong_value = None;
                            for c in calls {
                                if let Some(i) = c.key.strip_prefix('k').and_then(|x| x.parse::<usize>().ok()) {
                                    if i < n {
                                        seen[i] += 1;
                                        if c.value != json!(i) {
                                            wrong_value = Some(format!("validator for k{} was handed {}", i, c.value));
                                        }
                                    }
                                }
                            }
                            let not_once: Vec<usize> = (0..n).filter(|i| seen[*i] != 1).take(5).collect();
                            if let Some(w) = wrong_value { Some(w) } else if !not_once.is_empty() { Some(format!("validators that did not run exactly once: k{:?} (ran {:?} times)", not_once, not_once.iter().map(|i| seen[*i]).collect::<Vec<_>>())) } else { None }
                        };
                        match problem {
                            None => acc.bump("many-validators:conforms"),
                            Some(w) => acc.violate(
                                format!("C16|{}|{:?}|many-validators|{}", proto.name(), layer, route),
                                format!("{} validators registered through {} ({}): {}", n, route, rejecting.map_or("all accepting".to_string(), |j| format!("the one for k{} rejecting", j)), w),
                                json!({"config_around_footer": {"proto": proto}, "many": n}),
                            ),
                        }
                    }
                }
                adapter::reset_verdicts();
            }
        }
    }
}

// ------------------------------------------------------------------------------------------------ run

pub fn run(prop: &'static str, tier: &str) -> i32 {
    let run = Run::new(prop, tier);
    let quick = tier == "quick";
    let mut all = Acc::default();
    let mut model_runs = Vec::new();
    REPLAYS.store(0, Ordering::Relaxed);
    PARSES.store(0, Ordering::Relaxed);

    // ---- engine B closures: (protocol, flavor, keys)
    let mut plan: Vec<(Proto, Flavor, usize)> = Vec::new();
    if quick {
        plan.push((Proto::workhorse(), Flavor::Generic, 2));
        plan.push((Proto::workhorse(), Flavor::PreludeNew, 2));
        plan.push((Proto::workhorse(), Flavor::PreludeDefault, 3));
        for p in [Proto::V1L, Proto::V2L, Proto::V3L, Proto::V2P, Proto::V4P].into_iter().filter(|p| p.enabled() && *p != Proto::workhorse()) {
            plan.push((p, Flavor::Generic, 1));
            plan.push((p, Flavor::PreludeDefault, 1));
        }
        for p in [Proto::V1P, Proto::V3P].into_iter().filter(|p| p.enabled() && *p != Proto::workhorse()) {
            plan.push((p, Flavor::Generic, 1));
        }
    } else {
        for f in [Flavor::Generic, Flavor::PreludeNew, Flavor::PreludeDefault] {
            plan.push((Proto::workhorse(), f, 3));
        }
        for p in Proto::ALL {
            if p != Proto::workhorse() {
                let slow = matches!(p, Proto::V1P | Proto::V3P);
                for f in [Flavor::Generic, Flavor::PreludeNew, Flavor::PreludeDefault] {
                    plan.push((p, f, if slow { 1 } else { 2 }));
                }
            }
        }
    }
    for (p, flavor, nkeys) in plan {
        let t = std::time::Instant::now();
        let (r0, p0) = (REPLAYS.load(Ordering::Relaxed), PARSES.load(Ordering::Relaxed));
        // key order is a, exp, b: 1-key models use `a`, 2-key models `a`,`exp`; the default-parser flavour
        // needs exp to meet the built-in validator, so it gets at least two keys
        let nk = if flavor == Flavor::PreludeDefault { nkeys.max(2) } else { nkeys };
        let pool = Arc::new(build_pool(p, nk));
        let ntokens = pool.tokens.len();
        let model = ParserModel { proto: p, flavor, nkeys: nk, pool };
        let nactions = model.alphabet().len();
        let out = models::bfs(model, None);
        all.states += out.unique_states as u64;
        all.choice_points += out.generated_states as u64;
        for (name, actions, last) in &out.discoveries {
            if (*name == "C15-conforms" && prop == "C15") || (*name == "C16-conforms" && prop == "C16") || *name == "replayable" {
                record(prop, p, flavor, nk, actions, &last.verdict, &mut all);
            }
        }
        model_runs.push(json!({
            "protocol": p.name(), "parser": format!("{:?}", flavor), "keys": nk, "actions": nactions, "pool_tokens": ntokens,
            "unique_states": out.unique_states, "transitions": out.generated_states, "max_depth": out.max_depth,
            "replays_on_real_parser": REPLAYS.load(Ordering::Relaxed) - r0, "parses": PARSES.load(Ordering::Relaxed) - p0,
            "closure_reached": out.discoveries.is_empty(),
            "discoveries": out.discoveries.iter().map(|(n, a, _)| json!({"property": n, "shortest_configuration": describe(a)})).collect::<Vec<_>>(),
            "wall_s": (t.elapsed().as_secs_f64() * 100.0).round() / 100.0,
        }));
        if all.samples.len() < 2 {
            all.sample(json!({"engine": "B", "protocol": p.name(), "parser": format!("{:?}", flavor), "example_transition": "configuration --validate_claim(a, Reject)--> configuration: replayed on the real parser, then every pool token parsed and compared with the model", "pool_tokens": ntokens}));
        }
    }
    // ---- registrations around set_footer / set_implicit_assertion (both properties; all protocols)
    {
        let accs = par_units(&Proto::ALL.to_vec(), |p| {
            let mut acc = Acc::default();
            adapter::freeze_default_clock();
            config_around_footer(prop, *p, &mut acc);
            if *p == Proto::workhorse() || *p == Proto::V2P {
                many_registrations(prop, *p, quick, &mut acc);
            }
            error_variants_and_odd_keys(prop, *p, &mut acc);
            structured_and_footer_members(prop, *p, &mut acc);
            if prop == "C16" {
                foreign_non_utf8(prop, *p, &mut acc);
            }
            acc
        });
        all.merge(Acc::merge_all(accs));
    }
    let model_parses = PARSES.load(Ordering::Relaxed);
    let model_replays = REPLAYS.load(Ordering::Relaxed);

    // ---- engine A: unmerged configuration sequences (depth 3 / 4) on v4.local, all flavours
    {
        let depth = if quick { 2 } else { 3 };
        let mut units: Vec<(Flavor, usize)> = Vec::new();
        for f in [Flavor::Generic, Flavor::PreludeNew, Flavor::PreludeDefault] {
            let m = ParserModel { proto: Proto::workhorse(), flavor: f, nkeys: 3, pool: Arc::new(build_pool(Proto::workhorse(), 3)) };
            for first in 0..m.alphabet().len() {
                units.push((f, first));
            }
        }
        let pool = Arc::new(build_pool(Proto::workhorse(), 3));
        let accs = par_units(&units, |(f, first)| {
            let mut acc = Acc::default();
            let m = ParserModel { proto: Proto::workhorse(), flavor: *f, nkeys: 3, pool: pool.clone() };
            let alphabet = m.alphabet();
            for len in 1..=depth {
                let (_, pts) = explore(None, |c| {
                    let mut path = vec![alphabet[*first].clone()];
                    for _ in 1..len {
                        path.push(alphabet[c.choose("configuration call", alphabet.len())].clone());
                    }
                    let v = replay_and_judge(Proto::workhorse(), *f, 3, &path, &pool);
                    acc.see(&(*f as usize, &path));
                    acc.bump(if pick(prop, &v).is_some() { "sequence:disagrees" } else { "sequence:conforms" });
                    record(prop, Proto::workhorse(), *f, 3, &path, &v, &mut acc);
                });
                acc.choice_points += pts;
            }
            acc
        });
        all.merge(Acc::merge_all(accs));
    }

    // ---- C15 only: the (S, E) product, all parser flavours on v4.local, Generic on the others (quick: v4.local only)
    if prop == "C16" {
        let accs = par_units(&Proto::ALL.to_vec(), |p| {
            let mut acc = Acc::default();
            adapter::freeze_default_clock();
            key_neighbours(prop, *p, &mut acc);
            acc
        });
        all.merge(Acc::merge_all(accs));
    }
    if prop == "C15" {
        let mut units: Vec<(Proto, Flavor, usize)> = Vec::new();
        for f in [Flavor::Generic, Flavor::PreludeNew, Flavor::PreludeDefault] {
            for e0 in 0..5 {
                units.push((Proto::workhorse(), f, e0));
            }
        }
        if !quick {
            for p in [Proto::V1L, Proto::V2L, Proto::V3L, Proto::V2P, Proto::V4P].into_iter().filter(|p| p.enabled() && *p != Proto::workhorse()) {
                for e0 in 0..5 {
                    units.push((p, Flavor::Generic, e0));
                }
            }
        }
        let accs = par_units(&units, |(p, f, e0)| {
            let mut acc = Acc::default();
            product_unit(prop, *p, *f, *e0, quick || *p != Proto::workhorse(), &mut acc);
            acc
        });
        all.merge(Acc::merge_all(accs));
        let accs = par_units(&Proto::ALL.to_vec(), |p| {
            let mut acc = Acc::default();
            key_neighbours(prop, *p, &mut acc);
            number_spellings(prop, *p, &mut acc);
            acc
        });
        all.merge(Acc::merge_all(accs));
    }

    let product_parses = all.executions;
    all.executions = PARSES.load(Ordering::Relaxed) + product_parses;
    all.impl_calls = all.executions;
    all.controls_ok += *all.hist.get("sequence:conforms").unwrap_or(&0);
    let extra = json!({
        "space": "reachable configurations of the parser reference model (per key: expectation none/v1/v2, validator none/accepting/rejecting/value-dependent, built-in default validator; registration routes check_claim, validate_claim, extend_validation_claims, extend_check_claims) x a pool of authentic tokens carrying every {absent, v1, v2} combination (+ null) and unauthentic tokens (bit flipped, wrong key, header, footer, assertion); unmerged configuration sequences; C15: the full (S, E) product",
        "model_runs": model_runs,
        "model_replays": model_replays,
        "model_parses": model_parses,
        "product_parses": product_parses,
        "distinct_rule": "distinct configuration sequences (engine A part); states/transitions are the model's",
        "caps_hit": [],
    });
    run.finish(&all, true, extra, &["validators are slot-indexed non-capturing closures logging to a thread-local; the built-in default validators cannot be logged and are modelled by their documented behaviour", "states are merged on the per-key configuration; verdicts are computed on every transition and cross-checked by the unmerged enumeration"])
}

pub fn replay(prop: &'static str, case: &Value) -> i32 {
    if let Ok(pc) = serde_json::from_value::<ParserCase>(case["parser_case"].clone()) {
        let pool = build_pool(pc.proto, pc.nkeys);
        let v1 = replay_and_judge(pc.proto, pc.flavor, pc.nkeys, &pc.path, &pool);
        let v2 = replay_and_judge(pc.proto, pc.flavor, pc.nkeys, &pc.path, &pool);
        if v1 != v2 {
            crate::report::machinery_error("replay is not deterministic");
        }
        println!("configuration: {}", describe(&pc.path));
        return match pick(prop, &v1) {
            Some((k, w)) => {
                println!("VIOLATION property={} replay=(this file)\n  kind: {}\n  what: {}", prop, k, w);
                1
            }
            None => {
                println!("replay: property holds on this configuration");
                0
            }
        };
    }
    if case.get("config_around_footer").is_some() {
        let Ok(proto) = serde_json::from_value::<Proto>(case["config_around_footer"]["proto"].clone()) else { crate::report::machinery_error("no proto") };
        let mut acc = Acc::default();
        adapter::freeze_default_clock();
        config_around_footer(prop, proto, &mut acc);
        for v in &acc.violations {
            println!("VIOLATION property={} replay=(this file)\n  key:  {}\n  what: {}", prop, v.key, v.what);
        }
        return if acc.violations.is_empty() { 0 } else { 1 };
    }
    if case.get("spelling_case").is_some() {
        let sc = &case["spelling_case"];
        let Ok(proto) = serde_json::from_value::<Proto>(sc["proto"].clone()) else { crate::report::machinery_error("spelling_case lacks proto") };
        let mut acc = Acc::default();
        number_spellings(prop, proto, &mut acc);
        for v in &acc.violations {
            println!("VIOLATION property={} replay=(this file)\n  key:  {}\n  what: {}", prop, v.key, v.what);
        }
        return if acc.violations.is_empty() { 0 } else { 1 };
    }
    let pc = &case["product_case"];
    let (Ok(proto), Ok(flavor)) = (serde_json::from_value::<Proto>(pc["proto"].clone()), serde_json::from_value::<Flavor>(pc["flavor"].clone())) else {
        crate::report::machinery_error("replay file has neither parser_case nor product_case");
    };
    let pool = domains::key_pool(proto);
    let seed = if proto.is_local() { domains::seeds(proto)[2].clone() } else { vec![] };
    let Out::Ok(t) = adapter::core_issue(proto, &pool[0].sk, &seed, &pc["payload"].to_string(), None, None) else { crate::report::machinery_error("cannot issue") };
    let mut ops = Vec::new();
    let mut unmet = false;
    for e in pc["expected"].as_array().cloned().unwrap_or_default() {
        let k = e[0].as_str().unwrap_or("").to_string();
        let form = if adapter::RESERVED.contains(&k.as_str()) { Form::Auto } else { Form::TupleString };
        let actual = pc["payload"].get(&k).cloned().unwrap_or(Value::Null);
        if actual.is_null() || actual != e[1] {
            unmet = true;
        }
        ops.push(POp::Check(ClaimSpec { key: k, value: e[1].clone(), form }));
    }
    ops.push(POp::Parse(0, 0));
    let (layer, default) = match flavor {
        Flavor::Generic => (Layer::Generic, false),
        Flavor::PreludeNew => (Layer::Prelude, false),
        Flavor::PreludeDefault => (Layer::Prelude, true),
    };
    let ev = adapter::parse_history(proto, layer, default, &[pool[0].pk.clone()], &[t], &ops);
    let Some(PEvent::Parsed(out, _)) = ev.last() else { crate::report::machinery_error("no parse event") };
    println!("observed: {}   expectation unmet: {}", out.short(), unmet);
    if out.is_ok() == unmet {
        println!("VIOLATION property={} replay=(this file)", prop);
        1
    } else {
        println!("replay: property holds on this case");
        0
    }
}

#[allow(dead_code)]
fn _kinds() -> [Kind; 3] {
    [Kind::Accept, Kind::Reject, Kind::ValueDep]
}
