//! C09: untrusted token text can never crash the caller. Engine A, oracle: no panic (catch_unwind with
//! a location-recording hook; the harness is built with overflow-checks so that a wrapped subtraction is
//! reported at its source line).

use crate::adapter::{self, Layer, Out, POp, PEvent, Proto};
use crate::b64;
use crate::cases::IssueCase;
use crate::domains;
use crate::explore::{explore, par_units};
use crate::report::{Acc, Run};
use rusty_paseto::core::Key;
use serde_json::json;

fn record(acc: &mut Acc, entry: &str, family: &str, input: &str, footer: &Option<String>, assertion: &Option<String>, p: Proto, layer: Layer, pk: &[u8], out_short: String, panic: Option<String>) {
    acc.executions += 1;
    acc.impl_calls += 1;
    acc.see(&(entry, input, footer, assertion));
    match panic {
        None => acc.bump(&format!("{}:{}", family, if out_short.starts_with("Ok") { "Ok" } else { "Err" })),
        Some(loc) => {
            acc.bump(&format!("{}:panic", family));
            let shown: String = if input.len() > 300 { format!("{}...<{} chars>", &input[..120], input.len()) } else { input.to_string() };
            acc.violate(
                format!("C09|{}|{}", entry, adapter::panic_site(&loc)),
                format!("{} panicked at {} on input {:?} (expected footer {:?})", entry, loc, shown, footer),
                json!({"kind": "present", "proto": p, "layer": layer, "pk_hex": b64::hex(pk), "token": if input.len() > 4096 { json!({"repeat": &input[..1], "len": input.len()}) } else { json!(input) }, "footer": footer, "assertion": assertion, "family": family}),
            );
        }
    }
}

fn present_one(acc: &mut Acc, family: &str, p: Proto, layer: Layer, pk: &[u8], token: &str, footer: &Option<String>, assertion: &Option<String>) {
    let (obs, _) = adapter::present(p, layer, pk, token, footer.as_deref(), assertion.as_deref());
    let entry = format!("{}/{}", p.name(), layer.name());
    let panic = match &obs {
        Out::Panic(l) => Some(l.clone()),
        _ => None,
    };
    record(acc, &entry, family, token, footer, assertion, p, layer, pk, obs.short(), panic);
}

/// default-parser presentation (the default exp/nbf validators run on whatever the payload carries)
fn present_default(acc: &mut Acc, family: &str, p: Proto, pk: &[u8], token: &str, footer: &Option<String>) {
    let mut ops = Vec::new();
    if let Some(f) = footer {
        ops.push(POp::Footer(f.clone()));
    }
    ops.push(POp::Parse(0, 0));
    let ev = adapter::parse_history(p, Layer::Prelude, true, &[pk.to_vec()], &[token.to_string()], &ops);
    let entry = format!("{}/batteries_included(default)", p.name());
    let (short, panic) = match ev.last() {
        Some(PEvent::Parsed(o, _)) => (o.short(), if let Out::Panic(l) = o { Some(l.clone()) } else { None }),
        _ => ("Err(harness)".to_string(), None),
    };
    record(acc, &entry, family, token, footer, &None, p, Layer::Prelude, pk, short, panic);
}

fn try_key<const N: usize>(acc: &mut Acc, s: &str) {
    acc.executions += 1;
    acc.impl_calls += 1;
    acc.see(&(N, s));
    let r = adapter::guard(|| Key::<N>::try_from(s).map(|_| ()));
    match r {
        Ok(Ok(())) => {
            acc.bump("hexkey:Ok");
            // a key of the wrong length must not be reported as success either
            if s.chars().all(|c| c.is_ascii_hexdigit()) && s.len() != 2 * N {
                acc.violate(format!("C09|Key<{}>::try_from|accepted-wrong-length", N), format!("Key::<{}>::try_from accepted a hex string of {} characters", N, s.len()), json!({"kind": "hexkey", "n": N, "input": s}));
            }
        }
        Ok(Err(_)) => acc.bump("hexkey:Err"),
        Err(loc) => {
            acc.bump("hexkey:panic");
            acc.violate(
                format!("C09|Key<{}>::try_from|{}", N, adapter::panic_site(&loc)),
                format!("Key::<{}>::try_from(&str) panicked at {} on a hex string of {} characters", N, loc, s.len()),
                json!({"kind": "hexkey", "n": N, "input": s}),
            );
        }
    }
}

fn hex_inputs() -> Vec<String> {
    let mut v = Vec::new();
    for len in 0..=200usize {
        v.push("ab".repeat(len / 2 + 1)[..len].to_string());
        v.push("0".repeat(len));
    }
    for len in [1usize, 47, 48, 63, 64, 65, 96, 98, 128] {
        let mut s = "f".repeat(len);
        s.replace_range(len / 2..len / 2 + 1, "g");
        v.push(s);
        let mut s = "1".repeat(len);
        s.replace_range(0..1, " ");
        v.push(s);
    }
    // too few / enough / too many hex digits padded with white space to every total length around 2N
    for n in [24usize, 32, 48, 49, 64] {
        for digits in (0..=2 * n + 2).step_by(2) {
            for total in [digits + 1, 2 * n - 1, 2 * n, 2 * n + 1, 2 * n + 2] {
                if total < digits {
                    continue;
                }
                let pad = total - digits;
                let hex = "a1".repeat(digits / 2);
                v.push(format!("{}{}", hex, "\n".repeat(pad)));
                v.push(format!("{}{}", " ".repeat(pad), hex));
                if pad >= 2 {
                    v.push(format!("{}\r\n{}", hex, " ".repeat(pad - 2)));
                    v.push(format!(" {}{}", hex, "\t".repeat(pad - 1)));
                }
            }
        }
    }
    v.push("\u{00e9}\u{00e9}".repeat(16));
    v.push("0x".to_string() + &"00".repeat(32));
    v
}

/// deeply nested payloads can exhaust the stack of a recursive parser - an abort no catch_unwind sees.
/// They are therefore parsed in a child process (`pvmc C09 --deep-child`); the parent reads how it ended.
pub fn deep_child() -> i32 {
    adapter::freeze_default_clock();
    for p in Proto::ALL {
        let pool = domains::key_pool(p);
        let key = &pool[0];
        let seed = if p.is_local() { domains::seeds(p)[2].clone() } else { vec![] };
        for depth in [200usize, 3_000, 100_000] {
            for (name, payload) in [
                ("arrays", format!("{}{}", "[".repeat(depth), "]".repeat(depth))),
                ("objects", format!("{}1{}", "{\"a\":".repeat(depth), "}".repeat(depth))),
                ("mixed", format!("{}1{}", "[{\"a\":".repeat(depth / 2), "}]".repeat(depth / 2))),
            ] {
                let Out::Ok(t) = adapter::core_issue(p, &key.sk, &seed, &payload, None, None) else { continue };
                for layer in [Layer::Generic, Layer::Prelude] {
                    println!("DEEP-NEXT {} {} {} {}", p.name(), layer.name(), name, depth);
                    use std::io::Write;
                    let _ = std::io::stdout().flush();
                    let (obs, _) = adapter::present(p, layer, &key.pk, &t, None, None);
                    if let Out::Panic(l) = obs {
                        println!("DEEP-PANIC {} {} {} {} {}", p.name(), layer.name(), name, depth, l);
                    }
                }
            }
        }
    }
    println!("DEEP-DONE");
    0
}

/// A thread-local whose destructor presents token texts to the library. It is the FIRST thread-local the thread
/// touches, so it is destroyed LAST: by then every thread-local the library (or the harness) created during the
/// thread's life is gone.
struct ExitGuard {
    armed: std::cell::RefCell<Option<(Proto, Vec<u8>, Vec<String>, std::sync::Arc<std::sync::Mutex<Vec<String>>>)>>,
}
impl Drop for ExitGuard {
    fn drop(&mut self) {
        if let Some((p, key, tokens, sink)) = self.armed.borrow_mut().take() {
            for (i, t) in tokens.iter().enumerate() {
                for layer in adapter::raw_present_all(p, &key, t) {
                    if let Ok(mut s) = sink.lock() {
                        s.push(format!("EXIT-PANIC {} {} {}", p.name(), layer, i));
                    }
                }
                if let Ok(mut s) = sink.lock() {
                    s.push(format!("EXIT-CALLED {} {}", p.name(), i));
                }
            }
        }
    }
}
thread_local! {
    static EXIT_GUARD: ExitGuard = ExitGuard { armed: std::cell::RefCell::new(None) };
}

/// `pvmc C09 --exit-child`: for every protocol a thread that (1) arms the exit guard, (2) uses all three layers
/// the ordinary way (issue, accept, reject), (3) ends. The guard then calls the accepting entry points from the
/// thread-local destructor phase. Isolated in a child process: a panic inside a destructor can abort.
pub fn exit_child() -> i32 {
    adapter::freeze_default_clock();
    let sink = std::sync::Arc::new(std::sync::Mutex::new(Vec::<String>::new()));
    for p in Proto::ALL {
        let sink2 = sink.clone();
        let h = std::thread::spawn(move || {
            let key = domains::key_pool(p)[0].clone();
            let seed = if p.is_local() { domains::seeds(p)[2].clone() } else { vec![] };
            let Out::Ok(tok) = adapter::core_issue(p, &key.sk, &seed, "{\"data\":\"x\"}", None, None) else { return };
            let mut tampered = tok.clone();
            let last = tampered.pop().unwrap_or('A');
            tampered.push(if last == 'A' { 'B' } else { 'A' });
            let tokens = vec![tok.clone(), tampered, format!("{}AAAA", p.header()), "x.y.z".to_string()];
            EXIT_GUARD.with(|g| *g.armed.borrow_mut() = Some((p, key.pk.clone(), tokens.clone(), sink2)));
            adapter::freeze_default_clock();
            for l in Layer::ALL {
                for t in &tokens {
                    let _ = adapter::present(p, l, &key.pk, t, None, None);
                }
            }
        });
        let _ = h.join();
    }
    for l in sink.lock().unwrap().iter() {
        println!("{}", l);
    }
    println!("EXIT-DONE");
    0
}

pub fn run(tier: &str) -> i32 {
    let run = Run::new("C09", tier);
    let quick = tier == "quick";
    let max_len = 400usize;
    let footers_expected: Vec<Option<String>> = vec![None, Some("f".into())];
    let footer_segments: Vec<Option<&str>> = vec![None, Some(""), Some("Zg"), Some("!!")];

    // ---- family (a)+(b)+(c)+(d)+(e): units = (protocol, layer)
    let units: Vec<(Proto, Layer)> = Proto::ALL.iter().flat_map(|p| Layer::ALL.iter().map(move |l| (*p, *l))).collect();
    let accs = par_units(&units, |(p, l)| {
        let mut acc = Acc::default();
        let pool = domains::key_pool(*p);
        let key = &pool[0];
        let seed = if p.is_local() { Some(domains::seeds(*p)[2].clone()) } else { None };
        // an authentic token with a long message: the source of "prefix of an authentic payload"
        let long = IssueCase::new(*p, Layer::Core, key, seed.as_deref(), &domains::message(400, 0), &Some("f".into()), &None);
        let long_token = long.issue().ok().cloned().unwrap_or_default();
        let authentic_decoded = long_token.split('.').nth(2).and_then(b64::decode_strict).unwrap_or_else(|| vec![0x5a; 800]);

        // (a) correct header + base64url of every decoded length 0..=400, three fillings
        let (_, pts) = explore(None, |c| {
            let len = c.choose("decoded length", max_len + 1);
            let fill = c.choose("filling", 3);
            let seg = c.choose("footer segment", footer_segments.len());
            let exp = c.choose("expected footer", footers_expected.len());
            let body: Vec<u8> = match fill {
                0 => vec![0u8; len],
                1 => vec![0xffu8; len],
                _ => authentic_decoded.iter().cycle().take(len).copied().collect(),
            };
            let mut token = format!("{}{}", p.header(), b64::encode(&body));
            if let Some(s) = footer_segments[seg] {
                token.push('.');
                token.push_str(s);
            }
            present_one(&mut acc, "a-header+every-length", *p, *l, &key.pk, &token, &footers_expected[exp], &None);
        });
        acc.choice_points += pts;

        // (a2) v1.public under verifying keys of other RSA sizes (1024 ... 8192 bits; the DER is built here, the
        //      modulus need not belong to anybody: the token texts are junk anyway): every decoded length up to
        //      the largest signature size + 70
        if *p == Proto::V1P {
            for mod_len in [128usize, 256, 257, 384, 512, 1024] {
                let mut modulus = vec![0xa5u8; mod_len];
                modulus[0] = 0x80 | 0x25;
                modulus[mod_len - 1] |= 1;
                let tlv = |tag: u8, body: &[u8]| -> Vec<u8> {
                    let mut v = vec![tag];
                    if body.len() < 128 {
                        v.push(body.len() as u8);
                    } else if body.len() < 256 {
                        v.extend_from_slice(&[0x81, body.len() as u8]);
                    } else {
                        v.extend_from_slice(&[0x82, (body.len() >> 8) as u8, body.len() as u8]);
                    }
                    v.extend_from_slice(body);
                    v
                };
                let mut n_body = vec![0u8];
                n_body.extend_from_slice(&modulus);
                let der = tlv(0x30, &[tlv(0x02, &n_body), tlv(0x02, &[1, 0, 1])].concat());
                let top = if quick { mod_len + 70 } else { 1_100 };
                let step = if quick && *l != Layer::Core { 7 } else { 1 };
                let mut len = 0;
                while len <= top {
                    for fill in [0u8, 0xff] {
                        for seg in [None, Some("Zg")] {
                            let mut token = format!("{}{}", p.header(), b64::encode(&vec![fill; len]));
                            if let Some(sg) = seg {
                                token.push('.');
                                token.push_str(sg);
                            }
                            present_one(&mut acc, "a2-rsa-key-sizes", *p, *l, &der, &token, &seg.map(|_| "f".to_string()), &None);
                            acc.choice_points += 1;
                        }
                    }
                    len += step;
                }
            }
        }

        // (b) every character prefix of an authentic token
        let short = IssueCase::new(*p, Layer::Core, key, seed.as_deref(), "{\"data\":\"\u{00e9}x\"}", &Some("f".into()), &None);
        if let Some(t) = short.issue().ok() {
            for n in 0..=t.len() {
                if t.is_char_boundary(n) {
                    for exp in &footers_expected {
                        present_one(&mut acc, "b-prefix", *p, *l, &key.pk, &t[..n], exp, &None);
                        acc.choice_points += 1;
                    }
                }
            }
        }

        // (g) a multi-byte character put at every position of an authentic token (replacing the character
        //     there, and inserted before it): 2-, 3- and 4-byte code points, so that some code point straddles
        //     every byte offset the parser might cut the text at
        if let Some(t) = short.issue().ok() {
            let chars: Vec<char> = t.chars().collect();
            for i in 0..=chars.len() {
                for mb in ['\u{00e9}', '\u{20ac}', '\u{1f642}'] {
                    for replace in [true, false] {
                        if replace && i == chars.len() {
                            continue;
                        }
                        let mut v: Vec<char> = chars[..i].to_vec();
                        v.push(mb);
                        v.extend_from_slice(&chars[if replace { i + 1 } else { i }..]);
                        let m: String = v.into_iter().collect();
                        for exp in &footers_expected {
                            present_one(&mut acc, "g-multibyte-at-every-position", *p, *l, &key.pk, &m, exp, &None);
                        }
                        acc.choice_points += 1;
                    }
                }
            }
        }

        // (c) 0..=6 segments over a 7-element segment alphabet
        let hdr: Vec<&str> = p.header().trim_end_matches('.').split('.').collect();
        let valid_payload = b64::encode(&vec![0u8; 120]);
        let seg_alpha: Vec<String> = vec![
            String::new(),
            hdr[0].to_string(),
            hdr[1].to_string(),
            if hdr[1] == "local" { "public".into() } else { "local".into() },
            valid_payload.clone(),
            "!!*".to_string(),
            "AAAA=".to_string(),
        ];
        let max_segs = if quick { 5 } else { 6 };
        for nseg in 0..=max_segs {
            let (_, pts) = explore(None, |c| {
                let mut parts: Vec<&str> = Vec::with_capacity(nseg);
                for _ in 0..nseg {
                    parts.push(seg_alpha[c.choose("segment", seg_alpha.len())].as_str());
                }
                let token = parts.join(".");
                present_one(&mut acc, "c-segments", *p, *l, &key.pk, &token, &None, &None);
            });
            acc.choice_points += pts;
        }

        // (l) every string of 0..=5 (thorough: 0..=7) symbols over {A, _, =, +} (a data symbol, the last symbol of the URL-safe
        //     alphabet, the padding symbol, a symbol of the other alphabet) as the payload segment after the right
        //     header - alone and followed by four footer-segment forms - and as the footer segment after a payload
        //     of the right shape: every small shape of padding and of symbols a decoder has to size, count or strip
        {
            let sym = ['A', '_', '=', '+'];
            let mut shapes: Vec<String> = vec![String::new()];
            let mut from = 0;
            for _ in 0..(if quick { 5 } else { 7 }) {
                let upto = shapes.len();
                for i in from..upto {
                    for ch in sym {
                        let mut t = shapes[i].clone();
                        t.push(ch);
                        shapes.push(t);
                    }
                }
                from = upto;
            }
            let f_exp: [Option<String>; 2] = [None, Some("f".to_string())];
            for sh in &shapes {
                for fseg in [None, Some("Zg"), Some("="), Some("Zg==")] {
                    let mut token = format!("{}{}", p.header(), sh);
                    if let Some(fs) = fseg {
                        token.push('.');
                        token.push_str(fs);
                    }
                    for exp in &f_exp {
                        present_one(&mut acc, "l-small-segment-shapes:payload", *p, *l, &key.pk, &token, exp, &None);
                        acc.choice_points += 1;
                    }
                }
                let token = format!("{}{}.{}", p.header(), valid_payload, sh);
                for exp in &f_exp {
                    present_one(&mut acc, "l-small-segment-shapes:footer", *p, *l, &key.pk, &token, exp, &None);
                    acc.choice_points += 1;
                }
            }
        }

        // (d) hostile strings
        let big_a = "A".repeat(1 << 20);
        let big_dot = ".".repeat(1 << 20);
        let hostile: Vec<String> = vec![
            "\u{00fc}4.l\u{00f6}cal.AAAA".into(),
            "v4.local.\u{1f642}\u{1f642}".into(),
            format!("{}\0", p.header()),
            format!("{}{}\0.Zg", p.header(), valid_payload),
            format!("\0{}{}", p.header(), valid_payload),
            format!("{}{}", p.header(), big_a),
            big_dot.clone(),
            format!("{}{}.{}", p.header(), valid_payload, big_a),
            format!("{} {}", p.header(), valid_payload),
            format!("{}\n{}", p.header(), valid_payload),
            p.header().to_uppercase() + &valid_payload,
            format!("{}{}.Zg.Zg", p.header(), valid_payload),
            "....".into(),
            "\u{feff}v4.local.AAAA".into(),
        ];
        for h in &hostile {
            for exp in &footers_expected {
                present_one(&mut acc, "d-hostile", *p, *l, &key.pk, h, exp, &None);
                if p.has_assertion() {
                    present_one(&mut acc, "d-hostile", *p, *l, &key.pk, h, exp, &Some("a".into()));
                }
                acc.choice_points += 1;
            }
        }

        // (e) authentic tokens with hostile payloads (parser layers + the default parser)
        if *l != Layer::Core {
            let mut payloads: Vec<String> = vec![
                "".into(), "not json".into(), "[]".into(), "[1,2]".into(), "\"str\"".into(), "42".into(), "null".into(), "true".into(),
                "{".into(), "{\"a\":}".into(), "{\"exp\":".into(), "{\"data\":\"\\ud800\"}".into(), "{\"a\":1e999}".into(),
            ];
            for k in ["exp", "nbf", "iat"] {
                for v in ["0", "1", "1e10", "-1", "1.5", "true", "false", "[]", "[\"2999-01-01T00:00:00Z\"]", "{}", "\"\"", "\" \"", "\"x\"", "null", "\"2999-01-01\"", "\"2999-01-01T00:00:00Zjunk\"", "\"9999-12-31T23:59:59.999999999+23:59\"", "\"0000-01-01T00:00:00-23:59\"", "\"9999-12-31T23:59:59-23:59\"", "\"9999-12-31T23:59:59-00:01\"", "\"9999-12-31T23:59:59.999999999Z\"", "\"0000-01-01T00:00:00+23:59\"", "\"0000-01-01T00:00:00+00:01\"", "\"0000-01-01T00:00:00Z\"", "\"9999-12-31T23:59:60Z\"", "\"2999-01-01T00:00:00.0000000000000000000000001Z\""] {
                    payloads.push(format!("{{\"{}\":{}}}", k, v));
                }
            }
            for pl in &payloads {
                let c = IssueCase::new(*p, Layer::Core, key, seed.as_deref(), pl, &None, &None);
                if let Some(t) = c.issue().ok() {
                    present_one(&mut acc, "e-hostile-payload", *p, *l, &key.pk, t, &None, &None);
                    if *l == Layer::Prelude {
                        present_default(&mut acc, "e-hostile-payload(default parser)", *p, &key.pk, t, &None);
                    }
                    acc.choice_points += 1;
                }
            }
        }
        if acc.samples.is_empty() {
            acc.sample(json!({"entry": format!("{}/{}", p.name(), l.name()), "example_input": format!("{}{}", p.header(), b64::encode(&[0u8; 5])), "families": ["a-header+every-length", "b-prefix", "c-segments", "d-hostile", "e-hostile-payload", "g-multibyte-at-every-position"]}));
        }
        acc
    });
    let mut all = Acc::merge_all(accs);

    // ---- deep nesting, isolated in a child process
    {
        let exe = std::env::current_exe().unwrap_or_else(|_| crate::report::machinery_error("no current_exe"));
        let o = std::process::Command::new(&exe).args(["C09", "--deep-child"]).output().unwrap_or_else(|_| crate::report::machinery_error("cannot spawn the deep-nesting child"));
        let txt = String::from_utf8_lossy(&o.stdout).to_string();
        let mut dacc = Acc::default();
        let nexts: Vec<&str> = txt.lines().filter(|l| l.starts_with("DEEP-NEXT")).collect();
        dacc.executions += nexts.len() as u64;
        dacc.impl_calls += nexts.len() as u64;
        for l in txt.lines().filter(|l| l.starts_with("DEEP-PANIC")) {
            let f: Vec<&str> = l.splitn(6, ' ').collect();
            dacc.violate(format!("C09|{}/{}|deep-{}|panic", f[1], f[2], f[3]), format!("parse of an authentic token whose payload nests {} {} levels deep panicked at {}", f[3], f[4], f.get(5).unwrap_or(&"")), json!({"kind": "deep", "line": l}));
        }
        if !txt.contains("DEEP-DONE") {
            let last = nexts.last().copied().unwrap_or("DEEP-NEXT (none)");
            let f: Vec<&str> = last.split(' ').collect();
            dacc.violate(
                format!("C09|{}/{}|deep-{}|process-abort", f.get(1).unwrap_or(&"?"), f.get(2).unwrap_or(&"?"), f.get(3).unwrap_or(&"?")),
                format!("the process parsing an authentic token with a deeply nested payload ({}) died ({:?}): the caller is crashed, not handed an Err", last, o.status),
                json!({"kind": "deep", "line": last}),
            );
        } else {
            dacc.bump("deep-nesting:child-finished");
        }
        dacc.sample(json!({"family": "h-deep-nesting (child process)", "inputs": nexts.len(), "depths": [200, 3000, 100000]}));
        all.merge(dacc);
    }

    // ---- family (i): a token embedded in a claim and parsed from inside a validator (a rule for an `act` /
    //      delegation claim): authentic, tampered and junk embedded tokens of the same and of another protocol
    {
        use crate::adapter::{PEvent, POp, Verdict};
        let units: Vec<(Proto, Layer)> = Proto::ALL.iter().flat_map(|p| [Layer::Generic, Layer::Prelude].into_iter().map(move |l| (*p, l))).collect();
        let accs = par_units(&units, |(p, l)| {
            let mut acc = Acc::default();
            let key = domains::key_pool(*p)[0].clone();
            let seed = if p.is_local() { domains::seeds(*p)[2].clone() } else { vec![] };
            for q in [*p, Proto::V4L, Proto::V2P].into_iter().filter(|q| q.enabled()) {
                let qkey = domains::key_pool(q)[0].clone();
                let qseed = if q.is_local() { domains::seeds(q)[1].clone() } else { vec![] };
                let Out::Ok(inner) = adapter::core_issue(q, &qkey.sk, &qseed, "{\"sub\":\"actor\"}", None, None) else { continue };
                let mut tampered = inner.clone();
                let last = tampered.pop().unwrap_or('A');
                tampered.push(if last == 'A' { 'B' } else { 'A' });
                for (iname, itok) in [("authentic", inner.clone()), ("tampered", tampered), ("junk", "x.y.z".to_string()), ("empty", String::new())] {
                    let payload = serde_json::json!({"act": itok, "data": "x"}).to_string();
                    let Out::Ok(outer) = adapter::core_issue(*p, &key.sk, &seed, &payload, None, None) else { continue };
                    for inner_layer in [Layer::Generic, Layer::Prelude] {
                        adapter::set_verdict(5, Verdict::ParseEmbedded { proto: q, layer: inner_layer, key: qkey.pk.clone() });
                        let ev = adapter::parse_history(*p, *l, false, &[key.pk.clone()], &[outer.clone()], &[POp::Validate("act".into(), 5), POp::Parse(0, 0)]);
                        adapter::reset_verdicts();
                        let _ = adapter::take_calls();
                        acc.executions += 1;
                        acc.impl_calls += 1;
                        acc.choice_points += 1;
                        acc.see(&(p.name(), l.name(), q.name(), iname, inner_layer.name()));
                        match ev.last() {
                            Some(PEvent::Parsed(Out::Panic(loc), _)) => acc.violate(
                                format!("C09|{}/{}|nested-parse|panic", p.name(), l.name()),
                                format!("a validator for the claim `act` parses the embedded {} {} token at the {} layer: the outer parse panicked ({})", iname, q.name(), inner_layer.name(), loc),
                                json!({"kind": "nested", "outer": outer, "proto": p.name(), "layer": l.name()}),
                            ),
                            Some(PEvent::Parsed(o, _)) => acc.bump(&format!("nested-parse:{}:{}", iname, if o.is_ok() { "ok" } else { "err" })),
                            _ => acc.bump("nested-parse:no-event"),
                        }
                    }
                }
            }
            acc
        });
        let mut n = Acc::merge_all(accs);
        n.sample(json!({"family": "i-nested-parse-inside-validator", "inputs": n.executions}));
        all.merge(n);
    }

    // ---- family (k): a parser object whose (caller-supplied) validator panicked during an earlier parse - the
    //      caller caught that - is used again: the library must answer Ok or Err, whatever the earlier unwinding
    //      left behind
    {
        use crate::adapter::{PEvent, POp, Verdict};
        let units: Vec<(Proto, Layer, bool)> = Proto::ALL.iter().flat_map(|p| [(Layer::Generic, false), (Layer::Prelude, false), (Layer::Prelude, true)].into_iter().map(move |(l, d)| (*p, l, d))).collect();
        let accs = par_units(&units, |(p, l, default)| {
            let mut acc = Acc::default();
            let key = domains::key_pool(*p)[0].clone();
            let seed = if p.is_local() { domains::seeds(*p)[2].clone() } else { vec![] };
            let Out::Ok(tok) = adapter::core_issue(*p, &key.sk, &seed, "{\"seats\":\"four\",\"data\":\"x\"}", None, None) else { return acc };
            let mut bad = tok.clone();
            bad.pop();
            for route in ["validate_claim", "extend_validation_claims"] {
                if route == "extend_validation_claims" && *l != Layer::Generic {
                    continue;
                }
                adapter::reset_verdicts();
                adapter::set_verdict(6, Verdict::Panic);
                let mut ops: Vec<POp> = vec![POp::Check(adapter::ClaimSpec::auto("data", json!("x")))];
                ops.push(if route == "validate_claim" { POp::Validate("seats".into(), 6) } else { POp::ExtendValidate(vec![("seats".into(), 6)]) });
                // 0: the validator panics (the caller's bug); then it is repaired and the same parser is used again
                ops.extend([POp::Parse(0, 0), POp::SetVerdict(6, Verdict::Accept), POp::Parse(0, 0), POp::Parse(1, 0), POp::SetVerdict(6, Verdict::Panic), POp::Parse(0, 0), POp::SetVerdict(6, Verdict::Reject), POp::Parse(0, 0), POp::Parse(0, 0)]);
                let ev = adapter::parse_history(*p, *l, *default, &[key.pk.clone()], &[tok.clone(), bad.clone()], &ops);
                adapter::reset_verdicts();
                let _ = adapter::take_calls();
                let parsed: Vec<&PEvent> = ev.iter().filter(|e| matches!(e, PEvent::Parsed(..))).collect();
                // expected: [user panic, Ok, Err, user panic, Err, Err]
                let user_panic_at = [0usize, 3];
                for (i, e) in parsed.iter().enumerate() {
                    let PEvent::Parsed(o, _) = e else { continue };
                    acc.executions += 1;
                    acc.impl_calls += 1;
                    acc.choice_points += 1;
                    match o {
                        Out::Panic(loc) if loc.contains(adapter::USER_VALIDATOR_PANIC) => {
                            if user_panic_at.contains(&i) {
                                acc.bump("after-validator-panic:caller-panic-propagated");
                            } else {
                                acc.violate(format!("C09|{}/{}|after-validator-panic|stale-user-panic", p.name(), l.name()), format!("parse #{} of the history panicked with the caller's validator panic although the validator no longer panics", i + 1), json!({"kind": "after-validator-panic", "proto": p.name()}));
                            }
                        }
                        Out::Panic(loc) => acc.violate(
                            format!("C09|{}/{}|after-validator-panic|{}", p.name(), l.name(), adapter::panic_site(loc)),
                            format!("a parser ({}) whose validator panicked during an earlier parse (caught by the caller) was used again: parse #{} panicked inside the library at {}", route, i + 1, loc),
                            json!({"kind": "after-validator-panic", "proto": p.name()}),
                        ),
                        _ => acc.bump("after-validator-panic:ok-or-err"),
                    }
                }
            }
            acc
        });
        let mut k = Acc::merge_all(accs);
        k.sample(json!({"family": "k-parser-reused-after-a-validator-panic", "inputs": k.executions}));
        all.merge(k);
    }

    // ---- family (j): the accepting entry points called from a thread-local destructor while the thread ends
    //      (after the thread has used the library the ordinary way), in a child process
    {
        let exe = std::env::current_exe().unwrap_or_else(|_| crate::report::machinery_error("no current_exe"));
        let o = std::process::Command::new(&exe).args(["C09", "--exit-child"]).output().unwrap_or_else(|_| crate::report::machinery_error("cannot spawn the thread-exit child"));
        let txt = String::from_utf8_lossy(&o.stdout).to_string();
        let mut eacc = Acc::default();
        let called = txt.lines().filter(|l| l.starts_with("EXIT-CALLED")).count();
        eacc.executions += (called * 3) as u64;
        eacc.impl_calls += (called * 3) as u64;
        for l in txt.lines().filter(|l| l.starts_with("EXIT-PANIC")) {
            let f: Vec<&str> = l.split(' ').collect();
            eacc.violate(
                format!("C09|{}/{}|thread-exit|panic", f.get(1).unwrap_or(&"?"), f.get(2).unwrap_or(&"?")),
                format!("{} {} entry point called from a thread-local destructor at thread exit (after the thread had used the library) panicked on token text #{} (0 authentic, 1 tampered, 2 header + AAAA, 3 junk)", f.get(1).unwrap_or(&"?"), f.get(2).unwrap_or(&"?"), f.get(3).unwrap_or(&"?")),
                json!({"kind": "thread-exit", "line": l}),
            );
        }
        if !txt.contains("EXIT-DONE") {
            eacc.violate("C09|thread-exit|process-abort".into(), format!("the process calling the entry points at thread exit died ({:?})", o.status), json!({"kind": "thread-exit", "line": "abort"}));
        } else if called == 0 {
            crate::report::machinery_error("the thread-exit child made no call (its destructor did not run)");
        } else {
            eacc.bump("thread-exit:child-finished");
        }
        eacc.sample(json!({"family": "j-calls-at-thread-exit (child process)", "calls": called * 3}));
        all.merge(eacc);
    }

    // ---- family (f): Key::<N>::try_from(&str)
    let mut kacc = Acc::default();
    for s in hex_inputs() {
        try_key::<24>(&mut kacc, &s);
        try_key::<32>(&mut kacc, &s);
        try_key::<48>(&mut kacc, &s);
        try_key::<49>(&mut kacc, &s);
        try_key::<64>(&mut kacc, &s);
        kacc.choice_points += 5;
    }
    kacc.sample(json!({"entry": "Key::<32>::try_from(&str)", "example_input": "00ff"}));
    all.merge(kacc);

    all.states = all.distinct.len() as u64;
    all.controls_ok = *all.hist.get("b-prefix:Ok").unwrap_or(&0) + *all.hist.get("hexkey:Ok").unwrap_or(&0);
    if all.controls_ok == 0 {
        crate::report::machinery_error("C09: no input at all was accepted (the full-length prefixes and right-length hex keys must be): vacuous");
    }
    let extra = json!({
        "space": "24 entry points x {8 headers + every decoded length 0..=400 x 3 fillings x 4 footer-segment forms x 2 expected footers; every prefix of an authentic token; a 2/3/4-byte character replacing / inserted at every position of an authentic token; all strings of 0..=N segments over a 7-element segment alphabet; every string of 0..=5 (thorough: 0..=7) symbols over {A, _, =, +} as payload segment (x 5 footer-segment forms) and as footer segment; hostile strings incl. 1 MiB; authentic tokens with hostile payloads}; Key::<N>::try_from for N in {24,32,48,49,64} x every hex length 0..=200",
        "max_segments": if quick { 5 } else { 6 },
        "distinct_rule": "distinct (entry point, input, expected footer, assertion)",
        "caps_hit": [],
    });
    run.finish(&all, true, extra, &["a panic is observed through catch_unwind; aborts (allocation failure, stack overflow) would kill the explorer and surface as a machinery error, not a pass"])
}

pub fn replay(case: &serde_json::Value) -> i32 {
    let mut acc = Acc::default();
    if case["kind"] == "deep" {
        println!("deep-nesting finding: re-run `./check C09 quick` (the input is regenerated in a child process): {}", case["line"]);
        return 2;
    }
    if case["kind"] == "hexkey" {
        let s = case["input"].as_str().unwrap_or("");
        match case["n"].as_u64().unwrap_or(32) {
            24 => try_key::<24>(&mut acc, s),
            48 => try_key::<48>(&mut acc, s),
            49 => try_key::<49>(&mut acc, s),
            64 => try_key::<64>(&mut acc, s),
            _ => try_key::<32>(&mut acc, s),
        }
    } else {
        let (Ok(p), Ok(l)) = (serde_json::from_value::<Proto>(case["proto"].clone()), serde_json::from_value::<Layer>(case["layer"].clone())) else {
            crate::report::machinery_error("replay file lacks proto / layer");
        };
        let pk = b64::unhex(case["pk_hex"].as_str().unwrap_or("")).unwrap_or_default();
        let token = match &case["token"] {
            serde_json::Value::String(s) => s.clone(),
            o => o["repeat"].as_str().unwrap_or("A").repeat(o["len"].as_u64().unwrap_or(1) as usize),
        };
        let footer: Option<String> = case["footer"].as_str().map(|s| s.to_string());
        let assertion: Option<String> = case["assertion"].as_str().map(|s| s.to_string());
        if case["family"].as_str().unwrap_or("").contains("default parser") {
            present_default(&mut acc, "replay", p, &pk, &token, &footer);
        } else {
            present_one(&mut acc, "replay", p, l, &pk, &token, &footer, &assertion);
        }
    }
    for v in &acc.violations {
        println!("VIOLATION property=C09 replay=(this file)\n  key:  {}\n  what: {}", v.key, v.what);
    }
    if acc.violations.is_empty() {
        println!("replay: no panic on this input");
        0
    } else {
        1
    }
}
