//! C10: the high-level local builders never reuse a nonce.
//!
//! Decided by exhaustive exploration: for every call history (engine A) under a *scripted* RNG (hook H1),
//! each build consumes exactly one fresh draw of the right length, the token is the core-layer token for
//! that draw, and distinct draws give distinct wire nonces and tokens - i.e. the nonce is the
//! specification's function of one fresh `SystemRandom` draw and nothing else. A free-running pass (real
//! RNG, tap in observer mode) then checks the statement's own predicate (pairwise distinct nonces and
//! tokens, no constant byte position) on N real builds. The per-bit frequency test of the quantifier is
//! computed too but is *sampling* and labelled so; it is auxiliary.

use crate::adapter::{self, BEvent, BOp, ClaimSpec, Layer, Out, Proto};
use crate::b64;
use crate::domains;
use crate::explore::{explore, par_units};
use crate::report::{Acc, Run};
use serde::{Deserialize, Serialize};
use serde_json::{json, Value};
use std::collections::HashSet;

#[derive(Clone, Copy, Debug, PartialEq, Eq, Serialize, Deserialize)]
pub enum HOp {
    NewGeneric,
    NewPrelude,
    ClaimsSame,
    ClaimsOther,
    Footer,
    Build,
}
const HOPS: [HOp; 6] = [HOp::NewGeneric, HOp::NewPrelude, HOp::ClaimsSame, HOp::ClaimsOther, HOp::Footer, HOp::Build];

#[derive(Clone, Debug, Serialize, Deserialize)]
pub struct NonceCase {
    pub proto: Proto,
    pub history: Vec<HOp>,
    /// scripted draws (hex); empty = free running
    pub script: Vec<String>,
}

fn wire_nonce(p: Proto, token: &str) -> Option<Vec<u8>> {
    let d = b64::decode_strict(token.split('.').nth(2)?)?;
    if d.len() < p.nonce_len() {
        return None;
    }
    Some(d[..p.nonce_len()].to_vec())
}

struct Built {
    token: String,
    footer: Option<String>,
}

/// Runs the history; returns (tokens built, draws seen by the library)
fn run_history(p: Proto, key: &[u8], history: &[HOp], script: Vec<Vec<u8>>) -> (Vec<Built>, Vec<Vec<u8>>, Vec<String>) {
    // split into per-builder segments
    let mut segments: Vec<(Layer, Vec<BOp>)> = Vec::new();
    let mut other_n = 0;
    for op in history {
        match op {
            HOp::NewGeneric => segments.push((Layer::Generic, Vec::new())),
            HOp::NewPrelude => segments.push((Layer::Prelude, Vec::new())),
            _ if segments.is_empty() => {}
            HOp::ClaimsSame => segments.last_mut().unwrap().1.push(BOp::Claim(ClaimSpec::auto("data", json!("same")))),
            HOp::ClaimsOther => {
                other_n += 1;
                segments.last_mut().unwrap().1.push(BOp::Claim(ClaimSpec::auto("data", json!(format!("other{}", other_n)))))
            }
            HOp::Footer => segments.last_mut().unwrap().1.push(BOp::Footer("f".into())),
            HOp::Build => segments.last_mut().unwrap().1.push(BOp::Build),
        }
    }
    let mut problems = Vec::new();
    let (built, draws) = adapter::with_rng_script(script, || {
        let mut built = Vec::new();
        for (layer, ops) in &segments {
            let ev = adapter::build_history(p, *layer, key, ops);
            let mut footer: Option<String> = None;
            for (op, e) in ops.iter().zip(ev.iter()) {
                if let BOp::Footer(f) = op {
                    footer = Some(f.clone());
                }
                if let BEvent::Built(o) = e {
                    match o {
                        Out::Ok(t) => built.push(Built { token: t.clone(), footer: footer.clone() }),
                        // a duplicate-claim refusal at the prelude layer happens before any draw
                        Out::Err(adapter::ErrClass::Dup(_)) => {}
                        other => problems.push(format!("build failed: {}", other.short())),
                    }
                }
            }
        }
        built
    });
    (built, draws, problems)
}

pub fn evaluate(case: &NonceCase, acc: &mut Acc) {
    let p = case.proto;
    let key = domains::official_key();
    let script: Vec<Vec<u8>> = case.script.iter().map(|h| b64::unhex(h).unwrap_or_default()).collect();
    acc.executions += 1;
    let (built, draws, problems) = run_history(p, &key, &case.history, script.clone());
    acc.impl_calls += case.history.len() as u64;
    let fail = |acc: &mut Acc, kind: &str, why: String| {
        acc.violate(format!("C10|{}|{}", p.name(), kind), why, json!({"nonce_case": case}));
    };
    for pr in problems {
        fail(acc, "build-failed", pr);
    }
    // the scripted analysis presupposes that the builders' randomness passes through the tapped function; if
    // not a single draw is seen for any build of this history the seam has moved (not a verdict): the
    // free-running, multi-thread and cross-process passes still decide the statement's own predicate
    if draws.is_empty() && !built.is_empty() {
        acc.bump("tap-not-on-the-nonce-path");
        return;
    }
    // (a) exactly one draw of exactly draw_len bytes per successful build
    if draws.len() != built.len() {
        fail(acc, "draw-count", format!("{} successful builds consumed {} RNG draws (expected one fresh draw per build)", built.len(), draws.len()));
        return;
    }
    for d in &draws {
        if d.len() != p.draw_len() {
            fail(acc, "draw-length", format!("a build drew {} random bytes, expected {}", d.len(), p.draw_len()));
            return;
        }
    }
    if !script.is_empty() {
        for (i, d) in draws.iter().enumerate() {
            if let Some(s) = script.get(i) {
                if d[..] != s[..d.len().min(s.len())] {
                    crate::report::machinery_error("H1 script was not applied (hook broken)");
                }
            }
        }
    }
    // (b) the token is the core-layer token for (key, that draw, the payload the builder serialised)
    let mut nonces: Vec<Vec<u8>> = Vec::new();
    for (b, d) in built.iter().zip(draws.iter()) {
        let payload = match adapter::core_present(p, &key, &b.token, b.footer.as_deref(), None) {
            Out::Ok(m) => m,
            other => {
                fail(acc, "built-token-unreadable", format!("a built token does not decrypt at the core layer: {}", other.short()));
                continue;
            }
        };
        match adapter::core_issue(p, &key, d, &payload, b.footer.as_deref(), None) {
            Out::Ok(t) if t == b.token => acc.controls_ok += 1,
            Out::Ok(_) => fail(acc, "nonce-not-from-draw", "the built token differs from the core-layer token for the same key, payload and the drawn bytes as nonce seed: the wire nonce is not the specification's function of the fresh draw".into()),
            other => fail(acc, "core-reissue-failed", other.short()),
        }
        acc.impl_calls += 2;
        match wire_nonce(p, &b.token) {
            Some(n) => {
                if matches!(p, Proto::V3L | Proto::V4L) && n != *d {
                    fail(acc, "wire-nonce-differs-from-draw", "v3/v4: the nonce on the wire is not the drawn value".into());
                }
                acc.see(&n);
                nonces.push(n);
            }
            None => fail(acc, "no-wire-nonce", "token too short to carry a nonce".into()),
        }
    }
    // (c) distinct draws give distinct wire nonces and tokens
    for i in 0..built.len() {
        for j in (i + 1)..built.len() {
            if draws[i] != draws[j] {
                if nonces.get(i).is_some() && nonces.get(i) == nonces.get(j) {
                    fail(acc, "nonce-reuse", format!("builds {} and {} drew different random values but carry the same nonce", i, j));
                }
                if built[i].token == built[j].token {
                    fail(acc, "token-repeat", format!("builds {} and {} drew different random values but produced the same token", i, j));
                }
            }
        }
    }
    acc.bump(&format!("builds-per-history:{}", built.len().min(5)));
}

fn distinct_script(p: Proto, n: usize) -> Vec<String> {
    (0..n).map(|i| b64::hex(&vec![(i as u8).wrapping_mul(37).wrapping_add(1); p.draw_len()])).collect()
}

/// `pvmc C10 --emit-nonces`: the wire nonces of the first builds of a fresh process (real RNG), as JSON
pub fn emit_first_nonces() -> i32 {
    adapter::freeze_default_clock();
    let key = domains::official_key();
    let mut out = serde_json::Map::new();
    for p in Proto::LOCAL {
        for l in [Layer::Generic, Layer::Prelude] {
            let ops = vec![BOp::Claim(ClaimSpec::auto("data", json!("same"))), BOp::Build];
            let mut v = Vec::new();
            for _ in 0..16 {
                let (ev, _) = adapter::with_rng_observer(|| adapter::build_history(p, l, &key, &ops));
                if let Some(BEvent::Built(Out::Ok(t))) = ev.last() {
                    if let Some(n) = wire_nonce(p, t) {
                        v.push(b64::hex(&n));
                    }
                }
            }
            out.insert(format!("{}/{}", p.name(), l.name()), json!(v));
        }
    }
    println!("{}", Value::Object(out));
    0
}

fn build_one_nonce(p: Proto, l: Layer) -> Option<String> {
    let key = domains::official_key();
    let ops = vec![BOp::Claim(ClaimSpec::auto("data", json!("same"))), BOp::Build];
    let (ev, _) = adapter::with_rng_observer(|| adapter::build_history(p, l, &key, &ops));
    match ev.last() {
        Some(BEvent::Built(Out::Ok(t))) => wire_nonce(p, t).map(|n| b64::hex(&n)),
        _ => None,
    }
}

/// `pvmc C10 --fork-child`: a single-threaded process that builds one token, then duplicates itself with fork()
/// (std's `pre_exec` hook runs in the forked copy, before it execs /bin/true) and lets both copies build tokens
/// under the same key: whatever random state the first build left in the process image now exists twice.
pub fn fork_child() -> i32 {
    use std::io::Write;
    use std::os::unix::process::CommandExt;
    adapter::freeze_default_clock();
    let dir = crate::report::verif_dir().join("target").join("tmp");
    let _ = std::fs::create_dir_all(&dir);
    let mut out = serde_json::Map::new();
    for p in Proto::LOCAL {
        for l in [Layer::Generic, Layer::Prelude] {
            let before = build_one_nonce(p, l);
            let path = dir.join(format!("fork-{}-{}-{}.txt", std::process::id(), p.name(), l.name()));
            let Ok(file) = std::fs::File::create(&path) else { continue };
            let mut cmd = std::process::Command::new("/bin/true");
            unsafe {
                cmd.pre_exec(move || {
                    for _ in 0..48 {
                        if let Some(n) = build_one_nonce(p, l) {
                            let _ = writeln!(&file, "{}", n);
                        }
                    }
                    Ok(())
                });
            }
            let status = cmd.status();
            let parent: Vec<String> = (0..48).filter_map(|_| build_one_nonce(p, l)).collect();
            let forked: Vec<String> = std::fs::read_to_string(&path).unwrap_or_default().lines().map(|s| s.to_string()).collect();
            let _ = std::fs::remove_file(&path);
            out.insert(format!("{}/{}", p.name(), l.name()), json!({"before": before, "parent": parent, "forked": forked, "spawned": status.is_ok()}));
        }
    }
    println!("{}", Value::Object(out));
    0
}

pub fn run(tier: &str) -> i32 {
    let run = Run::new("C10", tier);
    let quick = tier == "quick";
    let max_len = if quick { 5 } else { 6 };
    let protos = Proto::LOCAL.to_vec();

    // ---- exhaustive histories under the scripted RNG
    let units: Vec<(Proto, usize)> = protos.iter().flat_map(|p| (1..=max_len).map(move |n| (*p, n))).collect();
    let accs = par_units(&units, |(p, n)| {
        let mut acc = Acc::default();
        let (_, pts) = explore(None, |c| {
            let mut h = Vec::with_capacity(*n);
            h.push(HOPS[c.choose("first op (new builder)", 2)]);
            for _ in 1..*n {
                h.push(HOPS[c.choose("op", HOPS.len())]);
            }
            let case = NonceCase { proto: *p, history: h, script: distinct_script(*p, *n) };
            evaluate(&case, &mut acc);
            if acc.samples.is_empty() && case.history.iter().filter(|o| **o == HOp::Build).count() >= 2 {
                acc.sample(json!({"proto": p.name(), "history": case.history, "script_blocks": case.script.len()}));
            }
        });
        acc.choice_points += pts;
        acc
    });
    let mut all = Acc::merge_all(accs);

    // ---- two builds whose draws differ in exactly one bit, for every bit position
    let units: Vec<(Proto, Layer)> = protos.iter().flat_map(|p| [Layer::Generic, Layer::Prelude].into_iter().map(move |l| (*p, l))).collect();
    let accs = par_units(&units, |(p, l)| {
        let mut acc = Acc::default();
        let new = if *l == Layer::Generic { HOp::NewGeneric } else { HOp::NewPrelude };
        for bit in 0..p.draw_len() * 8 {
            let a = vec![0x5au8; p.draw_len()];
            let mut b = a.clone();
            b[bit / 8] ^= 1 << (bit % 8);
            for history in [vec![new, HOp::ClaimsSame, HOp::Build, new, HOp::ClaimsSame, HOp::Build], vec![new, HOp::ClaimsSame, HOp::Build, HOp::ClaimsSame, HOp::Build]] {
                let case = NonceCase { proto: *p, history, script: vec![b64::hex(&a), b64::hex(&b)] };
                evaluate(&case, &mut acc);
                acc.choice_points += 1;
            }
        }
        acc
    });
    all.merge(Acc::merge_all(accs));

    // ---- free-running pass: real RNG, observer tap
    let n_builds: usize = if quick { 4096 } else { 65536 };
    let accs = par_units(&units, |(p, l)| {
        let mut acc = Acc::default();
        adapter::set_clock(None);
        let key = domains::official_key();
        let ops = vec![BOp::Claim(ClaimSpec::auto("data", json!("same"))), BOp::Footer("f".into()), BOp::Build];
        let mut nonces: HashSet<Vec<u8>> = HashSet::new();
        let mut tokens: HashSet<String> = HashSet::new();
        let nl = p.nonce_len();
        let mut ones = vec![0u64; nl * 8];
        let mut first: Option<Vec<u8>> = None;
        let mut varies = vec![false; nl];
        let case_json = json!({"nonce_case": NonceCase { proto: *p, history: vec![if *l == Layer::Generic { HOp::NewGeneric } else { HOp::NewPrelude }, HOp::ClaimsSame, HOp::Footer, HOp::Build], script: vec![] }});
        for i in 0..n_builds {
            // the prelude builder stamps the real time; identical claims are forced by freezing it for this
            // builder only (the RNG stays real): same key, same claims, same footer on every build
            adapter::freeze_default_clock();
            let (ev, draws) = adapter::with_rng_observer(|| adapter::build_history(*p, *l, &key, &ops));
            adapter::set_clock(None);
            acc.executions += 1;
            acc.impl_calls += 1;
            let Some(BEvent::Built(Out::Ok(t))) = ev.last() else {
                acc.violate(format!("C10|{}|free-running-build-failed", p.name()), "build failed".into(), case_json.clone());
                continue;
            };
            if draws.len() != 1 || draws[0].len() != p.draw_len() {
                acc.violate(format!("C10|{}|draw-count", p.name()), format!("free-running build consumed {} draws", draws.len()), case_json.clone());
            }
            let Some(n) = wire_nonce(*p, t) else { continue };
            if matches!(p, Proto::V3L | Proto::V4L) && draws.first().map_or(false, |d| *d != n) {
                acc.violate(format!("C10|{}|wire-nonce-differs-from-draw", p.name()), "the nonce on the wire is not the tapped draw".into(), case_json.clone());
            }
            if i < 64 && !matches!(p, Proto::V3L | Proto::V4L) {
                // v1/v2: the wire nonce is the keyed hash of draw and message: re-derive through the core layer
                if let (Some(d), Out::Ok(payload)) = (draws.first(), adapter::core_present(*p, &key, t, Some("f"), None)) {
                    if adapter::core_issue(*p, &key, d, &payload, Some("f"), None).ok() != Some(t) {
                        acc.violate(format!("C10|{}|nonce-not-from-draw", p.name()), "free-running: token differs from the core-layer token for the tapped draw".into(), case_json.clone());
                    }
                }
            }
            for (bi, byte) in n.iter().enumerate() {
                for k in 0..8 {
                    if byte & (1 << k) != 0 {
                        ones[bi * 8 + k] += 1;
                    }
                }
                if let Some(f) = &first {
                    if f[bi] != *byte {
                        varies[bi] = true;
                    }
                }
            }
            if first.is_none() {
                first = Some(n.clone());
            }
            if !nonces.insert(n) {
                acc.violate(format!("C10|{}|nonce-reuse", p.name()), format!("free-running: a nonce repeated within {} builds under one key", n_builds), case_json.clone());
            }
            if !tokens.insert(t.clone()) {
                acc.violate(format!("C10|{}|token-repeat", p.name()), format!("free-running: a token repeated within {} builds with identical claims", n_builds), case_json.clone());
            }
        }
        if let Some(pos) = varies.iter().position(|v| !v) {
            acc.violate(format!("C10|{}|constant-nonce-byte", p.name()), format!("free-running: nonce byte position {} never changed over {} builds", pos, n_builds), case_json.clone());
        }
        // auxiliary, SAMPLING (not part of the verdict unless grossly off): per-bit frequency within 10.5 sigma
        let sigma = (n_builds as f64 * 0.25).sqrt();
        let worst = ones.iter().map(|o| ((*o as f64) - n_builds as f64 / 2.0).abs() / sigma).fold(0.0f64, f64::max);
        if worst > 10.5 {
            acc.violate(format!("C10|{}|bit-frequency", p.name()), format!("free-running (sampling): a nonce bit deviates {:.1} sigma from 1/2 over {} builds", worst, n_builds), case_json.clone());
        }
        acc.notes.insert(format!("free_running_{}_{}", p.name(), l.name()), json!({"builds": n_builds, "distinct_nonces": nonces.len(), "distinct_tokens": tokens.len(), "max_bit_deviation_sigma_SAMPLING": (worst * 100.0).round() / 100.0}));
        acc.distinct.extend(nonces.iter().map(|n| crate::report::h64(n)));
        adapter::freeze_default_clock();
        acc
    });
    all.merge(Acc::merge_all(accs));

    // ---- two more process lifetimes: the first nonces of a fresh process must not repeat those of another
    {
        let mut pacc = Acc::default();
        let exe = std::env::current_exe().unwrap_or_else(|_| crate::report::machinery_error("no current_exe"));
        let mut runs: Vec<Value> = Vec::new();
        for _ in 0..2 {
            let o = std::process::Command::new(&exe).args(["C10", "--emit-nonces"]).output().unwrap_or_else(|_| crate::report::machinery_error("cannot spawn pvmc"));
            let txt = String::from_utf8_lossy(&o.stdout).to_string();
            match txt.lines().last().and_then(|l| serde_json::from_str::<Value>(l).ok()) {
                Some(v) => runs.push(v),
                None => crate::report::machinery_error("child process produced no nonce list"),
            }
        }
        for (k, a) in runs[0].as_object().cloned().unwrap_or_default() {
            let sa: HashSet<String> = a.as_array().cloned().unwrap_or_default().iter().filter_map(|x| x.as_str().map(|s| s.to_string())).collect();
            let sb: HashSet<String> = runs[1][&k].as_array().cloned().unwrap_or_default().iter().filter_map(|x| x.as_str().map(|s| s.to_string())).collect();
            pacc.executions += (sa.len() + sb.len()) as u64;
            let common = sa.intersection(&sb).count();
            if sa.is_empty() || sb.is_empty() {
                crate::report::machinery_error("child process built no token");
            }
            if common > 0 {
                let p = Proto::from_name(k.split('/').next().unwrap_or("")).unwrap_or(Proto::V4L);
                pacc.violate(
                    format!("C10|{}|nonce-reuse-across-processes", p.name()),
                    format!("{}: {} of the first 16 nonces of one process lifetime recur in another one under the same key", k, common),
                    json!({"nonce_case": NonceCase { proto: p, history: vec![HOp::NewGeneric, HOp::ClaimsSame, HOp::Build], script: vec![] }, "cross_process": true}),
                );
            } else {
                pacc.bump("cross-process:distinct");
            }
        }
        all.merge(pacc);
    }

    // ---- more threads than a 16-bit counter can number: one token per thread, N threads one after the other
    //      (thread-per-request), N beyond 2^16 (thorough: beyond 2^17); all nonces distinct
    if !crate::report::profile().starts_with("cfg-") {
        let n_threads: usize = if quick { 66_000 } else { 132_000 };
        let mut tacc = Acc::default();
        let p = protos[protos.len() - 1];
        let mut seen: HashSet<Vec<u8>> = HashSet::with_capacity(n_threads);
        let mut built = 0usize;
        let batch = 64usize;
        let mut done = 0usize;
        while done < n_threads {
            let k = batch.min(n_threads - done);
            let got: Vec<Option<Vec<u8>>> = std::thread::scope(|s| {
                let hs: Vec<_> = (0..k)
                    .map(|_| {
                        s.spawn(move || {
                            adapter::freeze_default_clock();
                            let key = domains::official_key();
                            let ops = vec![BOp::Claim(ClaimSpec::auto("data", json!("same"))), BOp::Build];
                            let ev = adapter::build_history(p, Layer::Generic, &key, &ops);
                            match ev.last() {
                                Some(BEvent::Built(Out::Ok(t))) => wire_nonce(p, t),
                                _ => None,
                            }
                        })
                    })
                    .collect();
                hs.into_iter().map(|h| h.join().ok().flatten()).collect()
            });
            for g in got.into_iter().flatten() {
                built += 1;
                seen.insert(g);
            }
            done += k;
        }
        tacc.executions += built as u64;
        tacc.impl_calls += built as u64;
        if built == 0 {
            crate::report::machinery_error("the many-threads pass built no token");
        }
        if seen.len() != built {
            tacc.violate(
                format!("C10|{}|nonce-reuse-across-many-threads", p.name()),
                format!("{} threads, one after the other in batches of {}, each built one token with identical claims under one key: only {} distinct nonces", built, batch, seen.len()),
                json!({"nonce_case": NonceCase { proto: p, history: vec![HOp::NewGeneric, HOp::ClaimsSame, HOp::Build], script: vec![] }, "cross_process": true, "threads": built}),
            );
        } else {
            tacc.bump("many-threads:distinct");
        }
        tacc.notes.insert("many_threads".into(), json!({"threads": built, "distinct_nonces": seen.len(), "protocol": p.name()}));
        all.merge(tacc);
    }

    // ---- a thread that issues, stays idle, and issues again (a service between requests): nothing an idle period
    //      does - re-seeding, re-keying, trimming a pool - may bring earlier nonces back. Idle periods of 1.2 s and
    //      6 s of real time, once per run (release profile only: the pass costs wall-clock time, not work)
    if crate::report::profile() == "release" {
        let mut iacc = Acc::default();
        let mut per_proto: Vec<(Proto, Layer, HashSet<String>, usize)> = protos.iter().flat_map(|p| [Layer::Generic, Layer::Prelude].into_iter().map(move |l| (*p, l, HashSet::new(), 0usize))).collect();
        for round in 0..3 {
            for (p, l, seen, built) in per_proto.iter_mut() {
                for _ in 0..40 {
                    if let Some(n) = build_one_nonce(*p, *l) {
                        seen.insert(n);
                        *built += 1;
                    }
                }
            }
            if round == 0 {
                std::thread::sleep(std::time::Duration::from_millis(1_200));
            } else if round == 1 {
                std::thread::sleep(std::time::Duration::from_millis(6_000));
            }
        }
        for (p, l, seen, built) in &per_proto {
            iacc.executions += *built as u64;
            if *built == 0 {
                crate::report::machinery_error("the idle pass built no token");
            }
            if seen.len() != *built {
                iacc.violate(
                    format!("C10|{}|nonce-reuse-after-idle", p.name()),
                    format!("{}/{}: one thread built 40 tokens, was idle for 1.2 s, built 40, was idle for 6 s, built 40 (identical claims, one key): {} distinct nonces among {}", p.name(), l.name(), seen.len(), built),
                    json!({"nonce_case": NonceCase { proto: *p, history: vec![HOp::NewGeneric, HOp::ClaimsSame, HOp::Build], script: vec![] }, "cross_process": true, "idle": true}),
                );
            } else {
                iacc.bump("idle-pass:distinct");
            }
        }
        all.merge(iacc);
    }

    // ---- a forked copy of a process that has already drawn: parent and copy must not hand out the same nonces
    {
        let mut facc = Acc::default();
        let exe = std::env::current_exe().unwrap_or_else(|_| crate::report::machinery_error("no current_exe"));
        let o = std::process::Command::new(&exe).args(["C10", "--fork-child"]).output().unwrap_or_else(|_| crate::report::machinery_error("cannot spawn pvmc"));
        let txt = String::from_utf8_lossy(&o.stdout).to_string();
        let Some(v) = txt.lines().last().and_then(|l| serde_json::from_str::<Value>(l).ok()) else { crate::report::machinery_error("the fork pass produced no result") };
        for (k, r) in v.as_object().cloned().unwrap_or_default() {
            let list = |name: &str| -> Vec<String> { r[name].as_array().cloned().unwrap_or_default().iter().filter_map(|x| x.as_str().map(|s| s.to_string())).collect() };
            let (parent, forked) = (list("parent"), list("forked"));
            if r["spawned"] != json!(true) || forked.is_empty() {
                // no /bin/true, or fork refused: nothing observed, nothing decided by this pass
                facc.bump("fork-pass:unavailable");
                continue;
            }
            if parent.is_empty() {
                crate::report::machinery_error("the fork pass built no token in the parent");
            }
            facc.executions += (parent.len() + forked.len()) as u64;
            let all_n: HashSet<&String> = parent.iter().chain(forked.iter()).collect();
            let common = parent.iter().filter(|n| forked.contains(n)).count();
            let p = Proto::from_name(k.split('/').next().unwrap_or("")).unwrap_or(Proto::V4L);
            if common > 0 || all_n.len() != parent.len() + forked.len() {
                facc.violate(
                    format!("C10|{}|nonce-reuse-after-fork", p.name()),
                    format!("{}: after one build the process was duplicated with fork(); {} of the next 48 nonces of the parent equal nonces handed out by the forked copy under the same key ({} distinct among {})", k, common, all_n.len(), parent.len() + forked.len()),
                    json!({"nonce_case": NonceCase { proto: p, history: vec![HOp::NewGeneric, HOp::ClaimsSame, HOp::Build], script: vec![] }, "cross_process": true, "fork": true}),
                );
            } else {
                facc.bump("fork-pass:distinct");
            }
        }
        all.merge(facc);
    }

    // ---- free-running, several threads at once under one key: nonces must be distinct across threads too
    {
        let per_thread = if quick { 512 } else { 4096 };
        let threads = 6usize;
        let mut tacc = Acc::default();
        for p in &protos {
            for l in [Layer::Generic, Layer::Prelude] {
                let sets: Vec<Vec<Vec<u8>>> = std::thread::scope(|s| {
                    let hs: Vec<_> = (0..threads)
                        .map(|_| {
                            s.spawn(|| {
                                adapter::freeze_default_clock();
                                let key = domains::official_key();
                                let ops = vec![BOp::Claim(ClaimSpec::auto("data", json!("same"))), BOp::Build];
                                let mut v = Vec::with_capacity(per_thread);
                                for _ in 0..per_thread {
                                    let (ev, _) = adapter::with_rng_observer(|| adapter::build_history(*p, l, &key, &ops));
                                    if let Some(BEvent::Built(Out::Ok(t))) = ev.last() {
                                        if let Some(n) = wire_nonce(*p, t) {
                                            v.push(n);
                                        }
                                    }
                                }
                                v
                            })
                        })
                        .collect();
                    hs.into_iter().map(|h| h.join().unwrap_or_default()).collect()
                });
                let total: usize = sets.iter().map(|v| v.len()).sum();
                let distinct: HashSet<&Vec<u8>> = sets.iter().flatten().collect();
                tacc.executions += total as u64;
                tacc.impl_calls += total as u64;
                tacc.bump_n("multi-thread-builds", total as u64);
                if total != threads * per_thread {
                    tacc.violate(format!("C10|{}|multi-thread-build-failed", p.name()), "a build failed in the multi-thread pass".into(), json!({"nonce_case": NonceCase { proto: *p, history: vec![HOp::NewGeneric, HOp::ClaimsSame, HOp::Build], script: vec![] }}));
                }
                if distinct.len() != total {
                    tacc.violate(
                        format!("C10|{}|nonce-reuse-across-threads", p.name()),
                        format!("{} threads x {} builds under one key ({} layer): only {} distinct nonces among {}", threads, per_thread, l.name(), distinct.len(), total),
                        json!({"nonce_case": NonceCase { proto: *p, history: vec![HOp::NewGeneric, HOp::ClaimsSame, HOp::Build], script: vec![] }, "multi_thread": true}),
                    );
                }
            }
        }
        tacc.notes.insert("multi_thread_pass".into(), json!({"threads": threads, "builds_per_thread": per_thread, "per": "version x layer"}));
        all.merge(tacc);
    }

    all.states = all.distinct.len() as u64;
    let untapped = *all.hist.get("tap-not-on-the-nonce-path").unwrap_or(&0);
    if untapped > 0 {
        println!("NOTE C10: {} histories saw no RNG draw at the H1 tap (the nonce source no longer passes through Key::try_new_random); the scripted analysis was skipped for them", untapped);
        all.notes.insert("scripted_analysis_skipped_histories".into(), json!(untapped));
    }
    if all.controls_ok == 0 && untapped == 0 {
        crate::report::machinery_error("C10: no build was re-derived at the core layer (vacuous)");
    }
    let extra = json!({
        "space": "v1..v4 local x all call histories over {new generic builder, new batteries-included builder, set same claims, set other claims, set footer, build} up to the stated length under a scripted RNG; all single-bit-apart draw pairs; free-running N builds per version and layer",
        "max_history_length": max_len,
        "free_running_builds_per_version_and_layer": n_builds,
        "not_decided_here": "unpredictability / uniformity of the OS random source; the per-bit frequency figure is sampling and auxiliary",
        "distinct_rule": "distinct wire nonces observed",
        "caps_hit": [],
    });
    run.finish(&all, true, extra, &["ring::rand::SystemRandom is trusted to be a CSPRNG; what is checked is that every nonce is the specification's function of one fresh draw from it and of nothing else", "H1 (RNG tap) is additive: the real RNG fills the buffer first; the free-running pass only observes"])
}

pub fn replay(case: &Value) -> i32 {
    let Ok(nc) = serde_json::from_value::<NonceCase>(case["nonce_case"].clone()) else { crate::report::machinery_error("replay file has no nonce_case") };
    let mut acc = Acc::default();
    if nc.script.is_empty() {
        println!("free-running case: re-run `./check C10 quick` (real randomness cannot be replayed); running the history once for information");
    }
    evaluate(&nc, &mut acc);
    for v in &acc.violations {
        println!("VIOLATION property=C10 replay=(this file)\n  key:  {}\n  what: {}", v.key, v.what);
    }
    if acc.violations.is_empty() {
        println!("replay: property holds on this case");
        0
    } else {
        1
    }
}
