//! C08: tokens are exactly the specification's. Engine A enumerates the C01/C02 input space at the core
//! layer; the oracle is R1, the independent pure-Python transcription of the PASETO specification
//! (/verif/spec), itself pinned to the official vectors by its self-test on every run.

use crate::adapter::{self, Layer, Out, Proto};
use crate::b64;
use crate::cases::IssueCase;
use crate::domains::{self, KeyMat};
use crate::explore::{explore, par_units, Chooser};
use crate::report::{machinery_error, verif_dir, Acc, Run};
use serde_json::{json, Value};
use std::collections::HashMap;
use std::io::{BufRead, Write};
use std::process::Command;

struct Alphabet {
    keys: Vec<KeyMat>,
    seeds: Vec<Vec<u8>>,
    lengths: Vec<usize>,
    classes: usize,
    footers: Vec<Option<String>>,
    assertions: Vec<Option<String>>,
}

fn alphabet(p: Proto, lengths: Vec<usize>) -> Alphabet {
    Alphabet {
        keys: domains::key_pool(p),
        seeds: if p.is_local() { domains::seeds(p) } else { vec![vec![]] },
        lengths,
        classes: domains::MSG_CLASSES,
        footers: domains::footers(),
        assertions: if p.has_assertion() { domains::assertions() } else { vec![None] },
    }
}

fn reduced(p: Proto) -> Alphabet {
    let a = alphabet(p, vec![0, 17, 65]);
    Alphabet {
        keys: a.keys.into_iter().take(2).collect(),
        seeds: a.seeds.into_iter().enumerate().filter(|(i, _)| *i == 0 || *i == 2).map(|(_, s)| s).collect(),
        lengths: a.lengths,
        classes: domains::MSG_CLASSES,
        footers: a.footers.into_iter().take(3).collect(),
        assertions: a.assertions.into_iter().take(3).collect(),
    }
}

struct Emitted {
    case: IssueCase,
    key_ref: String,
    token: String,
}

fn body(c: &mut Chooser, p: Proto, al: &Alphabet, fixed_key: Option<usize>, out: &mut Vec<Emitted>, acc: &mut Acc) {
    let ki = match fixed_key {
        Some(k) => k,
        None => c.choose("key", al.keys.len()),
    };
    let si = c.choose("seed", al.seeds.len());
    let li = c.choose("len", al.lengths.len());
    let ci = c.choose("class", al.classes);
    let fi = c.choose("footer", al.footers.len());
    let ai = c.choose("assertion", al.assertions.len());
    let msg = domains::message(al.lengths[li], ci);
    let seed = if p.is_local() { Some(al.seeds[si].as_slice()) } else { None };
    let case = IssueCase::new(p, Layer::Core, &al.keys[ki], seed, &msg, &al.footers[fi], &al.assertions[ai]);
    acc.executions += 1;
    acc.impl_calls += 1;
    match case.issue() {
        Out::Ok(token) => out.push(Emitted { case, key_ref: al.keys[ki].secret_for_ref.clone(), token }),
        other => {
            acc.violate(format!("C08|{}|issue:{}", p.name(), other.short()), format!("issuing failed: {}", other.short()), json!({"issue": case}));
        }
    }
}

fn hexo(s: &Option<String>) -> Value {
    match s {
        Some(x) => json!(b64::hex(x.as_bytes())),
        None => Value::Null,
    }
}

pub fn selftest_r1() {
    let out = Command::new("python3").arg(verif_dir().join("spec/selftest.py")).output().unwrap_or_else(|_| machinery_error("cannot run spec/selftest.py"));
    let txt = String::from_utf8_lossy(&out.stdout);
    if !out.status.success() || !txt.contains("SPEC-SELFTEST-OK") {
        machinery_error(&format!("the specification reference R1 fails its own self-test against the official vectors: {}", txt.lines().last().unwrap_or("")));
    }
}

pub fn run(tier: &str) -> i32 {
    let run = Run::new("C08", tier);
    let quick = tier == "quick";
    selftest_r1();
    let mut all = Acc::default();
    let mut emitted: Vec<Emitted> = Vec::new();
    let mut phases = Vec::new();

    // phase 1: deviation <= 2 over the full alphabet (including the 64 KiB lengths)
    {
        let units: Vec<Proto> = Proto::ALL.to_vec();
        let res = par_units(&units, |p| {
            let lens = if quick { domains::quick_lengths() } else { domains::MSG_LENGTHS.to_vec() };
            let al = alphabet(*p, lens);
            let mut acc = Acc::default();
            let mut out = Vec::new();
            let (_, pts) = explore(Some(2), |c| body(c, *p, &al, None, &mut out, &mut acc));
            acc.choice_points += pts;
            (acc, out)
        });
        let mut n = 0;
        for (a, o) in res {
            n += a.executions;
            all.merge(a);
            emitted.extend(o);
        }
        phases.push(json!({"phase": "deviation<=2, full alphabet", "executions": n}));
    }
    // phase 2: full product (quick: reduced alphabet; thorough: every length <= 4097)
    {
        let mut units: Vec<(Proto, usize)> = Vec::new();
        for p in Proto::ALL {
            let nk = if quick { reduced(p).keys.len() } else { domains::key_pool(p).len() };
            for k in 0..nk {
                units.push((p, k));
            }
        }
        let res = par_units(&units, |(p, k)| {
            let al = if quick { reduced(*p) } else { alphabet(*p, domains::MSG_LENGTHS[..27].to_vec()) };
            let mut acc = Acc::default();
            let mut out = Vec::new();
            let (_, pts) = explore(None, |c| body(c, *p, &al, Some(*k), &mut out, &mut acc));
            acc.choice_points += pts;
            (acc, out)
        });
        let mut n = 0;
        for (a, o) in res {
            n += a.executions;
            all.merge(a);
            emitted.extend(o);
        }
        phases.push(json!({"phase": if quick {"full product, reduced alphabet"} else {"full product, lengths <= 4097"}, "executions": n}));
    }

    // phase 3: tokens made by the generic and batteries-included builders (scripted nonce), compared with the
    // reference for the payload the builder serialised (read back at the core layer)
    {
        let units: Vec<Proto> = Proto::ALL.to_vec();
        let res = par_units(&units, |p| {
            let al = reduced(*p);
            let mut acc = Acc::default();
            let mut out = Vec::new();
            for layer in [Layer::Generic, Layer::Prelude] {
                for fi in 0..al.footers.len() {
                    for ai in 0..al.assertions.len() {
                        let seed = if p.is_local() { Some(al.seeds[1].as_slice()) } else { None };
                        let upper = IssueCase::new(*p, layer, &al.keys[0], seed, "builder \u{00e9}", &al.footers[fi], &al.assertions[ai]);
                        acc.executions += 1;
                        acc.impl_calls += 2;
                        let Out::Ok(token) = upper.issue() else { continue };
                        let Out::Ok(payload) = adapter::core_present(*p, &upper.pk(), &token, upper.footer.as_deref(), upper.assertion.as_deref()) else { continue };
                        // the equivalent core-layer case: same key, seed, footer, assertion; message = that payload
                        let core = IssueCase::new(*p, Layer::Core, &al.keys[0], seed, &payload, &al.footers[fi], &al.assertions[ai]);
                        out.push(Emitted { case: core, key_ref: al.keys[0].secret_for_ref.clone(), token });
                    }
                }
            }
            (acc, out)
        });
        let mut n = 0;
        for (a, o) in res {
            n += a.executions;
            all.merge(a);
            emitted.extend(o);
        }
        phases.push(json!({"phase": "tokens built by GenericBuilder / PasetoBuilder (scripted nonce), compared for the payload they serialised", "executions": n}));
    }

    // phase 4: core builder used twice / configured in another call order: every token is the specification's
    {
        for p in Proto::ALL {
            let al = reduced(p);
            let seed_v = if p.is_local() { al.seeds[1].clone() } else { vec![] };
            let seed = if p.is_local() { Some(seed_v.as_slice()) } else { None };
            let (f, a) = (Some("footer-one".to_string()), if p.has_assertion() { Some("{\"assertion\":\"one\"}".to_string()) } else { None });
            let (m1, m2) = ("{\"data\":\"first\"}", "{\"data\":\"second\"}");
            let twice = adapter::core_issue_twice(p, &al.keys[0].sk, &seed_v, m1, f.as_deref(), a.as_deref());
            let orders = adapter::core_issue_orders(p, &al.keys[0].sk, &seed_v, m1, m2, f.as_deref(), a.as_deref());
            for (t, m) in twice.iter().zip([m1, m1]).chain(orders.iter().zip([m1, m2, m2])) {
                all.executions += 1;
                if let Out::Ok(token) = t {
                    emitted.push(Emitted { case: IssueCase::new(p, Layer::Core, &al.keys[0], seed, m, &f, &a), key_ref: al.keys[0].secret_for_ref.clone(), token: token.clone() });
                }
            }
        }
        phases.push(json!({"phase": "core builder reused / other setter orders", "executions": 32}));
    }

    // phase 4b: key material rotated in place - one buffer holds the key bytes, is overwritten with the next
    // key of the same length and used again (what a key-rotation routine does): every token must be the
    // specification's token for the key that was in the buffer when it was made
    {
        let mut n = 0;
        for p in Proto::ALL {
            let al = reduced(p);
            let pool = domains::key_pool(p);
            let seed_v = if p.is_local() { al.seeds[1].clone() } else { vec![] };
            let seed = if p.is_local() { Some(seed_v.as_slice()) } else { None };
            let (f, a) = (Some("rotating".to_string()), if p.has_assertion() { Some("{\"assertion\":\"one\"}".to_string()) } else { None });
            let m = "{\"data\":\"rotation\"}";
            let Some(first) = pool.iter().find(|k| pool.iter().filter(|o| o.sk.len() == k.sk.len()).count() >= 2) else { continue };
            let same_len: Vec<&crate::domains::KeyMat> = pool.iter().filter(|k| k.sk.len() == first.sk.len()).take(4).collect();
            let mut buf = same_len[0].sk.clone();
            // A, B, A, B: both directions of the change
            for k in same_len.iter().chain(same_len.iter()) {
                buf.copy_from_slice(&k.sk);
                all.executions += 1;
                n += 1;
                if let Out::Ok(token) = adapter::core_issue(p, &buf, &seed_v, m, f.as_deref(), a.as_deref()) {
                    emitted.push(Emitted { case: IssueCase::new(p, Layer::Core, k, seed, m, &f, &a), key_ref: k.secret_for_ref.clone(), token });
                }
            }
        }
        phases.push(json!({"phase": "key material rotated in place (same buffer, next key)", "executions": n}));
    }

    // phase 4c: tokens of the reference whose message is not UTF-8: the library cannot return that message, so
    // every core entry point must answer with an error (never with another text)
    {
        let mut n = 0;
        for t in crate::cases::foreign_tokens() {
            let Some(p) = Proto::from_name(t["proto"].as_str().unwrap_or("")) else { continue };
            let key = domains::key_pool(p)[0].clone();
            let back = adapter::core_present(p, &key.pk, t["token"].as_str().unwrap_or(""), t["footer"].as_str(), None);
            all.executions += 1;
            n += 1;
            let want_msg = crate::b64::unhex(t["msg_hex"].as_str().unwrap_or("")).unwrap_or_default();
            let ok = if t["valid_utf8"] == json!(true) { matches!(&back, Out::Ok(m) if m.as_bytes() == want_msg.as_slice()) } else { back.is_err() };
            if !ok {
                all.violate(
                    format!("C08|{}|foreign-non-utf8-message", p.name()),
                    format!("a token of the reference over the message {} (valid UTF-8: {}) -> {}: expected {}", t["msg_hex"].as_str().unwrap_or(""), t["valid_utf8"], back.short(), if t["valid_utf8"] == json!(true) { "that message" } else { "an error (the message cannot be returned as text)" }),
                    json!({"foreign": t}),
                );
            }
        }
        phases.push(json!({"phase": "reference-made tokens over messages that are not UTF-8", "executions": n}));
    }

    // phase 4d: messages beyond a megabyte (block-wise processing usually starts somewhere): 1 MiB + 1 for every
    // protocol (thorough: also 2 MiB + 1 and 4 MiB + 1), with a footer and, where the protocol has one, an assertion
    {
        let mut n = 0;
        let lens: Vec<usize> = if quick { vec![1_048_577] } else { vec![1_048_577, 2_097_153, 4_194_305] };
        let cfg_mode = crate::report::profile().starts_with("cfg-");
        for p in Proto::ALL {
            // quick: the protocols whose reference is fast at this size; feature-configuration builds: none
            if cfg_mode || (quick && !matches!(p, Proto::V4L | Proto::V2L | Proto::V4P)) {
                continue;
            }
            let al = reduced(p);
            let seed_v = if p.is_local() { al.seeds[1].clone() } else { vec![] };
            let seed = if p.is_local() { Some(seed_v.as_slice()) } else { None };
            let (f, a) = (Some("big".to_string()), if p.has_assertion() { Some("{\"assertion\":\"big\"}".to_string()) } else { None });
            for len in &lens {
                let msg = domains::message(*len, 1);
                let case = IssueCase::new(p, Layer::Core, &al.keys[0], seed, &msg, &f, &a);
                all.executions += 1;
                n += 1;
                match case.issue() {
                    Out::Ok(token) => emitted.push(Emitted { case, key_ref: al.keys[0].secret_for_ref.clone(), token }),
                    other => all.violate(format!("C08|{}|issue-large:{}", p.name(), other.short()), format!("issuing a {}-byte message failed: {}", len, other.short()), json!({"issue": {"proto": p.name(), "len": len}})),
                }
            }
        }
        phases.push(json!({"phase": "messages beyond a megabyte", "executions": n, "lengths": lens}));
    }

    // phase 5: nonce seeds (found by search with the reference, fixtures/ctr_wrap.json, re-verified here) whose
    // derived AES-CTR IV is within 64 blocks of a 2^32 wrap of its low word: a counter narrower than the
    // specification's 128 bits diverges inside a 1 025-byte message
    {
        let ok = Command::new("python3").arg(verif_dir().join("spec/find_ctr_wrap.py")).arg("--verify").output().map(|o| o.status.success()).unwrap_or(false);
        if !ok {
            machinery_error("fixtures/ctr_wrap.json does not verify against the reference");
        }
        let txt = std::fs::read_to_string(verif_dir().join("fixtures/ctr_wrap.json")).unwrap_or_else(|_| machinery_error("missing fixtures/ctr_wrap.json"));
        let fx: Value = serde_json::from_str(&txt).unwrap_or_else(|_| machinery_error("ctr_wrap.json is not JSON"));
        let mut n = 0;
        for (p, field) in [(Proto::V3L, "nonce"), (Proto::V1L, "seed")].into_iter().filter(|(p, _)| p.enabled()) {
            let key = &domains::key_pool(p)[0];
            for e in fx[p.name()].as_array().cloned().unwrap_or_default() {
                let Some(seed) = e[field].as_str().and_then(b64::unhex) else { continue };
                let lens: &[usize] = if p == Proto::V1L { &[1025] } else { &[1025, 4097, 65537] };
                for len in lens {
                    let case = IssueCase::new(p, Layer::Core, key, Some(&seed), &domains::message(*len, 0), &None, &None);
                    all.executions += 1;
                    n += 1;
                    if let Out::Ok(token) = case.issue() {
                        emitted.push(Emitted { case, key_ref: key.secret_for_ref.clone(), token });
                    }
                }
            }
        }
        phases.push(json!({"phase": "AES-CTR counter-wrap seeds (v1.local, v3.local)", "executions": n}));
    }

    // hand the cases to R1
    let dir = verif_dir().join("target").join("c08");
    let _ = std::fs::create_dir_all(&dir);
    let inp = dir.join(format!("cases-{}.jsonl", tier));
    let outp = dir.join(format!("results-{}.jsonl", tier));
    {
        let mut f = std::io::BufWriter::new(std::fs::File::create(&inp).unwrap_or_else(|_| machinery_error("cannot write case file")));
        for (id, e) in emitted.iter().enumerate() {
            let c = &e.case;
            let rec = json!({
                "id": id, "proto": c.proto.name(), "key": e.key_ref,
                "pk": if c.proto.is_local() || c.proto == Proto::V1P { Value::Null } else { json!(c.pk_hex) },
                "seed": c.seed_hex, "msg": b64::hex(c.msg.as_bytes()),
                "footer": hexo(&c.footer), "assertion": hexo(&c.assertion), "footer_set": c.footer.is_some(),
                "token": e.token,
            });
            writeln!(f, "{}", rec).unwrap();
        }
    }
    let _ = std::fs::remove_file(&outp);
    let st = Command::new("python3")
        .arg(verif_dir().join("spec/check_cases.py"))
        .arg(&inp)
        .arg(&outp)
        .args(["--procs", "16"])
        .output()
        .unwrap_or_else(|_| machinery_error("cannot run spec/check_cases.py"));
    let summary = String::from_utf8_lossy(&st.stdout).lines().last().unwrap_or("").to_string();
    if !st.status.success() || !summary.starts_with("SPEC-CHECK") {
        machinery_error(&format!("spec/check_cases.py failed: {} {}", summary, String::from_utf8_lossy(&st.stderr).lines().last().unwrap_or("")));
    }
    let mut results: HashMap<usize, Value> = HashMap::new();
    let f = std::fs::File::open(&outp).unwrap_or_else(|_| machinery_error("no result file from R1"));
    for line in std::io::BufReader::new(f).lines() {
        let Ok(line) = line else { continue };
        if let Ok(v) = serde_json::from_str::<Value>(&line) {
            if let Some(id) = v["id"].as_u64() {
                results.insert(id as usize, v);
            }
        }
    }
    if results.len() != emitted.len() {
        machinery_error(&format!("R1 answered {} of {} cases", results.len(), emitted.len()));
    }

    // judge: R1's verdict on the library's token, and the library's verdict on R1's token
    let idx: Vec<usize> = (0..emitted.len()).collect();
    let chunks: Vec<&[usize]> = idx.chunks(2048).collect();
    let accs = par_units(&chunks, |chunk| {
        let mut acc = Acc::default();
        for &id in chunk.iter() {
            let e = &emitted[id];
            let r = &results[&id];
            let c = &e.case;
            let ref_token = r["ref_token"].as_str().unwrap_or("");
            acc.see(&e.token);
            if r["ok"].as_bool() != Some(true) {
                let empty_footer_dot = c.footer.as_deref() == Some("") && e.token.ends_with('.') && (c.proto.is_local() && e.token[..e.token.len() - 1] == *ref_token || !c.proto.is_local());
                let kind = if empty_footer_dot { "empty-footer-trailing-dot" } else if c.proto.is_local() { "token-differs-from-spec" } else { "not-valid-under-spec" };
                acc.bump(&format!("r1-rejects:{}", kind));
                acc.violate(
                    format!("C08|{}|{}", c.proto.name(), kind),
                    format!("the library's token is not the specification's: {} (library: {} / spec: {})", r["why"].as_str().unwrap_or(""), abbreviate(&e.token), abbreviate(ref_token)),
                    json!({"issue": c, "library_token": e.token, "spec_token": ref_token, "r1_why": r["why"]}),
                );
            } else {
                acc.bump("r1-accepts-library-token");
                acc.controls_ok += 1;
            }
            if !ref_token.is_empty() {
                acc.impl_calls += 1;
                let back = adapter::core_present(c.proto, &c.pk(), ref_token, c.footer.as_deref(), c.assertion.as_deref());
                match back {
                    Out::Ok(m) if m == c.msg => acc.bump("library-accepts-spec-token"),
                    other => {
                        acc.bump("library-refuses-spec-token");
                        acc.violate(
                            format!("C08|{}|spec-token-refused:{}", c.proto.name(), match &other { Out::Ok(_) => "different-message".to_string(), o => o.short() }),
                            format!("a token produced by the specification's algorithm is not accepted by the library: {}", other.short()),
                            json!({"issue": c, "library_token": e.token, "spec_token": ref_token}),
                        );
                    }
                }
            }
            if acc.samples.len() < 1 && id % 977 == 0 {
                let mut b = c.brief();
                b["library_token"] = json!(abbreviate(&e.token));
                b["byte_identical_to_spec"] = json!(e.token == ref_token);
                acc.sample(b);
            }
        }
        acc
    });
    all.merge(Acc::merge_all(accs));
    all.states = all.distinct.len() as u64;
    if all.controls_ok == 0 && all.violation_count == 0 {
        machinery_error("C08: nothing was compared");
    }
    let extra = json!({
        "space": "protocol x key (pair) x nonce seed x message(length x class) x footer x assertion at the core layer, each compared with the independent specification reference R1 in both directions",
        "phases": phases,
        "cases_sent_to_reference": emitted.len(),
        "reference_summary": summary,
        "reference_selftest": "SPEC-SELFTEST-OK (all official v1-v4 vectors recomputed before this run)",
        "distinct_rule": "distinct library tokens compared",
        "deviation_bound_completed": 2,
        "caps_hit": if quick { json!([]) } else { json!(["the 64 KiB lengths are covered on the deviation<=2 part only (pure-Python reference cost)"]) },
    });
    run.finish(&all, true, extra, &["R1 (pure-Python transcription of Version1-4.md + Common.md over hashlib / own primitives) is the trusted oracle; it shares no code with the crate or its dependencies and is pinned to the official vectors on every run"])
}

fn abbreviate(s: &str) -> String {
    if s.len() > 100 {
        format!("{}...{} ({} chars)", &s[..60], &s[s.len() - 24..], s.len())
    } else {
        s.to_string()
    }
}

pub fn replay(case: &Value) -> i32 {
    // re-issue on the library and compare with the recorded specification token
    let Ok(ic) = serde_json::from_value::<IssueCase>(case["issue"].clone()) else { machinery_error("replay file has no issue case") };
    let spec = case["spec_token"].as_str().unwrap_or("");
    let lib = ic.issue();
    println!("library now produces: {}", lib.ok().map(|t| abbreviate(t)).unwrap_or_else(|| lib.short()));
    println!("specification token : {}", abbreviate(spec));
    let back = adapter::core_present(ic.proto, &ic.pk(), spec, ic.footer.as_deref(), ic.assertion.as_deref());
    println!("library on the specification token: {}", back.short());
    let same = if ic.proto.is_local() { lib.ok().map(|t| t == spec).unwrap_or(false) } else { lib.ok().map(|t| t.ends_with('.') == spec.ends_with('.') && t.split('.').count() == spec.split('.').count()).unwrap_or(false) };
    if same && matches!(&back, Out::Ok(m) if *m == ic.msg) {
        println!("replay: property holds on this case");
        0
    } else {
        println!("VIOLATION property=C08 replay=(this file)");
        1
    }
}
