//! C11 (exp) and C12 (nbf): the default batteries-included parser and time claims.
//! Engine A over the rendering space of an instant (every UTC offset, fractional-second form, separator)
//! around a frozen clock (hook H2); oracle R4 (`rfc3339`), applied to the *string* the token carries.

use crate::adapter::{self, Layer, Out, POp, PEvent, Proto};
use crate::b64;
use crate::domains;
use crate::explore::{explore, par_units};
use crate::report::{Acc, Run};
use crate::rfc3339::{self, Class, ZForm};
use serde::{Deserialize, Serialize};
use serde_json::{json, Value};

const S: i128 = 1_000_000_000;

#[derive(Clone, Debug, Serialize, Deserialize)]
pub struct TimeCase {
    pub proto: Proto,
    /// frozen clock, ns since the epoch; None = real clock (free-running rows)
    pub now_ns: Option<String>,
    /// the JSON text of the payload carried by the token
    pub payload: String,
}

fn clocks() -> Vec<i128> {
    vec![
        1_781_526_896_123_456_789,                                                 // 2026-06-15T12:34:56.123456789Z
        (rfc3339::days_from_civil(2027, 3, 9) as i128 * 86400 + 86398) * S + S / 2, // 2027-03-09T23:59:58.5Z
        (rfc3339::days_from_civil(2028, 2, 29) as i128 * 86400 + 43200) * S,         // 2028-02-29T12:00:00Z
        (rfc3339::days_from_civil(2029, 12, 31) as i128 * 86400 + 84600) * S + 1,    // 2029-12-31T23:30:00.000000001Z
    ]
}

/// instants relative to now (ns); absolute ones are given as offsets from `now`
fn rel_instants(now: i128) -> Vec<i128> {
    let y1971 = rfc3339::days_from_civil(1971, 1, 1) as i128 * 86400 * S;
    let y9000 = rfc3339::days_from_civil(9000, 6, 15) as i128 * 86400 * S;
    vec![
        0,
        -1,
        1,
        -S,
        S,
        -2 * S,
        2 * S,
        60 * S,
        -3600 * S,
        3600 * S,
        -86400 * S,
        86400 * S,
        -3652 * 86400 * S,
        3652 * 86400 * S,
        y1971 - now,
        y9000 - now,
    ]
}

fn key_for(p: Proto) -> domains::KeyMat {
    domains::key_pool(p)[0].clone()
}

/// issue a core-layer token carrying `payload`, parse it with PasetoParser::default()
fn parse_default(p: Proto, payload: &str) -> Out<Value> {
    let key = key_for(p);
    let seed = if p.is_local() { domains::seeds(p)[0].clone() } else { vec![] };
    let token = match adapter::core_issue(p, &key.sk, &seed, payload, None, None) {
        Out::Ok(t) => t,
        Out::Err(e) => return Out::Err(adapter::ErrClass::Harness(format!("issue: {:?}", e))),
        Out::Panic(l) => return Out::Panic(l),
    };
    let ev = adapter::parse_history(p, Layer::Prelude, true, &[key.pk.clone()], &[token], &[POp::Parse(0, 0)]);
    match ev.into_iter().last() {
        Some(PEvent::Parsed(o, _)) => o,
        _ => Out::Err(adapter::ErrClass::Harness("no parse event".into())),
    }
}

#[derive(Clone, Copy, PartialEq, Eq, Debug)]
enum Want {
    Accept,
    Reject,
    Either,
}

fn want_for_string(claim: &str, s: &str, now: i128) -> (Want, &'static str) {
    let y1971 = rfc3339::days_from_civil(1971, 1, 1) as i128 * 86400 * S;
    let y9000 = rfc3339::days_from_civil(9001, 1, 1) as i128 * 86400 * S;
    match rfc3339::parse(s) {
        None => (Want::Reject, "not-rfc3339"),
        Some((class, t)) => {
            let (must_reject, must_accept) = if claim == "exp" { (t <= now, t > now) } else { (t > now, t < now) };
            if must_reject {
                (Want::Reject, if claim == "exp" { "expired" } else { "not-yet-valid" })
            } else if must_accept && class == Class::Strict && (y1971..=y9000).contains(&t) {
                // acceptance is only demanded inside the quantifier's range of instants (1971 .. 9000)
                (Want::Accept, "valid")
            } else {
                // lenient renderings of a valid instant, and nbf == now exactly
                (Want::Either, "latitude")
            }
        }
    }
}

fn json_type(v: &Value) -> &'static str {
    match v {
        Value::Null => "null",
        Value::Bool(_) => "boolean",
        Value::Number(_) => "number",
        Value::String(_) => "string",
        Value::Array(_) => "array",
        Value::Object(_) => "object",
    }
}

/// expectation for a whole payload under the default parser: every constrained claim must hold
fn expectation(prop: &str, payload: &Value, now: i128) -> (Want, String) {
    let mut want = Want::Accept;
    let mut why = String::from("valid");
    for claim in ["exp", "nbf"] {
        let v = &payload[claim];
        let (w, k): (Want, String) = match v {
            Value::Null => (if payload.get(claim).is_some() { Want::Either } else { Want::Accept }, "absent-or-null".into()),
            Value::String(s) => {
                let (w, k) = want_for_string(claim, s, now);
                (w, k.to_string())
            }
            other => (Want::Reject, format!("non-timestamp:{}", json_type(other))),
        };
        // C11 constrains exp, C12 constrains nbf and independent combinations of both
        let _ = prop;
        match (want, w) {
            (_, Want::Reject) => {
                want = Want::Reject;
                why = format!("{}:{}", claim, k);
                break;
            }
            (Want::Accept, Want::Either) => {
                want = Want::Either;
                why = format!("{}:{}", claim, k);
            }
            _ => {}
        }
    }
    (want, why)
}

pub fn evaluate(prop: &str, case: &TimeCase, acc: &mut Acc) {
    let now_opt: Option<i128> = case.now_ns.as_ref().and_then(|s| s.parse().ok());
    match now_opt {
        Some(n) => adapter::set_clock(Some(time::OffsetDateTime::from_unix_timestamp_nanos(n).expect("clock"))),
        None => adapter::set_clock(None),
    }
    let now = now_opt.unwrap_or_else(|| time::OffsetDateTime::now_utc().unix_timestamp_nanos());
    let Ok(pv) = serde_json::from_str::<Value>(&case.payload) else { crate::report::machinery_error("time case payload is not JSON") };
    let (want, why) = expectation(prop, &pv, now);
    let obs = parse_default(case.proto, &case.payload);
    acc.executions += 1;
    acc.impl_calls += 2;
    acc.see(&(case.proto, &case.payload, &case.now_ns));
    let got_ok = obs.is_ok();
    acc.bump(&format!("{}->{}", why.split(':').take(2).collect::<Vec<_>>().join(":"), if got_ok { "accepted" } else { "rejected" }));
    let fail = |acc: &mut Acc, kind: String, what: String| {
        acc.violate(format!("{}|{}|{}", prop, case.proto.name(), kind), what, json!({"time_case": case}));
    };
    match (&obs, want) {
        (Out::Panic(l), _) => fail(acc, format!("panic|{}", adapter::panic_site(l)), format!("default parser panicked at {}", l)),
        (Out::Err(adapter::ErrClass::Harness(h)), _) => crate::report::machinery_error(&format!("time case could not be issued: {}", h)),
        (Out::Ok(_), Want::Reject) => fail(acc, format!("accepted:{}", why), format!("the default parser accepted a token that must be rejected ({}) - payload {} at now={:?}", why, case.payload, case.now_ns)),
        (Out::Err(e), Want::Accept) => fail(acc, format!("rejected-valid:{}", e.short()), format!("the default parser rejected a valid token with {:?} - payload {} at now={:?}", e, case.payload, case.now_ns)),
        (Out::Ok(_), Want::Accept) => acc.controls_ok += 1,
        _ => {}
    }
    adapter::freeze_default_clock();
}

fn payload_for(claim: &str, s: &str) -> String {
    format!("{{\"{}\":{}}}", claim, serde_json::to_string(s).unwrap())
}

fn non_timestamp_values(claim: &str) -> Vec<String> {
    // instants inside the strings are on the *accepting* side (far future for exp, far past for nbf) so
    // that acceptance cannot be explained by the instant
    let y = if claim == "exp" { "2999" } else { "1999" };
    let mut v: Vec<String> = ["0", "1", "1e10", "-1", "1.5", "99999999999", "true", "false", "[]", "{}", "\"\"", "\" \"", "\"hello\"", "\"never\""].iter().map(|s| s.to_string()).collect();
    v.push(format!("[\"{}-01-01T00:00:00Z\"]", y));
    v.push(format!("{{\"t\":\"{}-01-01T00:00:00Z\"}}", y));
    v.push(format!("\"{}-01-01\"", y));
    v.push(format!("\"{}-01-01T00:00:00\"", y));
    v.push(format!("\"{}-01-01T00:00:00Zjunk\"", y));
    v.push(format!("\" {}-01-01T00:00:00Z\"", y));
    v.push(format!("\"{}-01-01T00:00:00Z \"", y));
    v.push(format!("\"{}-13-01T00:00:00Z\"", y));
    v.push(format!("\"{}-02-30T00:00:00Z\"", y));
    v.push(format!("\"{}-01-01T24:00:00Z\"", y));
    v.push(format!("\"{}-01-01T00:00:00+24:00\"", y));
    v.push(format!("\"{}-01-01T00:00:00+0000\"", y));
    v.push(format!("\"{}0101T000000Z\"", y));
    v.push(format!("\"{}-1-1T0:0:0Z\"", y));
    v.push(format!("\"1{}-01-01T00:00:00Z\"", y));
    // a complete timestamp (every strict shape, up to the longest one: nine fraction digits and a numeric offset)
    // with text before or after it is text, not a timestamp - whatever a parser does with a prefix, a first
    // line or the first N bytes. `other` is a complete timestamp on the rejecting side.
    let other = if claim == "exp" { "1999-01-01T00:00:00Z" } else { "2999-01-01T00:00:00Z" };
    let bases = [
        format!("{}-01-01T00:00:00Z", y),
        format!("{}-01-01T00:00:00+00:00", y),
        format!("{}-01-01T00:00:00.5Z", y),
        format!("{}-01-01T00:00:00.123+05:30", y),
        format!("{}-01-01T00:00:00.123456789Z", y),
        format!("{}-01-01T00:00:00.123456789-23:59", y),
        format!("{}-01-01t00:00:00z", y),
        format!("{}-01-01 00:00:00Z", y),
    ];
    let long_tail = "9".repeat(9_000);
    for b in &bases {
        let mut texts: Vec<String> = Vec::new();
        for tail in ["junk", " ", "  ", "\n", "\r\n", "\r", "\t", "\u{0}", "Z", "z", "x", "0", ".", ",", ";", "+00:00", "[Europe/Paris]", "[u-ca=iso8601]", "\u{2028}", "\u{a0}", "\u{feff}", long_tail.as_str()] {
            texts.push(format!("{}{}", b, tail));
        }
        for sep in ["\n", "\r\n", " ", ",", "/", "\u{0}", "\t"] {
            texts.push(format!("{}{}{}", b, sep, other));
            texts.push(format!("{}{}{}", other, sep, b));
        }
        for head in [" ", "\n", "\r\n", "\t", "\u{feff}", "x", "+", "\u{0}", "\"", "0"] {
            texts.push(format!("{}{}", head, b));
        }
        for t in texts {
            v.push(serde_json::to_string(&t).unwrap());
        }
    }
    v
}

pub fn run(prop: &'static str, tier: &str) -> i32 {
    let run = Run::new(prop, tier);
    let quick = tier == "quick";
    let claim = if prop == "C11" { "exp" } else { "nbf" };
    let offsets = rfc3339::all_offsets();
    let clks = clocks();
    let fracs: Vec<usize> = if quick { vec![0, 3, 9] } else { (0..=9).collect() };

    // ---- v4.local: the rendering space. units = (clock, rel instant)
    let mut units: Vec<(usize, usize)> = Vec::new();
    for ci in 0..clks.len() {
        for ri in 0..16 {
            units.push((ci, ri));
        }
    }
    let accs = par_units(&units, |(ci, ri)| {
        let mut acc = Acc::default();
        let now = clks[*ci];
        let t = now + rel_instants(now)[*ri];
        // quick: the first clock gets every offset, the others every 37th
        let stride = if quick && *ci > 0 { 37 } else { 1 };
        let offs: Vec<i64> = offsets.iter().copied().step_by(stride).collect();
        let (_, pts) = explore(None, |c| {
            let off = offs[c.choose("utc offset", offs.len())];
            let k = fracs[c.choose("fraction digits", fracs.len())];
            let form = c.choose("separator / zone form", if off == 0 { 6 } else { 3 });
            let (sep, z) = match form {
                0 => ('T', ZForm::Numeric),
                1 => (' ', ZForm::Numeric),
                2 => ('t', ZForm::Numeric),
                3 => ('T', ZForm::Z),
                4 => ('T', ZForm::LowerZ),
                _ => ('T', ZForm::MinusZero),
            };
            let Some(s) = rfc3339::render(t, off, k, sep, z) else { return };
            let case = TimeCase { proto: Proto::workhorse(), now_ns: Some(now.to_string()), payload: payload_for(claim, &s) };
            evaluate(prop, &case, &mut acc);
            if acc.samples.is_empty() && off != 0 && k == 9 {
                acc.sample(json!({"proto": "v4.local", "now_ns": now.to_string(), "payload": case.payload, "t_minus_now_ns": (t - now).to_string()}));
            }
        });
        acc.choice_points += pts;
        acc
    });
    let mut all = Acc::merge_all(accs);

    // ---- every protocol: reduced rendering subset, non-timestamp values, absent claim, (exp, nbf) table
    let accs = par_units(&Proto::ALL.to_vec(), |p| {
        let mut acc = Acc::default();
        let now = clks[0];
        let some_offsets = [0i64, 19800, -28800, 86340, -86340];
        for r in rel_instants(now) {
            for off in some_offsets {
                for k in [0usize, 9] {
                    for (sep, z) in [('T', ZForm::Numeric), ('T', ZForm::Z), (' ', ZForm::Numeric)] {
                        if let Some(s) = rfc3339::render(now + r, off, k, sep, z) {
                            evaluate(prop, &TimeCase { proto: *p, now_ns: Some(now.to_string()), payload: payload_for(claim, &s) }, &mut acc);
                            acc.choice_points += 1;
                        }
                    }
                }
            }
        }
        // literal values that occur in the library's own source as placeholders of the default claims /
        // in its documentation: they are instants like any other (all in the past)
        for lit in ["2019-01-01T00:00:00+00:00", "2019-01-01T00:00:00Z", "2019-01-01T00:00:00.000+00:00", "1970-01-01T00:00:00Z", "0001-01-01T00:00:00Z"] {
            for c in ["exp", "nbf", "iat"] {
                evaluate(prop, &TimeCase { proto: *p, now_ns: Some(now.to_string()), payload: payload_for(c, lit) }, &mut acc);
                acc.choice_points += 1;
            }
        }
        for v in non_timestamp_values(claim) {
            evaluate(prop, &TimeCase { proto: *p, now_ns: Some(now.to_string()), payload: format!("{{\"{}\":{}}}", claim, v) }, &mut acc);
            acc.choice_points += 1;
        }
        // other registered claims do not decide: an issued-at in the future (a clock ahead at the issuer), an
        // audience, a subject ... next to an acceptable exp / nbf, or alone
        for pl in [
            "{\"iat\":\"2999-01-01T00:00:00Z\"}",
            "{\"iat\":\"2999-01-01T00:00:00Z\",\"exp\":\"2999-06-01T00:00:00Z\"}",
            "{\"iat\":\"2999-01-01T00:00:00Z\",\"nbf\":\"1999-01-01T00:00:00Z\"}",
            "{\"iat\":\"2999-01-01T00:00:00+05:30\",\"nbf\":\"1999-01-01T00:00:00Z\",\"exp\":\"2999-06-01T00:00:00Z\"}",
            "{\"iat\":\"not a date\",\"exp\":\"2999-06-01T00:00:00Z\"}",
            "{\"iat\":12345}",
            "{\"aud\":[\"a\",\"b\"],\"sub\":7,\"iss\":null,\"jti\":{},\"exp\":\"2999-06-01T00:00:00Z\",\"nbf\":\"1999-01-01T00:00:00Z\"}",
        ] {
            evaluate(prop, &TimeCase { proto: *p, now_ns: Some(now.to_string()), payload: pl.to_string() }, &mut acc);
            acc.choice_points += 1;
        }
        // numbers that look like Unix times (seconds, milliseconds) around the clock and far ahead: still numbers
        for n in [now / S - 3600, now / S + 3600, now / S + 86_400 * 365, (now / S + 3600) * 1000, 253_402_300_799, 4_102_444_800] {
            for form in [format!("{}", n), format!("{}.0", n), format!("{}e0", n), format!("{}.5", n)] {
                evaluate(prop, &TimeCase { proto: *p, now_ns: Some(now.to_string()), payload: format!("{{\"{}\":{}}}", claim, form) }, &mut acc);
                acc.choice_points += 1;
            }
        }
        // without the claim (and with unrelated claims only)
        for pl in ["{}", "{\"data\":\"x\"}", "{\"expx\":\"1999-01-01T00:00:00Z\",\"nbfx\":\"2999-01-01T00:00:00Z\"}"] {
            evaluate(prop, &TimeCase { proto: *p, now_ns: Some(now.to_string()), payload: pl.to_string() }, &mut acc);
        }
        // independent combinations of (exp, nbf)
        let states: [Option<&str>; 4] = [None, Some("\"1999-01-01T00:00:00Z\""), Some("\"2999-01-01T00:00:00Z\""), Some("12345")];
        for e in states {
            for n in states {
                let mut members = Vec::new();
                if let Some(e) = e {
                    members.push(format!("\"exp\":{}", e));
                }
                if let Some(n) = n {
                    members.push(format!("\"nbf\":{}", n));
                }
                evaluate(prop, &TimeCase { proto: *p, now_ns: Some(now.to_string()), payload: format!("{{{}}}", members.join(",")) }, &mut acc);
                acc.choice_points += 1;
            }
        }
        // a ladder of far-future and far-past instants (every 37 years from 1971 to 8999), Z and numeric forms
        {
            let mut y = 1971i64;
            while y < 9000 {
                let t = (rfc3339::days_from_civil(y, 3, 1) as i128 * 86400 + 3723) * S + 250_000_000;
                for (off, k, z) in [(0i64, 0usize, ZForm::Z), (34200, 3, ZForm::Numeric)] {
                    if let Some(s) = rfc3339::render(t, off, k, 'T', z) {
                        evaluate(prop, &TimeCase { proto: *p, now_ns: Some(now.to_string()), payload: payload_for(claim, &s) }, &mut acc);
                        acc.choice_points += 1;
                    }
                }
                y += 37;
            }
        }
        // the default rules must not depend on what else the parser was asked to check: 1..3 additional,
        // satisfied expectations on unrelated claims (aud, iss, a custom one)
        {
            let key = key_for(*p);
            let seed = if p.is_local() { domains::seeds(*p)[0].clone() } else { vec![] };
            let extras = [("aud", "api"), ("iss", "idp"), ("role", "admin")];
            for n_extra in 1..=extras.len() {
                for (c2, value, want_ok) in [("exp", "1999-01-01T00:00:00Z", false), ("exp", "2999-01-01T00:00:00Z", true), ("nbf", "2999-01-01T00:00:00Z", false), ("nbf", "1999-01-01T00:00:00Z", true), ("exp", "12345", false), ("nbf", "soon", false)] {
                    let vjson = if value == "12345" { value.to_string() } else { format!("\"{}\"", value) };
                    let payload = format!("{{\"{}\":{},\"aud\":\"api\",\"iss\":\"idp\",\"role\":\"admin\"}}", c2, vjson);
                    let Out::Ok(tok) = adapter::core_issue(*p, &key.sk, &seed, &payload, None, None) else { continue };
                    let mut ops: Vec<POp> = extras[..n_extra].iter().map(|(k, v)| POp::Check(adapter::ClaimSpec::auto(k, json!(v)))).collect();
                    ops.push(POp::Parse(0, 0));
                    adapter::set_clock(Some(time::OffsetDateTime::from_unix_timestamp_nanos(now).unwrap()));
                    let ev = adapter::parse_history(*p, Layer::Prelude, true, &[key.pk.clone()], &[tok], &ops);
                    adapter::freeze_default_clock();
                    acc.executions += 1;
                    acc.impl_calls += 1;
                    acc.choice_points += 1;
                    if let Some(PEvent::Parsed(o, _)) = ev.last() {
                        if o.is_ok() == want_ok {
                            acc.bump("with-extra-expectations:conforms");
                            if want_ok {
                                acc.controls_ok += 1;
                            }
                        } else {
                            acc.violate(
                                format!("{}|{}|with-{}-extra-expectations|{}", prop, p.name(), n_extra, if want_ok { "rejected-valid" } else { "accepted" }),
                                format!("PasetoParser::default() with {} additional satisfied check_claim expectation(s): payload {} -> {}, expected {}", n_extra, payload, o.short(), if want_ok { "Ok" } else { "a rejection" }),
                                json!({"time_case": TimeCase { proto: *p, now_ns: Some(now.to_string()), payload }, "extra_expectations": n_extra}),
                            );
                        }
                    }
                }
            }
        }
        // the application pins the exact exp / nbf it issued with check_claim: the default rule still applies
        {
            let key = key_for(*p);
            let seed = if p.is_local() { domains::seeds(*p)[0].clone() } else { vec![] };
            for (c2, value, want_ok) in [("exp", "1999-01-01T00:00:00Z", false), ("exp", "2999-01-01T00:00:00Z", true), ("nbf", "2999-01-01T00:00:00Z", false), ("nbf", "1999-01-01T00:00:00Z", true)] {
                let payload = payload_for(c2, value);
                let Out::Ok(tok) = adapter::core_issue(*p, &key.sk, &seed, &payload, None, None) else { continue };
                let ops = vec![POp::Check(adapter::ClaimSpec::auto(c2, json!(value))), POp::Parse(0, 0)];
                adapter::set_clock(Some(time::OffsetDateTime::from_unix_timestamp_nanos(now).unwrap()));
                let ev = adapter::parse_history(*p, Layer::Prelude, true, &[key.pk.clone()], &[tok], &ops);
                adapter::freeze_default_clock();
                acc.executions += 1;
                acc.choice_points += 1;
                if let Some(PEvent::Parsed(o, _)) = ev.last() {
                    if o.is_ok() == want_ok {
                        acc.bump("pinned-time-claim:conforms");
                    } else {
                        acc.violate(
                            format!("{}|{}|pinned-{}|{}", prop, p.name(), c2, if want_ok { "rejected-valid" } else { "accepted" }),
                            format!("PasetoParser::default().check_claim({} = {:?}) on a token carrying exactly that value: {}, expected {}", c2, value, o.short(), if want_ok { "Ok" } else { "a rejection by the default rule" }),
                            json!({"time_case": TimeCase { proto: *p, now_ns: Some(now.to_string()), payload }, "pinned": c2}),
                        );
                    }
                }
            }
        }
        // one parser object while the clock moves: a verdict that depends on the clock must be recomputed
        {
            let key = key_for(*p);
            let seed = if p.is_local() { domains::seeds(*p)[0].clone() } else { vec![] };
            let soon = rfc3339::render(now + 10 * S, 0, 9, 'T', ZForm::Z).unwrap();
            let later = (now + 20 * S).to_string();
            for (c2, first_ok) in [("exp", true), ("nbf", false)] {
                let payload = payload_for(c2, &soon);
                if let Out::Ok(tok) = adapter::core_issue(*p, &key.sk, &seed, &payload, None, None) {
                    let ops = vec![POp::Parse(0, 0), POp::Clock(later.clone()), POp::Parse(0, 0), POp::Clock(now.to_string()), POp::Parse(0, 0), POp::Clock(later.clone()), POp::Parse(0, 0)];
                    let want = [first_ok, !first_ok, first_ok, !first_ok];
                    adapter::set_clock(Some(time::OffsetDateTime::from_unix_timestamp_nanos(now).unwrap()));
                    let ev = adapter::parse_history(*p, Layer::Prelude, true, &[key.pk.clone()], &[tok], &ops);
                    adapter::freeze_default_clock();
                    let outs: Vec<bool> = ev.iter().filter_map(|e| if let PEvent::Parsed(o, _) = e { Some(o.is_ok()) } else { None }).collect();
                    acc.executions += 1;
                    acc.impl_calls += 4;
                    acc.choice_points += 1;
                    if outs.len() == 4 && outs[..] == want[..] {
                        acc.controls_ok += 1;
                        acc.bump("moving-clock:conforms");
                    } else {
                        acc.violate(
                            format!("{}|{}|moving-clock|{}", prop, p.name(), c2),
                            format!("one default parser, token with {} = now+10s, parsed at now, now+20s, now, now+20s: accepted = {:?}, expected {:?}", c2, outs, want),
                            json!({"time_case": TimeCase { proto: *p, now_ns: Some(now.to_string()), payload }, "moving_clock": true}),
                        );
                    }
                }
            }
        }
        // the same claim spelled differently in the payload text: JSON escapes in the value and in the member
        // name, white space between the tokens of the object, the claim last among other members. The claim's
        // value is the same string, so the verdict must be the one for that string
        {
            let esc_all = |t: &str| t.chars().map(|c| format!("\\u{:04x}", c as u32)).collect::<String>();
            let esc_some = |t: &str| t.chars().map(|c| if matches!(c, '+' | ':' | '-' | 'T' | 'Z' | '.') { format!("\\u{:04X}", c as u32) } else { c.to_string() }).collect::<String>();
            for (side, rel) in [("accepting", if claim == "exp" { 3600 * S } else { -3600 * S }), ("rejecting", if claim == "exp" { -3600 * S } else { 3600 * S })] {
                let _ = side;
                for (off, k, z) in [(0i64, 0usize, ZForm::Z), (19800, 3, ZForm::Numeric), (-34200, 9, ZForm::Numeric)] {
                    let Some(t) = rfc3339::render(now + rel, off, k, 'T', z) else { continue };
                    let name_esc = esc_all(claim);
                    let spellings = [
                        format!("{{\"{}\":\"{}\"}}", claim, esc_all(&t)),
                        format!("{{\"{}\":\"{}\"}}", claim, esc_some(&t)),
                        format!("{{\"{}\":\"{}\"}}", name_esc, t),
                        format!("{{\"{}\":\"{}\"}}", name_esc, esc_some(&t)),
                        format!(" {{ \"{}\" :\n\t\"{}\" }} ", claim, t),
                        format!("{{\"a\":[1,{{\"{}\":\"x\"}}],\"zz\":null,\"{}\":\"{}\"}}", claim, claim, t),
                        format!("{{\"{}\":\"{}\",\"data\":\"\\u00e9\\n\"}}", claim, t),
                    ];
                    for payload in spellings {
                        evaluate(prop, &TimeCase { proto: *p, now_ns: Some(now.to_string()), payload }, &mut acc);
                        acc.choice_points += 1;
                    }
                }
            }
        }
        // clocks far from the present (an unset real-time clock, the 2038 and 2106 second-counter limits, the
        // nanosecond-counter limit of 2262, far future): the rules are relative to whatever the clock reads
        {
            let ladder: [(i64, i64, i64, i64); 12] = [
                (1970, 1, 1, 1), (1985, 4, 12, 84_213), (2001, 9, 9, 6_400), (2018, 12, 31, 86_399), (2019, 1, 1, 0), (2038, 1, 19, 11_647), (2038, 1, 19, 11_648),
                (2106, 2, 7, 23_295), (2106, 2, 7, 23_296), (2262, 4, 11, 85_636), (2262, 4, 12, 3), (8999, 12, 31, 86_399),
            ];
            for (y, m, d, sod) in ladder {
                let clk = (rfc3339::days_from_civil(y, m, d) as i128 * 86400 + sod as i128) * S + 500_000_000;
                for rel in [-86400 * S, -2 * S, 60 * S, 86400 * S] {
                    for c2 in ["exp", "nbf"] {
                        if let Some(t) = rfc3339::render(clk + rel, 0, 3, 'T', ZForm::Z) {
                            evaluate(prop, &TimeCase { proto: *p, now_ns: Some(clk.to_string()), payload: payload_for(c2, &t) }, &mut acc);
                            acc.choice_points += 1;
                        }
                    }
                }
            }
        }
        // the default parser further configured by the caller: an accepting validator of the caller's own on each
        // OTHER registered claim (a leeway rule for nbf, an audience rule ...), and a JSON-object footer whose
        // members are named like registered claims (kid / wpk next to exp / nbf / iat): the built-in rule for this
        // property's claim still judges the PAYLOAD's claim
        {
            let key = key_for(*p);
            let seed = if p.is_local() { domains::seeds(*p)[0].clone() } else { vec![] };
            let other_time = if claim == "exp" { "nbf" } else { "exp" };
            let (bad, good) = if claim == "exp" { ("1999-01-01T00:00:00Z", "2999-01-01T00:00:00Z") } else { ("2999-01-01T00:00:00Z", "1999-01-01T00:00:00Z") };
            let footers: [Option<String>; 4] = [
                None,
                Some(format!("{{\"kid\":\"k4.lid.AAAA\",\"{}\":\"{}\"}}", claim, good)),
                Some(format!("{{\"{}\":\"{}\",\"wpk\":\"k4.local-wrap.pie.AAAA\"}}", claim, bad)),
                Some("{\"exp\":\"2999-01-01T00:00:00Z\",\"nbf\":\"1999-01-01T00:00:00Z\",\"iat\":\"1999-01-01T00:00:00Z\"}".to_string()),
            ];
            for (value, want_ok) in [(bad, false), (good, true), ("soon", false)] {
                for fo in &footers {
                    let payload = format!("{{\"{}\":\"{}\",\"aud\":\"api\"}}", claim, value);
                    let Out::Ok(tok) = adapter::core_issue(*p, &key.sk, &seed, &payload, fo.as_deref(), None) else { continue };
                    for validated in [vec![], vec![other_time], vec!["aud"], vec!["iat"], vec![other_time, "aud", "iat", "sub", "iss", "jti", "kid"]] {
                        adapter::reset_verdicts();
                        let mut ops: Vec<POp> = validated.iter().map(|k| POp::Validate(k.to_string(), 0)).collect();
                        if let Some(f) = fo {
                            ops.push(POp::Footer(f.clone()));
                        }
                        ops.push(POp::Parse(0, 0));
                        adapter::set_clock(Some(time::OffsetDateTime::from_unix_timestamp_nanos(now).unwrap()));
                        let ev = adapter::parse_history(*p, Layer::Prelude, true, &[key.pk.clone()], &[tok.clone()], &ops);
                        adapter::freeze_default_clock();
                        let _ = adapter::take_calls();
                        acc.executions += 1;
                        acc.impl_calls += 1;
                        acc.choice_points += 1;
                        let got = matches!(ev.last(), Some(PEvent::Parsed(o, _)) if o.is_ok());
                        if got == want_ok {
                            acc.bump("configured-default-parser:conforms");
                            if want_ok {
                                acc.controls_ok += 1;
                            }
                        } else {
                            acc.violate(
                                format!("{}|{}|configured-default-parser|{}", prop, p.name(), if want_ok { "rejected-valid" } else { "accepted" }),
                                format!("PasetoParser::default() with accepting caller validators on {:?} and footer {:?}: payload {} -> {}, expected {}", validated, fo, payload, if got { "accepted" } else { "rejected" }, if want_ok { "Ok" } else { "a rejection by the built-in rule" }),
                                json!({"time_case": TimeCase { proto: *p, now_ns: Some(now.to_string()), payload: payload.clone() }, "configured": validated}),
                            );
                        }
                    }
                }
            }
        }
        // other objects used earlier on the thread, at another clock reading (a builder created, built, refused
        // or failed; a plain or generic parser): the default rules judge against the clock as it reads when the
        // token is parsed, in both directions of the clock change
        {
            use adapter::{BOp, ClaimSpec};
            let key = key_for(*p);
            let other = domains::key_pool(*p)[1].clone();
            let seed = if p.is_local() { domains::seeds(*p)[0].clone() } else { vec![] };
            let fine = adapter::core_issue(*p, &key.sk, &seed, "{\"data\":\"x\"}", None, None).ok().cloned().unwrap_or_default();
            let prior: Vec<(&str, Box<dyn Fn()>)> = vec![
                ("PasetoBuilder::default() built", Box::new(|| { let _ = adapter::with_rng_script(vec![], || adapter::build_history(*p, Layer::Prelude, &key.sk, &[BOp::Build])); })),
                ("PasetoBuilder refused (duplicate)", Box::new(|| { let _ = adapter::with_rng_script(vec![], || adapter::build_history(*p, Layer::Prelude, &key.sk, &[BOp::Claim(ClaimSpec::auto("sub", json!("a"))), BOp::Claim(ClaimSpec::auto("sub", json!("b"))), BOp::Build])); })),
                ("PasetoBuilder: build failed in the crypto step", Box::new(|| { let _ = adapter::with_rng_script(vec![], || adapter::build_history(*p, Layer::Prelude, &key.sk, &[BOp::BuildBadKey])); })),
                ("GenericBuilder built", Box::new(|| { let _ = adapter::with_rng_script(vec![], || adapter::build_history(*p, Layer::Generic, &key.sk, &[BOp::Build])); })),
                ("plain PasetoParser: wrong key", Box::new(|| { let _ = adapter::parse_history(*p, Layer::Prelude, false, &[other.pk.clone()], &[fine.clone()], &[POp::Parse(0, 0)]); })),
                ("plain PasetoParser: accepted", Box::new(|| { let _ = adapter::parse_history(*p, Layer::Prelude, false, &[key.pk.clone()], &[fine.clone()], &[POp::Parse(0, 0)]); })),
                ("generic parser: wrong key", Box::new(|| { let _ = adapter::parse_history(*p, Layer::Generic, false, &[other.pk.clone()], &[fine.clone()], &[POp::Parse(0, 0)]); })),
                ("default parser: wrong key", Box::new(|| { let _ = adapter::parse_history(*p, Layer::Prelude, true, &[other.pk.clone()], &[fine.clone()], &[POp::Parse(0, 0)]); })),
                ("default parser: junk", Box::new(|| { let _ = adapter::parse_history(*p, Layer::Prelude, true, &[key.pk.clone()], &["x.y.z".to_string()], &[POp::Parse(0, 0)]); })),
            ];
            for (name, f) in &prior {
                for dt in [10 * S, -10 * S] {
                    // the instant between the two clock readings
                    let between = rfc3339::render(now + dt / 2, 0, 9, 'T', ZForm::Z).unwrap();
                    let t2 = now + dt;
                    // judged at t2: exp = between is in the past iff dt > 0; nbf = between is in the future iff dt < 0
                    let want_ok = if claim == "exp" { dt < 0 } else { dt > 0 };
                    let payload = payload_for(claim, &between);
                    let Out::Ok(tok) = adapter::core_issue(*p, &key.sk, &seed, &payload, None, None) else { continue };
                    adapter::set_clock(Some(time::OffsetDateTime::from_unix_timestamp_nanos(now).unwrap()));
                    f();
                    adapter::set_clock(Some(time::OffsetDateTime::from_unix_timestamp_nanos(t2).unwrap()));
                    let ev = adapter::parse_history(*p, Layer::Prelude, true, &[key.pk.clone()], &[tok], &[POp::Parse(0, 0)]);
                    adapter::freeze_default_clock();
                    acc.executions += 1;
                    acc.impl_calls += 2;
                    acc.choice_points += 1;
                    let got = matches!(ev.last(), Some(PEvent::Parsed(o, _)) if o.is_ok());
                    if got == want_ok {
                        acc.bump("after-other-objects:conforms");
                        if want_ok {
                            acc.controls_ok += 1;
                        }
                    } else {
                        acc.violate(
                            format!("{}|{}|after-other-objects|{}", prop, p.name(), if want_ok { "rejected-valid" } else { "accepted" }),
                            format!("[{} at clock t1], then at clock t2 = t1 {:+} s the default parser parses a token with {} = t1 {:+} s: {}, expected {}", name, dt / S, claim, dt / 2 / S, if got { "accepted" } else { "rejected" }, if want_ok { "Ok" } else { "a rejection" }),
                            json!({"time_case": TimeCase { proto: *p, now_ns: Some(t2.to_string()), payload }, "after_other_objects": name}),
                        );
                    }
                }
            }
        }
        // free-running rows (real clock): the +-2 s / +-60 s margins of the statement
        for r in [-3652 * 86400 * S, -86400 * S, -3600 * S, -2 * S, -S, 5 * S, 60 * S, 3600 * S, 86400 * S, 3652 * 86400 * S] {
            for off in [0i64, 19800, -86340] {
                let real = time::OffsetDateTime::now_utc().unix_timestamp_nanos();
                if let Some(s) = rfc3339::render(real + r, off, 3, 'T', ZForm::Numeric) {
                    // judged against the real clock at evaluation time; the instants are >= 1 s in the past or
                    // >= 5 s ahead, and a row is discarded if the machine stalled for more than 2 s around it
                    let mut row = Acc::default();
                    evaluate(prop, &TimeCase { proto: *p, now_ns: None, payload: payload_for(claim, &s) }, &mut row);
                    let elapsed = time::OffsetDateTime::now_utc().unix_timestamp_nanos() - real;
                    if elapsed < 2 * S {
                        acc.merge(row);
                    } else {
                        acc.bump("free-running-row-discarded(stall)");
                    }
                    acc.choice_points += 1;
                }
            }
        }
        acc
    });
    all.merge(Acc::merge_all(accs));

    all.states = all.distinct.len() as u64;
    if all.controls_ok == 0 {
        crate::report::machinery_error("no valid token was accepted by the default parser (vacuous)");
    }
    let extra = json!({
        "space": "v4.local: 4 frozen clocks x 16 instants relative to now (incl. 0, +-1 ns, +-1 s, +-2 s, +60 s, 1971, 9000) x UTC offsets -23:59..+23:59 x fractional digits x {T, t, blank} x {numeric, Z, z, -00:00}; all 8 protocols: reduced rendering subset, non-timestamp values of every JSON type, absent claim, the 16 (exp, nbf) combinations, free-running rows",
        "utc_offsets": offsets.len(),
        "fraction_digit_forms": fracs,
        "frozen_clocks": clks.iter().map(|c| c.to_string()).collect::<Vec<_>>(),
        "distinct_rule": "distinct (protocol, payload, clock)",
        "caps_hit": if quick { json!(["quick: clocks 2-4 take every 37th offset; fraction digits {0,3,9}"]) } else { json!([]) },
    });
    run.finish(&all, true, extra, &["R4 (own RFC 3339 reader, integer arithmetic) is the oracle; lenient forms (t, z, blank, second 60, -00:00) are only constrained in the fail-closed direction", "the clock is frozen through hook H2; free-running rows use the real clock with the margins of the property text"])
}

pub fn replay(prop: &'static str, case: &Value) -> i32 {
    let Ok(tc) = serde_json::from_value::<TimeCase>(case["time_case"].clone()) else { crate::report::machinery_error("replay file has no time_case") };
    let mut a1 = Acc::default();
    evaluate(prop, &tc, &mut a1);
    let mut a2 = Acc::default();
    evaluate(prop, &tc, &mut a2);
    if a1.violations.len() != a2.violations.len() {
        crate::report::machinery_error("replay is not deterministic");
    }
    for v in &a1.violations {
        println!("VIOLATION property={} replay=(this file)\n  key:  {}\n  what: {}", prop, v.key, v.what);
    }
    let _ = b64::hex(&[]);
    if a1.violations.is_empty() {
        println!("replay: property holds on this case");
        0
    } else {
        1
    }
}
