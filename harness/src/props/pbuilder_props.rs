//! C13 (tokens expire by default) and C17 (repeated top-level claim): stateright closure over the
//! PasetoBuilder reference model (engine B, models/pbuilder.rs) plus an unmerged engine-A enumeration of
//! all call sequences up to a depth through the same replay-and-judge function.

use crate::adapter::Proto;
use crate::explore::{explore, par_units};
use crate::models::pbuilder::{replay_and_judge, BuilderModel, Op, Verdicts, KEYS, REPLAYS};
use crate::models::{self};
use crate::report::{Acc, Run};
use serde::{Deserialize, Serialize};
use serde_json::{json, Value};
use std::sync::atomic::Ordering;

#[derive(Clone, Debug, Serialize, Deserialize)]
pub struct BuilderCase {
    pub proto: Proto,
    pub t0_ns: String,
    pub path: Vec<Op>,
}

fn clocks() -> Vec<i128> {
    vec![
        1_781_526_896_123_456_789, // 2026-06-15T12:34:56.123456789Z
        1_804_809_598_500_000_000, // 2027-03-11T23:59:58.5Z (exp crosses midnight)
        1_835_438_400_000_000_000, // 2028-02-29T12:00:00Z
        1_893_454_200_000_000_001, // 2029-12-31T23:30:00.000000001Z (exp crosses the year)
    ]
}

fn pick<'a>(prop: &str, v: &'a Verdicts) -> Option<&'a (String, String)> {
    if prop == "C13" {
        v.c13.as_ref()
    } else {
        v.c17.as_ref()
    }
}

fn describe(path: &[Op]) -> String {
    path.iter()
        .map(|o| match o {
            Op::Set(k, v) => format!("set_claim({}#{})", KEYS[*k], v),
            Op::Ack => "set_no_expiration_danger_acknowledged".into(),
            Op::Footer => "set_footer".into(),
            Op::Build => "build".into(),
        })
        .collect::<Vec<_>>()
        .join("; ")
}

fn record(prop: &str, proto: Proto, t0: i128, path: &[Op], v: &Verdicts, acc: &mut Acc) {
    if let Some(b) = &v.broken {
        crate::report::machinery_error(&format!("the real builder could not be driven on [{}]: {}", describe(path), b));
    }
    if let Some((kind, why)) = pick(prop, v) {
        // signature: the kind of disagreement and the position of the build at which it first shows
        let builds = path.iter().filter(|o| **o == Op::Build).count();
        acc.violate(
            format!("{}|{}|{}|build#{}", prop, proto.name(), kind, builds.min(3)),
            format!("history [{}]: {}", describe(path), why),
            json!({"builder_case": BuilderCase { proto, t0_ns: t0.to_string(), path: path.to_vec() }}),
        );
    }
}

pub fn run(prop: &'static str, tier: &str) -> i32 {
    let run = Run::new(prop, tier);
    let quick = tier == "quick";
    let clks = clocks();
    let mut all = Acc::default();
    let mut model_runs = Vec::new();
    REPLAYS.store(0, Ordering::Relaxed);

    // ---- engine B: closures. (protocol, number of keys, clock index, depth cap)
    let mut plan: Vec<(Proto, usize, usize, Option<usize>)> = Vec::new();
    for p in Proto::ALL {
        // reduced key set {exp, nbf, iat, iss, a}: full closure on every protocol
        // (quick: the two slow signers, RSA and P-384, get {exp, nbf, iat})
        let slow = matches!(p, Proto::V1P | Proto::V3P);
        plan.push((p, if quick && slow { 3 } else { 5 }, 0, None));
    }
    // feature-configuration builds repeat the small closures and the short sequences only (the full-size
    // exploration is the all-features build's; here the question is whether THIS build behaves differently)
    let cfg_mode = crate::report::profile().starts_with("cfg-");
    if cfg_mode {
        plan.push((Proto::workhorse(), 10, 0, Some(3)));
    } else if quick {
        plan.push((Proto::workhorse(), 10, 0, Some(5)));
        // the other frozen clocks (exp crossing midnight / the year, leap day) on the small model
        for ci in 1..clks.len() {
            plan.push((Proto::workhorse(), 3, ci, None));
        }
    } else {
        plan.push((Proto::workhorse(), 10, 0, None));
        for ci in 1..clks.len() {
            plan.push((Proto::workhorse(), 9, ci, None));
        }
        plan.push((Proto::V4P.or_workhorse(), 9, 0, None));
        plan.push((Proto::V2L.or_workhorse(), 9, 1, None));
        for ci in 1..clks.len() {
            plan.push((Proto::V3L.or_workhorse(), 5, ci, None));
        }
    }
    plan.sort();
    plan.dedup();
    for (p, nkeys, ci, depth) in plan {
        let t = std::time::Instant::now();
        let before = REPLAYS.load(Ordering::Relaxed);
        let out = models::bfs(BuilderModel { proto: p, t0_ns: clks[ci], nkeys }, depth);
        all.states += out.unique_states as u64;
        all.choice_points += out.generated_states as u64;
        for (name, actions, last) in &out.discoveries {
            if (*name == "C13-conforms" && prop == "C13") || (*name == "C17-conforms" && prop == "C17") || *name == "replayable" {
                record(prop, p, clks[ci], actions, &last.verdict, &mut all);
            }
        }
        model_runs.push(json!({
            "protocol": p.name(), "keys": nkeys, "clock": clks[ci].to_string(), "depth_cap": depth,
            "unique_states": out.unique_states, "transitions": out.generated_states, "max_depth": out.max_depth,
            "replays_on_real_builder": REPLAYS.load(Ordering::Relaxed) - before,
            "closure_reached": depth.is_none() && out.discoveries.is_empty(),
            "discoveries": out.discoveries.iter().map(|(n, a, _)| json!({"property": n, "shortest_history": describe(a)})).collect::<Vec<_>>(),
            "wall_s": (t.elapsed().as_secs_f64() * 100.0).round() / 100.0,
        }));
        if all.samples.len() < 2 {
            all.sample(json!({"engine": "B", "protocol": p.name(), "example_transition": "state --build--> state: history replayed on PasetoBuilder::default(), payload compared with the model", "unique_states": out.unique_states}));
        }
    }

    // ---- engine A: every call sequence up to a depth, unmerged, through the same judge
    let depth = if cfg_mode { 3 } else if quick { 4 } else { 5 };
    let seq_model = BuilderModel { proto: Proto::workhorse(), t0_ns: clks[0], nkeys: 10 };
    let alphabet = seq_model.alphabet();
    let firsts: Vec<usize> = (0..alphabet.len()).collect();
    let accs = par_units(&firsts, |first| {
        let mut acc = Acc::default();
        for len in 1..=depth {
            let (_, pts) = explore(None, |c| {
                let mut path = vec![alphabet[*first].clone()];
                for _ in 1..len {
                    path.push(alphabet[c.choose("call", alphabet.len())].clone());
                }
                if path.last() != Some(&Op::Build) {
                    return; // only histories ending in a build add an observation
                }
                let v = replay_and_judge(Proto::workhorse(), clks[0], &path);
                acc.executions += 1;
                acc.see(&path);
                acc.bump(if pick(prop, &v).is_some() { "sequence:disagrees" } else { "sequence:conforms" });
                record(prop, Proto::workhorse(), clks[0], &path, &v, &mut acc);
                if acc.samples.is_empty() && len == depth {
                    acc.sample(json!({"engine": "A", "history": describe(&path), "verdict": "conforms"}));
                }
            });
            acc.choice_points += pts;
        }
        acc
    });
    let seq = Acc::merge_all(accs);
    let seq_exec = seq.executions;
    all.merge(seq);
    // C17's own quantifier alphabet (one value per key) is a sub-alphabet of the above

    // ---- free-running pass (real clock, real RNG, hooks idle): the production path of the default claims
    if prop == "C13" {
        let accs = par_units(&Proto::ALL.to_vec(), |p| {
            let mut acc = Acc::default();
            crate::adapter::set_clock(None);
            let key = crate::domains::key_pool(*p)[0].clone();
            for round in 0..if matches!(p, Proto::V1P | Proto::V3P) { 3 } else { 40 } {
                let before = time::OffsetDateTime::now_utc().unix_timestamp_nanos();
                let ops = vec![crate::adapter::BOp::Build, crate::adapter::BOp::Build];
                let ev = crate::adapter::build_history(*p, crate::adapter::Layer::Prelude, &key.sk, &ops);
                let after = time::OffsetDateTime::now_utc().unix_timestamp_nanos();
                for e in &ev {
                    let crate::adapter::BEvent::Built(crate::adapter::Out::Ok(tok)) = e else {
                        acc.violate(format!("C13|{}|free-running|build-failed", p.name()), format!("PasetoBuilder::default().build failed under the real clock: {:?}", e), json!({"builder_case": BuilderCase { proto: *p, t0_ns: "real".into(), path: vec![Op::Build] }}));
                        continue;
                    };
                    acc.executions += 1;
                    let payload = match crate::adapter::core_present(*p, &key.pk, tok, None, None) {
                        crate::adapter::Out::Ok(s) => s,
                        _ => continue,
                    };
                    let Ok(v) = serde_json::from_str::<Value>(&payload) else { continue };
                    let inst = |k: &str| v[k].as_str().and_then(crate::rfc3339::parse).map(|(_, t)| t);
                    let (iat, nbf, exp) = (inst("iat"), inst("nbf"), inst("exp"));
                    let in_window = |t: Option<i128>| t.map_or(false, |t| t >= before && t <= after);
                    let ok = in_window(iat) && nbf == iat && exp.zip(iat).map_or(false, |(e, i)| e - i == 3600 * 1_000_000_000);
                    if ok {
                        acc.controls_ok += 1;
                        acc.bump("free-running:conforms");
                    } else {
                        acc.violate(
                            format!("C13|{}|free-running|default-claims-not-creation-time", p.name()),
                            format!("real clock, round {}: builder created between {} and {} ns, token carries iat {:?} nbf {:?} exp {:?} (expected iat = nbf = creation instant, exp = iat + 1 h)", round, before, after, v["iat"], v["nbf"], v["exp"]),
                            json!({"builder_case": BuilderCase { proto: *p, t0_ns: "real".into(), path: vec![Op::Build] }}),
                        );
                    }
                }
            }
            crate::adapter::freeze_default_clock();
            acc
        });
        all.merge(Acc::merge_all(accs));
    }
    // ---- an application-defined claim type (impl PasetoClaim) that serialises as {"exp": ..} under the key
    //      "lease" is one more custom claim: the default exp / iat / nbf are untouched
    if prop == "C13" {
        let mut acc = Acc::default();
        for p in { let mut v = vec![Proto::workhorse(), Proto::V2L.or_workhorse(), Proto::V4P.or_workhorse()]; v.sort(); v.dedup(); v } {
            let key = crate::domains::key_pool(p)[0].clone();
            let t0 = clks[0];
            crate::adapter::set_clock(Some(time::OffsetDateTime::from_unix_timestamp_nanos(t0).unwrap()));
            for ack in [false, true] {
                let mut ops = vec![crate::adapter::BOp::Claim(crate::adapter::ClaimSpec { key: "lease".into(), value: json!("2031-01-01T00:00:00Z"), form: crate::adapter::Form::ForeignOneField })];
                if ack {
                    ops.push(crate::adapter::BOp::Ack);
                }
                ops.push(crate::adapter::BOp::Build);
                let (ev, _) = crate::adapter::with_rng_script(vec![vec![2u8; 32]], || crate::adapter::build_history(p, crate::adapter::Layer::Prelude, &key.sk, &ops));
                acc.executions += 1;
                let payload = match ev.last() {
                    Some(crate::adapter::BEvent::Built(crate::adapter::Out::Ok(t))) => crate::adapter::core_present(p, &key.pk, t, None, None).ok().cloned(),
                    _ => None,
                };
                let v: Value = payload.as_deref().and_then(|s| serde_json::from_str(s).ok()).unwrap_or(Value::Null);
                let inst = |k: &str| v[k].as_str().and_then(crate::rfc3339::parse).map(|(_, t)| t);
                let defaults_ok = inst("iat") == Some(t0) && inst("nbf") == Some(t0) && if ack { v.get("exp").is_none() } else { inst("exp") == Some(t0 + 3600 * 1_000_000_000) };
                let lease_ok = v["lease"] == json!({"exp": "2031-01-01T00:00:00Z"});
                if defaults_ok && lease_ok {
                    acc.controls_ok += 1;
                } else {
                    acc.violate(
                        format!("C13|{}|foreign-claim|{}", p.name(), if !defaults_ok { "default-claims-disturbed" } else { "claim-lost" }),
                        format!("an application-defined claim `lease` serialising as {{\"exp\": ..}}{}: payload {}", if ack { " + acknowledgement" } else { "" }, v),
                        json!({"near_miss": ["lease", "foreign"]}),
                    );
                }
            }
            crate::adapter::freeze_default_clock();
        }
        all.merge(acc);
    }
    // ---- a build that fails in the signing step (key material the signer refuses) must leave the builder as
    //      it was: the next build with the good key carries the defaults and everything the caller supplied
    {
        let mut acc = Acc::default();
        for p in Proto::PUBLIC {
            let key = crate::domains::key_pool(p)[0].clone();
            let t0 = clks[0];
            crate::adapter::set_clock(Some(time::OffsetDateTime::from_unix_timestamp_nanos(t0).unwrap()));
            let ops = vec![
                crate::adapter::BOp::Claim(crate::adapter::ClaimSpec::auto("sub", json!("alice"))),
                crate::adapter::BOp::Claim(crate::adapter::ClaimSpec::auto("role", json!("admin"))),
                crate::adapter::BOp::BuildBadKey,
                crate::adapter::BOp::Build,
                crate::adapter::BOp::BuildBadKey,
                crate::adapter::BOp::Build,
            ];
            let (ev, _) = crate::adapter::with_rng_script(vec![], || crate::adapter::build_history(p, crate::adapter::Layer::Prelude, &key.sk, &ops));
            crate::adapter::freeze_default_clock();
            acc.executions += 1;
            let builds: Vec<&crate::adapter::BEvent> = ev.iter().filter(|e| matches!(e, crate::adapter::BEvent::Built(_))).collect();
            let mut problem: Option<String> = None;
            for (i, b) in builds.iter().enumerate() {
                let crate::adapter::BEvent::Built(out) = b else { continue };
                if i % 2 == 0 {
                    if out.is_ok() {
                        problem = Some(format!("build #{} with key material the signer must refuse produced a token", i + 1));
                    }
                } else {
                    let payload = out.ok().and_then(|t| crate::adapter::core_present(p, &key.pk, t, None, None).ok().cloned());
                    let v: Value = payload.as_deref().and_then(|s| serde_json::from_str(s).ok()).unwrap_or(Value::Null);
                    let inst = |k: &str| v[k].as_str().and_then(crate::rfc3339::parse).map(|(_, t)| t);
                    let ok = v["sub"] == json!("alice") && v["role"] == json!("admin") && inst("iat") == Some(t0) && inst("nbf") == Some(t0) && inst("exp") == Some(t0 + 3600 * 1_000_000_000);
                    if !ok {
                        problem = Some(format!("build #{} (good key, after a build that failed in the signing step): payload {} - expected sub, role and the default exp / iat / nbf", i + 1, v));
                    }
                }
            }
            match problem {
                None => acc.controls_ok += 1,
                Some(w) => acc.violate(format!("{}|{}|build-after-failed-build", prop, p.name()), w, json!({"near_miss": ["failed-build", p.name()]})),
            }
        }
        all.merge(acc);
    }
    // ---- other objects used earlier on the thread, at an earlier clock reading, must not decide what "creation
    //      time" means for a builder made afterwards: parses that failed or succeeded (default parser, plain
    //      parser, generic parser), another builder, a failed build - then, with the clock moved on, a new builder
    if prop == "C13" {
        use crate::adapter::{BEvent, BOp, ClaimSpec, Layer, Out, POp};
        let accs = crate::explore::par_units(&Proto::ALL.to_vec(), |p| {
            let mut acc = Acc::default();
            let key = crate::domains::key_pool(*p)[0].clone();
            let other = crate::domains::key_pool(*p)[1].clone();
            let seed = if p.is_local() { crate::domains::seeds(*p)[1].clone() } else { vec![] };
            let t1 = clks[0];
            let at = |t: i128| crate::adapter::set_clock(Some(time::OffsetDateTime::from_unix_timestamp_nanos(t).unwrap()));
            let mk = |payload: &str| crate::adapter::core_issue(*p, &key.sk, &seed, payload, None, None).ok().cloned().unwrap_or_default();
            let expired = mk("{\"exp\":\"2001-01-01T00:00:00Z\"}");
            let future_nbf = mk("{\"nbf\":\"2999-01-01T00:00:00Z\"}");
            let fine = mk("{\"exp\":\"2999-01-01T00:00:00Z\",\"nbf\":\"2001-01-01T00:00:00Z\"}");
            let prior: Vec<(&str, Box<dyn Fn()>)> = vec![
                ("default parser: expired token rejected", Box::new(|| { let _ = crate::adapter::parse_history(*p, Layer::Prelude, true, &[key.pk.clone()], &[expired.clone()], &[POp::Parse(0, 0)]); })),
                ("default parser: not-yet-valid token rejected", Box::new(|| { let _ = crate::adapter::parse_history(*p, Layer::Prelude, true, &[key.pk.clone()], &[future_nbf.clone()], &[POp::Parse(0, 0)]); })),
                ("default parser: wrong key", Box::new(|| { let _ = crate::adapter::parse_history(*p, Layer::Prelude, true, &[other.pk.clone()], &[fine.clone()], &[POp::Parse(0, 0)]); })),
                ("default parser: junk", Box::new(|| { let _ = crate::adapter::parse_history(*p, Layer::Prelude, true, &[key.pk.clone()], &["x.y.z".to_string()], &[POp::Parse(0, 0)]); })),
                ("default parser: accepted", Box::new(|| { let _ = crate::adapter::parse_history(*p, Layer::Prelude, true, &[key.pk.clone()], &[fine.clone()], &[POp::Parse(0, 0)]); })),
                ("default parser: rejected, then accepted", Box::new(|| { let _ = crate::adapter::parse_history(*p, Layer::Prelude, true, &[key.pk.clone()], &[expired.clone(), fine.clone()], &[POp::Parse(0, 0), POp::Parse(1, 0)]); })),
                ("plain PasetoParser: wrong key", Box::new(|| { let _ = crate::adapter::parse_history(*p, Layer::Prelude, false, &[other.pk.clone()], &[fine.clone()], &[POp::Parse(0, 0)]); })),
                ("generic parser: wrong key", Box::new(|| { let _ = crate::adapter::parse_history(*p, Layer::Generic, false, &[other.pk.clone()], &[fine.clone()], &[POp::Parse(0, 0)]); })),
                ("another builder built", Box::new(|| { let _ = crate::adapter::with_rng_script(vec![], || crate::adapter::build_history(*p, Layer::Prelude, &key.sk, &[BOp::Build])); })),
                ("another builder refused (duplicate)", Box::new(|| { let _ = crate::adapter::with_rng_script(vec![], || crate::adapter::build_history(*p, Layer::Prelude, &key.sk, &[BOp::Claim(ClaimSpec::auto("sub", json!("a"))), BOp::Claim(ClaimSpec::auto("sub", json!("b"))), BOp::Build])); })),
                ("another builder: build failed in the crypto step", Box::new(|| { let _ = crate::adapter::with_rng_script(vec![], || crate::adapter::build_history(*p, Layer::Prelude, &key.sk, &[BOp::BuildBadKey])); })),
            ];
            for (name, f) in &prior {
                for dt in [1_000_000_000i128, 46 * 86_400 * 1_000_000_000 + 34_200_500_000_000, -(3 * 86_400 * 1_000_000_000i128)] {
                    at(t1);
                    f();
                    let t2 = t1 + dt;
                    at(t2);
                    let (ev, _) = crate::adapter::with_rng_script(vec![], || crate::adapter::build_history(*p, Layer::Prelude, &key.sk, &[BOp::Build]));
                    crate::adapter::freeze_default_clock();
                    acc.executions += 1;
                    acc.choice_points += 1;
                    acc.see(&(p.name(), name, dt));
                    let payload = match ev.last() {
                        Some(BEvent::Built(Out::Ok(t))) => crate::adapter::core_present(*p, &key.pk, t, None, None).ok().cloned(),
                        _ => None,
                    };
                    let v: Value = payload.as_deref().and_then(|s| serde_json::from_str(s).ok()).unwrap_or(Value::Null);
                    let inst = |k: &str| v[k].as_str().and_then(crate::rfc3339::parse).map(|(_, t)| t);
                    if inst("iat") == Some(t2) && inst("nbf") == Some(t2) && inst("exp") == Some(t2 + 3600 * 1_000_000_000) {
                        acc.bump("after-other-objects:conforms");
                    } else {
                        acc.violate(
                            format!("C13|{}|after-other-objects|default-claims-not-from-creation-time", p.name()),
                            format!("[{} at clock t1] then, at clock t2 = t1 {:+} ns, PasetoBuilder::default().build(): payload {} - iat and nbf must be t2 and exp t2 + 1 h", name, dt, v),
                            json!({"near_miss": ["after-other-objects", p.name(), name]}),
                        );
                    }
                }
            }
            acc
        });
        all.merge(Acc::merge_all(accs));
    }
    // ---- the clock moves on between creating a builder and building from it (a builder kept around): the default
    //      claims are those of the creation instant on every build
    if prop == "C13" {
        use crate::adapter::{BEvent, BOp, ClaimSpec, Layer, Out};
        let accs = crate::explore::par_units(&Proto::ALL.to_vec(), |p| {
            let mut acc = Acc::default();
            let key = crate::domains::key_pool(*p)[0].clone();
            let t0 = clks[0];
            let s_ns = 1_000_000_000i128;
            for dts in [vec![3_599 * s_ns + 999_999_999], vec![3_600 * s_ns], vec![3_600 * s_ns + 1], vec![2 * 3_600 * s_ns, 25 * 3_600 * s_ns], vec![-3_600 * s_ns], vec![400 * 86_400 * s_ns], vec![1, 3_600 * s_ns, -1]] {
                for with_sub in [false, true] {
                    crate::adapter::set_clock(Some(time::OffsetDateTime::from_unix_timestamp_nanos(t0).unwrap()));
                    let mut ops: Vec<BOp> = Vec::new();
                    if with_sub {
                        ops.push(BOp::Claim(ClaimSpec::auto("sub", json!("alice"))));
                    }
                    for dt in &dts {
                        ops.push(BOp::Clock((t0 + dt).to_string()));
                        ops.push(BOp::Build);
                    }
                    let (ev, _) = crate::adapter::with_rng_script(vec![], || crate::adapter::build_history(*p, Layer::Prelude, &key.sk, &ops));
                    crate::adapter::freeze_default_clock();
                    acc.executions += dts.len() as u64;
                    acc.choice_points += 1;
                    for (bi, b) in ev.iter().filter(|e| matches!(e, BEvent::Built(_))).enumerate() {
                        let payload = match b {
                            BEvent::Built(Out::Ok(t)) => crate::adapter::core_present(*p, &key.pk, t, None, None).ok().cloned(),
                            _ => None,
                        };
                        let v: Value = payload.as_deref().and_then(|x| serde_json::from_str(x).ok()).unwrap_or(Value::Null);
                        let inst = |k: &str| v[k].as_str().and_then(crate::rfc3339::parse).map(|(_, t)| t);
                        if inst("iat") == Some(t0) && inst("nbf") == Some(t0) && inst("exp") == Some(t0 + 3_600 * s_ns) {
                            acc.bump("clock-moved-before-build:conforms");
                        } else {
                            acc.violate(
                                format!("C13|{}|clock-moved-between-creation-and-build", p.name()),
                                format!("builder created at t0, clock moved by {:?} ns before build #{}: payload {} - iat and nbf must be t0, exp t0 + 1 h", dts, bi + 1, v),
                                json!({"near_miss": ["clock-moved", p.name(), dts.iter().map(|d| d.to_string()).collect::<Vec<_>>()]}),
                            );
                        }
                    }
                }
            }
            acc
        });
        all.merge(Acc::merge_all(accs));
    }
    // ---- pairs of keys that differ by case, white space or Unicode normalisation are different keys
    if prop == "C17" {
        let near: [&str; 9] = ["role", "Role", "ROLE", "role ", " role", "role\n", "r\u{00f4}le", "ro\u{0302}le", "rol"];
        let key = crate::domains::key_pool(Proto::workhorse())[0].clone();
        let mut acc = Acc::default();
        crate::adapter::freeze_default_clock();
        for a in near {
            for b in near {
                let ops = vec![
                    crate::adapter::BOp::Claim(crate::adapter::ClaimSpec::auto(a, json!("first"))),
                    crate::adapter::BOp::Claim(crate::adapter::ClaimSpec::auto(b, json!("second"))),
                    crate::adapter::BOp::Build,
                ];
                let (ev, _) = crate::adapter::with_rng_script(vec![vec![1u8; 32]], || crate::adapter::build_history(Proto::workhorse(), crate::adapter::Layer::Prelude, &key.sk, &ops));
                acc.executions += 1;
                acc.see(&(a, b));
                let built_ok = matches!(ev.last(), Some(crate::adapter::BEvent::Built(crate::adapter::Out::Ok(_))));
                let is_dup_err = matches!(ev.last(), Some(crate::adapter::BEvent::Built(crate::adapter::Out::Err(crate::adapter::ErrClass::Dup(_)))));
                let fine = if a == b { is_dup_err } else { built_ok };
                if fine {
                    acc.controls_ok += 1;
                } else {
                    acc.violate(
                        format!("C17|v4.local|near-miss-keys|{}", if a == b { "repeat-not-refused" } else { "distinct-keys-conflated" }),
                        format!("set_claim({:?}); set_claim({:?}); build -> {:?}", a, b, ev.last()),
                        json!({"near_miss": [a, b]}),
                    );
                }
            }
        }
        all.merge(acc);
    }

    // ---- counts that cross a power of two: the same key supplied N times (every build must still be refused with
    //      the duplicate error, no panic), and N distinct keys (must build and carry all of them)
    if prop == "C17" {
        use crate::adapter::{BEvent, BOp, ClaimSpec, ErrClass, Layer, Out};
        let counts: Vec<usize> = if quick { vec![2, 3, 127, 128, 129, 255, 256, 257, 258, 511, 512, 513, 65_535, 65_536, 65_537] } else { (2..=1_030).chain([4_095, 4_096, 4_097, 65_535, 65_536, 65_537, 65_538, 131_072, 131_073]).collect() };
        let units: Vec<(Proto, usize)> = { let mut v = vec![Proto::workhorse(), Proto::V2P.or_workhorse()]; v.sort(); v.dedup(); v }.iter().flat_map(|p| counts.iter().map(move |n| (*p, *n))).collect();
        let accs = crate::explore::par_units(&units, |(p, n)| {
            let mut acc = Acc::default();
            let key = crate::domains::key_pool(*p)[0].clone();
            for (ki, k) in ["role", "sub", "exp", ""].iter().enumerate() {
                if *n > 1_030 && ki > 1 {
                    continue;
                }
                let val = |i: usize| if *k == "exp" { json!("2999-01-01T00:00:00Z") } else { json!(format!("v{}", i % 3)) };
                let mut ops: Vec<BOp> = vec![BOp::Claim(ClaimSpec::auto("other", json!(1)))];
                ops.extend((0..*n).map(|i| BOp::Claim(ClaimSpec::auto(k, val(i)))));
                ops.push(BOp::Build);
                ops.push(BOp::Build);
                let (ev, _) = crate::adapter::with_rng_script(vec![vec![1u8; 32], vec![2u8; 32]], || crate::adapter::build_history(*p, Layer::Prelude, &key.sk, &ops));
                acc.executions += 1;
                acc.choice_points += 1;
                acc.see(&(p.name(), n, k));
                let panicked = ev.iter().find_map(|e| if let BEvent::Built(Out::Panic(l)) = e { Some(l.clone()) } else { None });
                let builds: Vec<&BEvent> = ev.iter().rev().take(2).collect();
                // the empty key may be dropped by the builder (then it was never supplied twice): any verdict but a panic
                let refused = builds.iter().all(|b| matches!(b, BEvent::Built(Out::Err(ErrClass::Dup(_)))));
                if let Some(l) = panicked {
                    acc.violate(format!("C17|{}|many-repeats|panic", p.name()), format!("key {:?} supplied {} times: panic at {}", k, n, l), json!({"near_miss": ["repeats", p.name(), k, n]}));
                } else if !refused && !k.is_empty() {
                    acc.violate(
                        format!("C17|{}|many-repeats|not-refused", p.name()),
                        format!("key {:?} supplied {} times, then build; build -> {:?}: every build must return the duplicate-claim error", k, n, builds.iter().map(|b| format!("{:?}", b).chars().take(80).collect::<String>()).collect::<Vec<_>>()),
                        json!({"near_miss": ["repeats", p.name(), k, n]}),
                    );
                } else {
                    acc.bump("many-repeats:refused");
                }
            }
            // n distinct keys: builds, and every one of them is in the payload
            if *n <= 1_030 || *n == 65_537 {
                let ops: Vec<BOp> = (0..*n).map(|i| BOp::Claim(ClaimSpec::auto(&format!("k{}", i), json!(i)))).chain([BOp::Build]).collect();
                let (ev, _) = crate::adapter::with_rng_script(vec![vec![1u8; 32]], || crate::adapter::build_history(*p, Layer::Prelude, &key.sk, &ops));
                acc.executions += 1;
                acc.choice_points += 1;
                let ok = match ev.last() {
                    Some(BEvent::Built(Out::Ok(t))) => crate::adapter::core_present(*p, &key.pk, t, None, None).ok().and_then(|s| serde_json::from_str::<Value>(s).ok()).map_or(false, |v| (0..*n).all(|i| v[format!("k{}", i)] == json!(i))),
                    _ => false,
                };
                if ok {
                    acc.bump("many-distinct:built");
                } else {
                    acc.violate(format!("C17|{}|many-distinct|failed", p.name()), format!("{} distinct keys, build -> {}", n, format!("{:?}", ev.last()).chars().take(120).collect::<String>()), json!({"near_miss": ["distinct", p.name(), "", n]}));
                }
            }
            acc
        });
        all.merge(Acc::merge_all(accs));
    }

    // ---- a duplicate is reported as a duplicate whatever key the build is given (also one the signer refuses)
    if prop == "C17" {
        use crate::adapter::{BEvent, BOp, ClaimSpec, ErrClass, Layer, Out};
        let mut acc = Acc::default();
        for p in Proto::PUBLIC {
            let key = crate::domains::key_pool(p)[0].clone();
            crate::adapter::freeze_default_clock();
            for dup_key in ["sub", "role", "exp"] {
                let v = |i: usize| if dup_key == "exp" { json!("2999-01-01T00:00:00Z") } else { json!(format!("v{}", i)) };
                let ops = vec![BOp::Claim(ClaimSpec::auto(dup_key, v(0))), BOp::Claim(ClaimSpec::auto(dup_key, v(1))), BOp::BuildBadKey, BOp::Build, BOp::BuildBadKey, BOp::Build];
                let (ev, _) = crate::adapter::with_rng_script(vec![], || crate::adapter::build_history(p, Layer::Prelude, &key.sk, &ops));
                let builds: Vec<&BEvent> = ev.iter().filter(|e| matches!(e, BEvent::Built(_))).collect();
                acc.executions += builds.len() as u64;
                acc.choice_points += 1;
                let all_dup = builds.len() == 4 && builds.iter().all(|b| matches!(b, BEvent::Built(Out::Err(ErrClass::Dup(k))) if k == dup_key));
                if all_dup {
                    acc.bump("duplicate-before-key:conforms");
                } else {
                    acc.violate(
                        format!("C17|{}|duplicate-with-unusable-key", p.name()),
                        format!("{:?} supplied twice, then build with key material the signer refuses, build with the good key, and both again: {:?} - every build must return the duplicate-claim error naming {:?}", dup_key, builds.iter().map(|b| format!("{:?}", b).chars().take(60).collect::<String>()).collect::<Vec<_>>(), dup_key),
                        json!({"near_miss": ["dup-bad-key", p.name(), dup_key]}),
                    );
                }
            }
        }
        all.merge(acc);
    }
    // ---- the error names the duplicated key - the key itself, whatever its length or content
    if prop == "C17" {
        use crate::adapter::{BEvent, BOp, ClaimSpec, ErrClass, Layer, Out};
        let mut keys: Vec<String> = vec!["k".repeat(64), "k".repeat(65), "https://example.com/claims/".to_string() + &"segment/".repeat(12), "k".repeat(300), format!("{}\u{e9}{}", "k".repeat(63), "z".repeat(10)), "k".repeat(5_000)];
        keys.extend(crate::domains::hostile_texts().into_iter().filter(|h| !h.is_empty()));
        let mut acc = Acc::default();
        for p in { let mut v = vec![Proto::workhorse(), Proto::V2P.or_workhorse()]; v.sort(); v.dedup(); v } {
            let key = crate::domains::key_pool(p)[0].clone();
            crate::adapter::freeze_default_clock();
            for k in &keys {
                // a sibling key that shares a long prefix: the error must name the one that was repeated
                let sibling = format!("{}-sibling", k);
                let ops = vec![
                    BOp::Claim(ClaimSpec { key: sibling.clone(), value: json!(0), form: crate::adapter::Form::TupleString }),
                    BOp::Claim(ClaimSpec { key: k.clone(), value: json!(1), form: crate::adapter::Form::TupleString }),
                    BOp::Claim(ClaimSpec { key: k.clone(), value: json!(2), form: crate::adapter::Form::TupleString }),
                    BOp::Build,
                ];
                let (ev, _) = crate::adapter::with_rng_script(vec![vec![1u8; 32]], || crate::adapter::build_history(p, Layer::Prelude, &key.sk, &ops));
                acc.executions += 1;
                acc.choice_points += 1;
                match ev.last() {
                    Some(BEvent::Built(Out::Err(ErrClass::Dup(named)))) if named == k => acc.bump("duplicate-named-exactly"),
                    other => acc.violate(
                        format!("C17|{}|duplicate-key-naming", p.name()),
                        format!("a key of {} bytes ({:?}...) supplied twice: build -> {}, expected the duplicate-claim error naming exactly that key", k.len(), k.chars().take(24).collect::<String>(), format!("{:?}", other).chars().take(160).collect::<String>()),
                        json!({"near_miss": ["naming", p.name(), k.len()]}),
                    ),
                }
            }
        }
        all.merge(acc);
    }

    all.executions = REPLAYS.load(Ordering::Relaxed) + all.executions;
    all.impl_calls = all.executions;
    all.controls_ok = *all.hist.get("sequence:conforms").unwrap_or(&0);
    let exhaustive = true;
    let extra = json!({
        "space": "reachable states of the PasetoBuilder reference model (per key: supplied 0/1/2+ times and which value last; acknowledged; footer; builds 0/1/2+; exp-after-acknowledgement) x actions {set_claim(k, v), acknowledgement, set_footer(+assertion), build}; plus all unmerged call sequences up to the stated depth",
        "model_runs": model_runs,
        "unmerged_sequence_depth": depth,
        "unmerged_sequences_ending_in_build": seq_exec,
        "action_alphabet_size": alphabet.len(),
        "traces_validated_note": "every transition (and every sequence) is a replay on the real PasetoBuilder; traces_validated_against_impl counts those replays",
        "distinct_rule": "distinct call sequences (engine A part); states/transitions are the model's",
        "caps_hit": if quick { json!(["quick: the 10-key model on v4.local is explored to depth 5 (not closure); the 5-key model reaches closure on 6 protocols, the 3-key model on v1.public and v3.public"]) } else { json!([]) },
    });
    run.finish(&all, exhaustive, extra, &["states are merged on the model state; soundness of that merge is cross-checked by computing the verdict on every transition and by the unmerged engine-A enumeration", "clock frozen through H2, RNG scripted through H1 (both thread-local, re-installed on every replay)"])
}

pub fn replay(prop: &'static str, case: &Value) -> i32 {
    if case.get("near_miss").is_some() || case["builder_case"]["t0_ns"] == "real" {
        println!("this finding comes from the near-miss-key / free-running pass: re-run `./check {} quick`", prop);
        return 2;
    }
    let Ok(bc) = serde_json::from_value::<BuilderCase>(case["builder_case"].clone()) else { crate::report::machinery_error("replay file has no builder_case") };
    let t0: i128 = bc.t0_ns.parse().unwrap_or(0);
    let v1 = replay_and_judge(bc.proto, t0, &bc.path);
    let v2 = replay_and_judge(bc.proto, t0, &bc.path);
    if v1 != v2 {
        crate::report::machinery_error("replay is not deterministic");
    }
    println!("history: {}", describe(&bc.path));
    match pick(prop, &v1) {
        Some((k, w)) => {
            println!("VIOLATION property={} replay=(this file)\n  kind: {}\n  what: {}", prop, k, w);
            1
        }
        None => {
            println!("replay: property holds on this history");
            0
        }
    }
}
