//! C18: custom claims cannot shadow registered ones; the time-claim constructors validate their input.
//! Engine A: every key over a small alphabet up to length 4 plus decorated variants of the reserved keys,
//! x constructor form x value type; the full strict RFC 3339 rendering grid for the time constructors.

use crate::adapter::{self, guard, BEvent, BOp, ClaimSpec, Form, Layer, Out, POp, PEvent, Proto, RESERVED};
use crate::domains;
use crate::explore::{explore, par_units};
use crate::report::{Acc, Run};
use crate::rfc3339::{self, Class};
use rusty_paseto::prelude::*;
use serde_json::{json, Value};

const KEY_ALPHABET: [char; 8] = ['e', 'x', 'p', 'E', 'i', 's', ' ', '\0'];

fn decorated_reserved() -> Vec<String> {
    let mut v: Vec<String> = Vec::new();
    for r in RESERVED {
        // upper-casing any non-empty subset of letters
        let chars: Vec<char> = r.chars().collect();
        for mask in 1..(1u32 << chars.len()) {
            v.push(chars.iter().enumerate().map(|(i, c)| if mask & (1 << i) != 0 { c.to_ascii_uppercase() } else { *c }).collect());
        }
        for deco in [" ", "\t", "\0", "\u{00a0}", "\u{0301}", "\n", "\u{200b}"] {
            v.push(format!("{}{}", deco, r));
            v.push(format!("{}{}", r, deco));
        }
        // full-width letters, doubled last letter, dropped last letter, dotted
        v.push(r.chars().map(|c| char::from_u32(c as u32 - 'a' as u32 + 0xff41).unwrap()).collect());
        v.push(format!("{}{}", r, r.chars().last().unwrap()));
        v.push(r[..2].to_string());
        v.push(format!("{}.", r));
        v.push(format!("{}{}", r, r));
    }
    // names people actually use for claims, incl. the specification's footer claim names (kid, wpk) and the
    // JWT header / payload vocabulary: none of them is reserved
    v.extend(domains::hostile_texts());
    for u in ["https://example.com/claims/roles", "urn:example:claim:department-identifier-with-a-long-name", "x-custom-claim-name-that-is-longer-than-thirty-two-bytes"] {
        v.push(u.to_string());
    }
    v.push("k".repeat(300));
    for u in ["kid", "wpk", "nonce", "scope", "scp", "role", "roles", "name", "email", "typ", "alg", "cty", "azp", "sid", "uid", "user", "userId", "userid", "id", "key", "ver", "version", "purpose", "footer", "implicit", "assertion", "claims", "payload", "token", "exp1", "exp_", "_exp", "iss2", "sub-1", "aud[]", "jti.", "expiration", "not_before", "issued_at", "k", "w", "d"] {
        v.push(u.to_string());
    }
    for u in ["ключ", "鍵", "\u{1d11e}clef", "q\"\\\n", "a b", "data", "EXP", "expires", "issuer", "ｅｘｐ", "e\u{0078}p\u{0000}", "\u{feff}exp"] {
        v.push(u.to_string());
    }
    v
}

#[derive(Clone, Copy, Debug)]
enum VType {
    Str,
    Int,
    Bool,
    Json,
    /// a Serialize value without a JSON form (a map keyed by tuples): whether the key is reserved must not
    /// depend on what the value is
    NoJson,
    /// a value whose Serialize implementation returns an error
    FailingSerialize,
}
const VTYPES: [VType; 6] = [VType::Str, VType::Int, VType::Bool, VType::Json, VType::NoJson, VType::FailingSerialize];
const NO_JSON_SENTINEL: &str = "<value without a JSON form>";
fn tuple_map() -> std::collections::BTreeMap<(u8, u8), u8> {
    let mut m = std::collections::BTreeMap::new();
    m.insert((1u8, 2u8), 3u8);
    m
}
struct Failing;
impl serde::Serialize for Failing {
    fn serialize<S: serde::Serializer>(&self, _s: S) -> Result<S::Ok, S::Error> {
        Err(serde::ser::Error::custom("this value refuses to be serialised"))
    }
}

/// constructs through the given form / value type; Ok((key read back, value read back as JSON))
fn construct(key: &str, form: usize, vt: VType) -> Result<Result<(String, Value), adapter::ErrClass>, String> {
    guard(|| {
        let e = |e: PasetoClaimError| adapter::class_claim(&e);
        match form {
            0 => CustomClaim::try_from(key).map(|c| (c.as_ref().0.clone(), json!(c.as_ref().1))).map_err(e),
            1 => match vt {
                VType::Str => CustomClaim::try_from((key, "v\u{00e9}")).map(|c| (c.as_ref().0.clone(), json!(c.as_ref().1))).map_err(e),
                VType::Int => CustomClaim::try_from((key, -7i64)).map(|c| (c.as_ref().0.clone(), json!(c.as_ref().1))).map_err(e),
                VType::Bool => CustomClaim::try_from((key, true)).map(|c| (c.as_ref().0.clone(), json!(c.as_ref().1))).map_err(e),
                VType::Json => CustomClaim::try_from((key, json!({"exp": [1, null]}))).map(|c| (c.as_ref().0.clone(), c.as_ref().1.clone())).map_err(e),
                VType::NoJson => CustomClaim::try_from((key, tuple_map())).map(|c| (c.as_ref().0.clone(), json!(NO_JSON_SENTINEL))).map_err(e),
                VType::FailingSerialize => CustomClaim::try_from((key, Failing)).map(|c| (c.as_ref().0.clone(), json!(NO_JSON_SENTINEL))).map_err(e),
            },
            _ => match vt {
                VType::Str => CustomClaim::try_from((key.to_string(), "v\u{00e9}")).map(|c| (c.as_ref().0.clone(), json!(c.as_ref().1))).map_err(e),
                VType::Int => CustomClaim::try_from((key.to_string(), -7i64)).map(|c| (c.as_ref().0.clone(), json!(c.as_ref().1))).map_err(e),
                VType::Bool => CustomClaim::try_from((key.to_string(), true)).map(|c| (c.as_ref().0.clone(), json!(c.as_ref().1))).map_err(e),
                VType::Json => CustomClaim::try_from((key.to_string(), json!({"exp": [1, null]}))).map(|c| (c.as_ref().0.clone(), c.as_ref().1.clone())).map_err(e),
                VType::NoJson => CustomClaim::try_from((key.to_string(), tuple_map())).map(|c| (c.as_ref().0.clone(), json!(NO_JSON_SENTINEL))).map_err(e),
                VType::FailingSerialize => CustomClaim::try_from((key.to_string(), Failing)).map(|c| (c.as_ref().0.clone(), json!(NO_JSON_SENTINEL))).map_err(e),
            },
        }
    })
}

fn expected_value(form: usize, vt: VType) -> Value {
    if form == 0 {
        return json!("");
    }
    match vt {
        VType::Str => json!("v\u{00e9}"),
        VType::Int => json!(-7),
        VType::Bool => json!(true),
        VType::Json => json!({"exp": [1, null]}),
        VType::NoJson | VType::FailingSerialize => json!(NO_JSON_SENTINEL),
    }
}

/// the claim read back through a built v4.local token
fn through_token(key: &str, form: usize, vt: VType) -> Option<Value> {
    let wh = Proto::workhorse();
    let km = domains::key_pool(wh)[0].clone();
    let spec = ClaimSpec { key: key.to_string(), value: expected_value(form, vt), form: if form == 0 { Form::KeyOnly } else if form == 1 { Form::TupleStr } else { Form::TupleString } };
    let ops = vec![BOp::Claim(spec), BOp::Build];
    let (ev, _) = adapter::with_rng_script(vec![vec![7u8; 32]], || adapter::build_history(wh, Layer::Generic, &km.sk, &ops));
    let Some(BEvent::Built(Out::Ok(t))) = ev.last() else { return None };
    let pe = adapter::parse_history(wh, Layer::Generic, false, &[km.pk.clone()], &[t.clone()], &[POp::Parse(0, 0)]);
    match pe.last() {
        Some(PEvent::Parsed(Out::Ok(v), _)) => Some(v.clone()),
        _ => None,
    }
}

fn check_key(key: &str, acc: &mut Acc, with_token: bool) {
    let reserved = RESERVED.contains(&key);
    for form in 0..3usize {
        for vt in VTYPES {
            if form == 0 && !matches!(vt, VType::Str) {
                continue;
            }
            acc.executions += 1;
            acc.impl_calls += 1;
            acc.see(&(key, form, vt as usize));
            let r = construct(key, form, vt);
            let case = json!({"kind": "custom-key", "key": key, "form": form, "vtype": vt as usize});
            let sig = |k: &str| format!("C18|custom-key|form{}|{}", form, k);
            match r {
                Err(loc) => acc.violate(sig(&format!("panic|{}", adapter::panic_site(&loc))), format!("CustomClaim constructor panicked at {} for key {:?}", loc, key), case),
                Ok(Err(adapter::ErrClass::Claim(kind, arg))) if kind == "Reserved" => {
                    acc.bump("refused-reserved");
                    if !reserved {
                        acc.violate(sig("non-reserved-refused"), format!("key {:?} is not one of the seven registered keys but was refused as reserved ({})", key, arg), case);
                    }
                }
                Ok(Err(other)) => acc.violate(sig("other-error"), format!("CustomClaim constructor failed with {:?} for key {:?}", other, key), case),
                Ok(Ok((k2, v2))) => {
                    acc.bump("constructed");
                    if reserved {
                        acc.violate(sig("reserved-accepted"), format!("the registered key {:?} was accepted as a custom claim (constructor form {}, value type {:?})", key, form, vt), case);
                    } else if k2 != key || v2 != expected_value(form, vt) {
                        acc.violate(sig("not-kept-verbatim"), format!("key/value changed by the constructor: {:?} -> {:?}, value {}", key, k2, v2), case);
                    } else {
                        acc.controls_ok += 1;
                        if with_token && !key.is_empty() && !matches!(vt, VType::NoJson | VType::FailingSerialize) {
                            acc.impl_calls += 2;
                            match through_token(key, form, vt) {
                                Some(v) if v.as_object().map_or(false, |o| o.len() == 1 && o.get(key) == Some(&expected_value(form, vt))) => acc.bump("read-back-through-token"),
                                other => acc.violate(sig("token-read-back"), format!("custom claim {:?} did not come back unchanged through a v4.local token: {:?}", key, other), case),
                            }
                        }
                    }
                }
            }
        }
    }
}

// ------------------------------------------------------------------------------------------------ time constructors

fn ctor(claim: usize, owned: bool, s: &str) -> Result<Result<String, adapter::ErrClass>, String> {
    guard(|| {
        let e = |e: PasetoClaimError| adapter::class_claim(&e);
        match (claim, owned) {
            (0, false) => ExpirationClaim::try_from(s).map(|c| c.as_ref().1.clone()).map_err(e),
            (0, true) => ExpirationClaim::try_from(s.to_string()).map(|c| c.as_ref().1.clone()).map_err(e),
            (1, false) => NotBeforeClaim::try_from(s).map(|c| c.as_ref().1.clone()).map_err(e),
            (1, true) => NotBeforeClaim::try_from(s.to_string()).map(|c| c.as_ref().1.clone()).map_err(e),
            (_, false) => IssuedAtClaim::try_from(s).map(|c| c.as_ref().1.clone()).map_err(e),
            (_, true) => IssuedAtClaim::try_from(s.to_string()).map(|c| c.as_ref().1.clone()).map_err(e),
        }
    })
}
const CLAIM_NAMES: [&str; 3] = ["ExpirationClaim", "NotBeforeClaim", "IssuedAtClaim"];

fn check_time_string(s: &str, must: Option<bool>, acc: &mut Acc) {
    for claim in 0..3 {
        for owned in [false, true] {
            acc.executions += 1;
            acc.impl_calls += 1;
            let r = ctor(claim, owned, s);
            let case = json!({"kind": "time-ctor", "claim": claim, "owned": owned, "input": s, "must_accept": must});
            let sig = |k: &str| format!("C18|{}|{}", CLAIM_NAMES[claim], k);
            match (r, must) {
                (Err(loc), _) => acc.violate(sig(&format!("panic|{}", adapter::panic_site(&loc))), format!("{}::try_from panicked at {} on {:?}", CLAIM_NAMES[claim], loc, s), case),
                (Ok(Ok(kept)), Some(true)) => {
                    if kept == s {
                        acc.controls_ok += 1;
                        acc.bump("strict-accepted-verbatim");
                    } else {
                        acc.violate(sig("not-kept-verbatim"), format!("{:?} was stored as {:?}", s, kept), case);
                    }
                }
                (Ok(Err(e)), Some(true)) => acc.violate(sig("strict-rfc3339-refused"), format!("the RFC 3339 date-time {:?} was refused: {:?}", s, e), case),
                (Ok(Ok(_)), Some(false)) => acc.violate(sig("non-date-accepted"), format!("{:?} does not start with an ISO 8601 date but was accepted", s), case),
                (Ok(Err(_)), Some(false)) => acc.bump("non-date-refused"),
                (Ok(Ok(_)), None) => acc.bump("unconstrained-accepted"),
                (Ok(Err(_)), None) => acc.bump("unconstrained-refused"),
            }
        }
    }
}

fn non_date_strings() -> Vec<String> {
    let mut v: Vec<String> = vec![String::new()];
    let al = ['2', '0', '-', 'T', 'x'];
    for a in al {
        v.push(a.to_string());
        for b in al {
            v.push(format!("{}{}", a, b));
            for c in al {
                v.push(format!("{}{}{}", a, b, c));
            }
        }
    }
    // long non-dates: a multi-byte character at every byte offset 0..=140 (whatever an implementation cuts
    // or echoes of the rejected value must respect character boundaries)
    for n in 0..=140usize {
        v.push(format!("{}\u{00e9}\u{20ac}\u{1f642}{}", "x".repeat(n), "y".repeat(8)));
        v.push(format!("{}\u{65e5}\u{672c}\u{8a9e}", "-".repeat(n)));
    }
    for s in ["hello", "T00:00:00Z", " 2999-01-01T00:00:00Z", "\t2999-01-01T00:00:00Z", "x2999-01-01T00:00:00Z", "2999-13-01T00:00:00Z", "2999-1-1T00:00:00Z", "2999-00-10T00:00:00Z", "2999-01-32T00:00:00Z", "next tuesday", "00:00:00Z", "Z", "-", "\u{ff12}999-01-01T00:00:00Z"] {
        v.push(s.to_string());
    }
    v
}

pub fn run(tier: &str) -> i32 {
    let run = Run::new("C18", tier);
    let quick = tier == "quick";

    // ---- keys: all strings of length 0..=4 over the 8-symbol alphabet; units by first symbol
    let mut all = Acc::default();
    let units: Vec<usize> = (0..=KEY_ALPHABET.len()).collect();
    let accs = par_units(&units, |u| {
        let mut acc = Acc::default();
        if *u == KEY_ALPHABET.len() {
            // the empty key, and the decorated / Unicode variants (these also go through a token)
            check_key("", &mut acc, false);
            for k in decorated_reserved() {
                check_key(&k, &mut acc, true);
                acc.choice_points += 1;
            }
            for r in RESERVED {
                check_key(r, &mut acc, false);
            }
            acc.sample(json!({"kind": "custom-key", "key": "exp\u{0000}", "forms": 3, "value_types": 4, "expected": "accepted (not byte-equal to a registered key)"}));
            return acc;
        }
        for len in 1..=4usize {
            let (_, pts) = explore(None, |c| {
                let mut s = String::new();
                s.push(KEY_ALPHABET[*u]);
                for _ in 1..len {
                    s.push(KEY_ALPHABET[c.choose("key symbol", KEY_ALPHABET.len())]);
                }
                // token read-back for the short ones (and everything in thorough)
                check_key(&s, &mut acc, !quick || len <= 3);
            });
            acc.choice_points += pts;
        }
        acc
    });
    all.merge(Acc::merge_all(accs));

    // ---- time constructors: one buffer holding a date-time, then - same address, same length - something else
    {
        let mut acc = Acc::default();
        for claim in 0..3 {
            for (valid, other) in [
                ("2999-01-01T00:00:00Z", "certainly not a date"),
                ("2999-01-01T00:00:00Z", "2999-13-41T99:99:99Z"),
                ("2999-01-01T00:00:00+00:00", "xxxxxxxxxxxxxxxxxxxxxxxxx"),
                ("1999-12-31T23:59:59.5Z", "                      "),
            ] {
                assert_eq!(valid.len(), other.len());
                let mut bytes = valid.as_bytes().to_vec();
                let first = ctor(claim, false, std::str::from_utf8(&bytes).unwrap());
                bytes.copy_from_slice(other.as_bytes());
                let second = ctor(claim, false, std::str::from_utf8(&bytes).unwrap());
                // and back: the buffer holds a date-time again
                bytes.copy_from_slice(valid.as_bytes());
                let third = ctor(claim, false, std::str::from_utf8(&bytes).unwrap());
                acc.executions += 3;
                acc.impl_calls += 3;
                acc.choice_points += 1;
                let ok = matches!(first, Ok(Ok(_))) && matches!(second, Ok(Err(_))) && matches!(third, Ok(Ok(_)));
                // "2999-13-41T99:99:99Z" starts with something date-shaped: the property leaves it unconstrained
                let unconstrained = other.starts_with("2999-13");
                if ok || (unconstrained && matches!(first, Ok(Ok(_))) && matches!(third, Ok(Ok(_))) && !matches!(second, Err(_))) {
                    acc.controls_ok += 1;
                    acc.bump("same-buffer:conforms");
                } else {
                    acc.violate(
                        format!("C18|{}|same-buffer", CLAIM_NAMES[claim]),
                        format!("{}::try_from on one buffer holding {:?}, then {:?} (same address and length), then {:?} again: {:?} / {:?} / {:?} - expected accepted, refused, accepted", CLAIM_NAMES[claim], valid, other, valid, first, second, third),
                        json!({"kind": "same-buffer", "claim": claim, "valid": valid, "other": other}),
                    );
                }
            }
        }
        all.merge(acc);
    }

    // ---- time constructors: leap seconds that did occur (RFC 3339 section 5.8 gives the first two as examples of
    //      valid date-times), in UTC and in local offsets
    {
        let mut acc = Acc::default();
        for s in [
            "1990-12-31T23:59:60Z", "1990-12-31T15:59:60-08:00", "2016-12-31T23:59:60Z", "2017-01-01T08:59:60+09:00", "2015-06-30T23:59:60Z", "2015-07-01T05:29:60+05:30",
            "2016-12-31T23:59:60.5Z", "2016-12-31T18:59:60.123456789-05:00", "1972-06-30T23:59:60+00:00",
        ] {
            check_time_string(s, Some(true), &mut acc);
            acc.choice_points += 1;
        }
        all.merge(acc);
    }

    // ---- time constructors: the strict rendering grid
    let dates: [(i64, i64, i64); 8] = [(1971, 1, 1), (2000, 2, 29), (2024, 2, 29), (2026, 6, 15), (2029, 12, 31), (9000, 6, 15), (1, 1, 1), (9999, 12, 31)];
    let times = ["00:00:00", "00:00:01", "12:34:56", "19:08:07", "23:59:59"];
    let fracs = [
        "", ".0", ".5", ".12", ".123", ".1234", ".12345", ".123456", ".1234567", ".12345678", ".123456789", ".000000001", ".999999999",
        // more digits than a nanosecond, incl. values that round up to the next second
        ".1234567891", ".0000000000", ".9999999994", ".9999999995", ".9999999999", ".999999999999", ".99999999999999999999", ".50000000000000000000000000000001",
    ];
    let mut offs: Vec<String> = vec!["Z".to_string()];
    for o in rfc3339::all_offsets() {
        offs.push(format!("{}{:02}:{:02}", if o < 0 { '-' } else { '+' }, o.abs() / 3600, o.abs() % 3600 / 60));
    }
    offs.push("-00:00".to_string());
    let stride = if quick { 13 } else { 1 };
    let units: Vec<(usize, usize)> = (0..dates.len()).flat_map(|d| (0..times.len()).map(move |t| (d, t))).collect();
    let accs = par_units(&units, |(di, ti)| {
        let mut acc = Acc::default();
        let (y, m, d) = dates[*di];
        let offs_here: Vec<&String> = offs.iter().step_by(stride).collect();
        let (_, pts) = explore(None, |c| {
            let f = fracs[c.choose("fraction form", fracs.len())];
            let o = offs_here[c.choose("utc offset", offs_here.len())];
            let s = format!("{:04}-{:02}-{:02}T{}{}{}", y, m, d, times[*ti], f, o);
            let must = match rfc3339::parse(&s) {
                Some((Class::Strict, _)) => Some(true),
                // the grammar puts no bound on the number of fraction digits (time-secfrac = "." 1*DIGIT): with
                // upper-case T and Z such a string is an RFC 3339 date-time the constructors must keep. (R4 calls
                // it lenient only because the *instant* beyond nanoseconds is read differently by parsers.)
                Some((Class::Lenient, _)) if f.len() > 10 => Some(true),
                Some((Class::Lenient, _)) => None,
                None => crate::report::machinery_error("the rendering grid produced a string R4 does not read"),
            };
            acc.see(&s);
            check_time_string(&s, must, &mut acc);
            if acc.samples.is_empty() && f.len() == 10 && o.len() == 6 {
                acc.sample(json!({"kind": "time-ctor", "input": s, "constructors": 3, "forms": ["&str", "String"], "expected": "accepted and kept verbatim"}));
            }
        });
        acc.choice_points += pts;
        acc
    });
    all.merge(Acc::merge_all(accs));

    // ---- strings that do not start with an ISO 8601 date
    let mut nacc = Acc::default();
    for s in non_date_strings() {
        nacc.see(&s);
        // a string that starts with a digit might be an ISO 8601 reduced-precision / basic-format date for
        // some parser: only strings that cannot start a date are constrained
        let starts_like_a_date = s.chars().next().map_or(false, |c| c.is_ascii_digit()) && s.len() <= 3;
        check_time_string(&s, if starts_like_a_date { None } else { Some(false) }, &mut nacc);
        nacc.choice_points += 1;
    }
    // a strict string travels verbatim through a token as exp / nbf / iat
    for (key, s) in [("exp", "2999-06-15T12:34:56.123456789+05:30"), ("nbf", "1999-01-01T00:00:00Z"), ("iat", "2026-06-15T23:59:59.5-23:59")] {
        let wh = Proto::workhorse();
        let km = domains::key_pool(wh)[0].clone();
        let ops = vec![BOp::Claim(ClaimSpec::auto(key, json!(s))), BOp::Build];
        let (ev, _) = adapter::with_rng_script(vec![vec![7u8; 32]], || adapter::build_history(wh, Layer::Generic, &km.sk, &ops));
        nacc.executions += 1;
        let ok = match ev.last() {
            Some(BEvent::Built(Out::Ok(t))) => matches!(adapter::parse_history(wh, Layer::Generic, false, &[km.pk.clone()], &[t.clone()], &[POp::Parse(0, 0)]).last(), Some(PEvent::Parsed(Out::Ok(v), _)) if v[key] == json!(s)),
            _ => false,
        };
        if !ok {
            nacc.violate(format!("C18|{}|token-read-back", key), format!("the {} value {:?} did not travel verbatim through a token", key, s), json!({"kind": "time-token", "key": key, "input": s}));
        }
    }
    all.merge(nacc);

    all.states = all.distinct.len() as u64;
    if all.controls_ok == 0 {
        crate::report::machinery_error("C18: nothing was constructed (vacuous)");
    }
    let extra = json!({
        "space": "custom keys: every string of length 0..=4 over {e,x,p,E,i,s,blank,NUL} (4 681) + decorated variants of the 7 registered keys + Unicode keys, x 3 constructor forms x 6 value types (string, integer, boolean, JSON value, a map without JSON form, a value whose Serialize fails); time constructors: 8 dates x 5 times x 21 fraction forms (0-9 digits and 10-32 digits incl. values rounding up to the next second) x 2 881 offsets x 3 claims x {&str, String}; strings that do not start with an ISO 8601 date",
        "time_grid_offset_stride": stride,
        "distinct_rule": "distinct (key, form, value type) and distinct time strings",
        "caps_hit": if quick { json!(["quick: every 13th UTC offset in the time-constructor grid"]) } else { json!([]) },
    });
    run.finish(&all, true, extra, &["R4 decides which strings are strict RFC 3339; strings that merely start with a date (trailing garbage, date-only forms) are outside what the statement fixes"])
}

pub fn replay(case: &Value) -> i32 {
    let mut acc = Acc::default();
    match case["kind"].as_str() {
        Some("custom-key") => check_key(case["key"].as_str().unwrap_or(""), &mut acc, true),
        Some("time-ctor") => check_time_string(case["input"].as_str().unwrap_or(""), case["must_accept"].as_bool(), &mut acc),
        _ => crate::report::machinery_error("unknown C18 replay kind"),
    }
    for v in &acc.violations {
        println!("VIOLATION property=C18 replay=(this file)\n  key:  {}\n  what: {}", v.key, v.what);
    }
    if acc.violations.is_empty() {
        println!("replay: property holds on this case");
        0
    } else {
        1
    }
}
