//! C04 (key), C05 (footer), C06 (implicit assertion), C07 (version/purpose): what a token is bound to.
//! Engine A over pair spaces; oracle R2 (`cases::judge`): accept iff the presentation is authentic.

use crate::adapter::{Layer, Out, Proto};
use crate::b64;
use crate::cases::{judge, IssueCase, Judgement, Presentation};
use crate::domains::{self, KeyMat};
use crate::explore::{explore, par_units};
use crate::report::{Acc, Run};
use serde_json::json;

fn units_proto_layer(protos: &[Proto]) -> Vec<(Proto, Layer)> {
    protos.iter().flat_map(|p| Layer::ALL.iter().map(move |l| (*p, *l))).collect()
}

fn seed_for(p: Proto) -> Option<Vec<u8>> {
    if p.is_local() {
        Some(domains::seeds(p)[2].clone())
    } else {
        None
    }
}

thread_local! {
    /// did the verbatim control of the token currently under test pass? (set by `issue_with_control`)
    static CONTROL_OK: std::cell::Cell<bool> = std::cell::Cell::new(true);
}

/// present `pres` against the issued case, judge with R2, record
fn check(prop: &str, tag: &str, issue: &IssueCase, token: &str, pres: &Presentation, expect_accept: Option<bool>, acc: &mut Acc) {
    // a token that is refused under its own key/footer/assertion is C01/C02's business: demanding acceptance
    // of equivalent presentations would only repeat that; but *accepting* a presentation that is not
    // authentic is this property's business whatever the control did, so negative presentations still run
    if !CONTROL_OK.with(|c| c.get()) && expect_accept == Some(true) {
        return;
    }
    let (obs, calls) = pres.present();
    acc.executions += 1;
    acc.impl_calls += 1;
    acc.see(&(tag, &pres.token, &pres.pk_hex, &pres.footer, &pres.assertion, pres.layer, pres.proto));
    acc.bump(&format!("{}:{}", tag, if obs.is_ok() { "accepted" } else if obs.is_err() { "rejected" } else { "panic" }));
    let mut verdict = judge(issue, token, pres, &obs, calls, false);
    // `judge` only demands acceptance for the verbatim control; the iff-properties demand it for every
    // authentic (footer / assertion equivalent) presentation of the untouched text
    if let (Judgement::Pass, Some(true), false) = (&verdict, expect_accept, obs.is_ok()) {
        verdict = Judgement::Fail("authentic-rejected".into(), format!("a presentation with the matching key/footer/assertion was rejected: {}", obs.short()));
    }
    // a rejection must be repeatable: the same presentation made again straight away (a failed attempt may
    // have left state behind - a half-updated key slot, a cached comparison) must be rejected again
    let mut tag = tag.to_string();
    if matches!(verdict, Judgement::Pass) && obs.is_err() && expect_accept != Some(true) {
        let (obs2, calls2) = pres.present();
        acc.executions += 1;
        acc.impl_calls += 1;
        if !obs2.is_err() {
            if let Judgement::Fail(kind, why) = judge(issue, token, pres, &obs2, calls2, false) {
                verdict = Judgement::Fail(kind, format!("rejected at first, but the same presentation repeated immediately afterwards: {}", why));
                tag = format!("{}:retried", tag);
            }
        }
    }
    let tag = tag.as_str();
    if let Judgement::Fail(kind, why) = verdict {
        let key = match &obs {
            Out::Panic(loc) => format!("{}|{}|{}|panic|{}", prop, pres.proto.name(), pres.layer.name(), crate::adapter::panic_site(loc)),
            _ => format!("{}|{}|{}|{}|{}", prop, pres.proto.name(), pres.layer.name(), tag, kind),
        };
        let expectation = if expect_accept == Some(true) { "r.is_ok()" } else { "r.is_err()" };
        acc.violate(
            key,
            format!("{}: {}", tag, why),
            json!({"issue": issue, "issued_token": token, "presentation": pres, "tag": tag, "expect_accept": expect_accept,
                   "unit_test": crate::cases::unit_test_for(pres, expectation, tag)}),
        );
    }
}

/// issue + verbatim control. None if nothing was issued. If the control fails this is counted, the
/// acceptance-demanding presentations of this token are skipped (see `check`), the rejecting ones still run.
fn issue_with_control(case: &IssueCase, acc: &mut Acc) -> Option<String> {
    acc.impl_calls += 2;
    let Out::Ok(token) = case.issue() else {
        acc.skipped_control_failed += 1;
        CONTROL_OK.with(|c| c.set(true));
        return None;
    };
    let (obs, _) = Presentation::of(case, &token).present();
    if obs.is_ok() {
        acc.controls_ok += 1;
        CONTROL_OK.with(|c| c.set(true));
    } else {
        acc.skipped_control_failed += 1;
        acc.bump("control-failed(see C01/C02)");
        CONTROL_OK.with(|c| c.set(false));
    }
    Some(token)
}

fn finish(run: Run, all: Acc, extra: serde_json::Value) -> i32 {
    if all.controls_ok == 0 {
        crate::report::machinery_error("no positive control succeeded (vacuous)");
    }
    let mut all = all;
    all.states = all.distinct.len() as u64;
    run.finish(&all, true, extra, &["pair spaces over the alphabets of DESIGN.md section 3; every negative case has its positive control in the same unit"])
}

fn reuse_dim(prop: &str) -> crate::props::reuse::Dim {
    match prop {
        "C04" => crate::props::reuse::Dim::Key,
        "C05" => crate::props::reuse::Dim::Footer,
        _ => crate::props::reuse::Dim::Assertion,
    }
}

/// a footer (C05) / assertion (C06) must not be conflated with its trimmed, case-folded, normalised ...
/// variants: built with h, presented with each variant -> reject; presented with h itself -> accept
fn conflation_pass(prop: &str, protos: &[Proto]) -> Acc {
    let units = units_proto_layer(protos);
    let accs = par_units(&units, |(p, l)| {
        let mut acc = Acc::default();
        let key = domains::key_pool(*p)[0].clone();
        let seed = seed_for(*p);
        for h in domains::hostile_texts() {
            let (f, a) = if prop == "C05" { (Some(h.clone()), None) } else { (None, Some(h.clone())) };
            let case = IssueCase::new(*p, *l, &key, seed.as_deref(), "{\"data\":\"x\"}", &f, &a);
            let Some(token) = issue_with_control(&case, &mut acc) else { continue };
            for v in domains::conflation_variants(&h) {
                let mut pres = Presentation::of(&case, &token);
                if prop == "C05" {
                    pres.footer = if v.is_empty() { None } else { Some(v.clone()) };
                } else {
                    pres.assertion = if v.is_empty() { None } else { Some(v.clone()) };
                }
                check(prop, "conflated-variant", &case, &token, &pres, None, &mut acc);
                acc.choice_points += 1;
            }
        }
        acc
    });
    Acc::merge_all(accs)
}

/// footers (C05) / assertions (C06) whose length lies on both sides of the sizes at which an implementation
/// might switch strategy (stack buffer, chunk, length-field width): three consecutive lengths (all residues
/// mod 3 of the base64 form) around each listed size. Built with T: accepted with T, rejected with the nearest
/// other texts, and (C05) with the token's footer segment re-spelled.
fn size_ladder_pass(prop: &str, protos: &[Proto], quick: bool) -> Acc {
    let sizes: Vec<usize> = if quick { vec![8_192, 12_288, 16_384, 65_536] } else { vec![1_024, 2_048, 4_096, 8_192, 12_288, 16_384, 24_576, 32_768, 49_152, 65_536, 131_072, 1_048_576] };
    let units: Vec<(Proto, Layer, usize)> = units_proto_layer(protos).into_iter().flat_map(|(p, l)| sizes.clone().into_iter().map(move |s| (p, l, s))).collect();
    let accs = par_units(&units, |(p, l, size)| {
        let mut acc = Acc::default();
        let key = domains::key_pool(*p)[0].clone();
        let seed = seed_for(*p);
        let mut texts: Vec<String> = [*size - 1, *size, *size + 1, *size + 2]
            .iter()
            // printable ASCII with a period that is co-prime to 3 and 4, no two neighbours equal
            .map(|len| (0..*len).map(|i| (b'!' + ((i * 7 + i / 89) % 89) as u8) as char).collect())
            .collect();
        // JSON documents of that size class: an object with many small members (about size / 9 of them) and an
        // object with one long member (what footers usually are; implementation guides suggest limits for them)
        let n_members = (*size / 9).max(2);
        texts.push(format!("{{{}}}", (0..n_members).map(|i| format!("\"k{}\":{}", i, i % 10)).collect::<Vec<_>>().join(",")));
        texts.push(format!("{{\"kid\":\"{}\"}}", "k".repeat(*size)));
        for t in texts {
            let len = t.len();
            let (f, a) = if prop == "C05" { (Some(t.clone()), None) } else { (Some("f".to_string()), Some(t.clone())) };
            let case = IssueCase::new(*p, *l, &key, seed.as_deref(), "{\"data\":\"x\"}", &f, &a);
            // no separate control here: accepting the token under the very text it was built with IS the first
            // presentation below (texts of these sizes and shapes occur in no other check's alphabet)
            acc.impl_calls += 1;
            let Out::Ok(token) = case.issue() else {
                acc.violate(format!("{}|{}|{}|large-text|not-issued", prop, p.name(), l.name()), format!("no token could be built with a {} of {} bytes ({}...)", if prop == "C05" { "footer" } else { "assertion" }, len, t.chars().take(24).collect::<String>()), json!({"issue": case, "issued_token": "", "presentation": Presentation::of(&case, ""), "tag": "large-text:not-issued"}));
                continue;
            };
            CONTROL_OK.with(|c| c.set(true));
            acc.controls_ok += 1;
            acc.choice_points += 1;
            let with = |v: Option<String>| {
                let mut pres = Presentation::of(&case, &token);
                if prop == "C05" {
                    pres.footer = v;
                } else {
                    pres.assertion = v;
                }
                pres
            };
            check(prop, "large-text:same", &case, &token, &with(Some(t.clone())), Some(true), &mut acc);
            let mut last = t.clone();
            last.pop();
            last.push('~');
            let mut first = t.clone();
            first.replace_range(0..1, "~");
            let mut mid = t.clone();
            mid.replace_range(len / 2..len / 2 + 1, "~");
            for (tag, v) in [
                ("large-text:last-byte-changed", Some(last)),
                ("large-text:first-byte-changed", Some(first)),
                ("large-text:middle-byte-changed", Some(mid)),
                ("large-text:one-byte-shorter", Some(t[..len - 1].to_string())),
                ("large-text:one-byte-longer", Some(format!("{}x", t))),
                ("large-text:half", Some(t[..len / 2].to_string())),
                ("large-text:none", None),
            ] {
                check(prop, tag, &case, &token, &with(v), Some(false), &mut acc);
            }
            if prop == "C05" {
                if let Some(seg) = footer_segment(&token) {
                    let head = &token[..token.len() - seg.len()];
                    let mut respelled: Vec<String> = vec![format!("{}=", seg), format!("{}==", seg), format!("{}{}", seg, "=".repeat((4 - seg.len() % 4) % 4)), seg[..seg.len() - 1].to_string(), format!("{}A", seg)];
                    if let Some(v) = seg.as_bytes().last().and_then(|c| b64::val(*c)) {
                        // the unused low bits of the last character set (same decoded bytes under a lenient decoder)
                        for extra in 1..4u8 {
                            let nv = v | extra;
                            if nv != v && seg.len() % 4 != 0 {
                                respelled.push(format!("{}{}", &seg[..seg.len() - 1], b64::ALPHABET[nv as usize] as char));
                            }
                        }
                    }
                    respelled.retain(|r| r != seg);
                    for r in respelled {
                        let t2 = format!("{}{}", head, r);
                        check(prop, "large-text:footer-segment-respelled", &case, &token, &Presentation::of(&case, &t2), None, &mut acc);
                    }
                }
            }
        }
        acc
    });
    Acc::merge_all(accs)
}

/// object-reuse histories (second build, reconfigured / re-keyed parser) for the binding this property owns
fn reuse_pass(prop: &str, protos: &[Proto]) -> Acc {
    let accs = par_units(protos, |p| {
        let mut acc = Acc::default();
        let obs = crate::props::reuse::all_for(*p);
        crate::props::reuse::record(prop, *p, &obs, &[reuse_dim(prop)], &mut acc);
        acc.choice_points += obs.len() as u64;
        acc
    });
    Acc::merge_all(accs)
}

pub fn replay(prop: &'static str, case: &serde_json::Value) -> i32 {
    if case.get("reuse_case").is_some() {
        return crate::props::reuse::replay(prop, case, &[reuse_dim(prop)]);
    }
    if case["tag"].as_str().map_or(false, |t| t.starts_with("reentrant-footer")) {
        println!("this finding needs the re-entrant expected-footer argument of the run: re-run `./check {} quick`", prop);
        return 2;
    }
    let (Ok(ic), Ok(pres)) = (serde_json::from_value::<IssueCase>(case["issue"].clone()), serde_json::from_value::<Presentation>(case["presentation"].clone())) else {
        crate::report::machinery_error("replay file lacks issue / presentation");
    };
    let issued = case["issued_token"].as_str().unwrap_or("").to_string();
    let expect: Option<bool> = case["expect_accept"].as_bool();
    let mut keys = Vec::new();
    for _ in 0..2 {
        let mut acc = Acc::default();
        // as in the run: the verbatim control precedes the presentation under test
        let _ = Presentation::of(&ic, &issued).present();
        check(prop, case["tag"].as_str().unwrap_or("replay").trim_end_matches(":retried"), &ic, &issued, &pres, expect, &mut acc);
        keys.push(acc.violations.iter().map(|v| (v.key.clone(), v.what.clone())).collect::<Vec<_>>());
    }
    if keys[0] != keys[1] {
        crate::report::machinery_error("replay is not deterministic");
    }
    for (k, w) in &keys[0] {
        println!("VIOLATION property={} replay=(this file)\n  key:  {}\n  what: {}", prop, k, w);
    }
    if keys[0].is_empty() {
        println!("replay: property holds on this case");
        0
    } else {
        1
    }
}

// ------------------------------------------------------------------------------------------------ C04

fn flip_bit(b: &[u8], i: usize) -> Vec<u8> {
    let mut v = b.to_vec();
    v[i / 8] ^= 1 << (i % 8);
    v
}

/// v3.public: wrong keys that are mathematically related to the token - every key recoverable from the
/// token's own ECDSA signature (computed by the reference, spec/p384_recover.py), under the specification's
/// digest and under the digest of an implementation that forgot to bind the public key into the PAE.
fn p384_recovered_keys_pass(acc: &mut Acc) {
    if !Proto::V3P.enabled() {
        return;
    }
    let dir = crate::report::verif_dir();
    let pool = domains::key_pool(Proto::V3P);
    let mut cases: Vec<(IssueCase, String, Layer)> = Vec::new();
    for (ki, k) in pool.iter().enumerate() {
        for (fo, ao) in [(None, None), (Some("f".to_string()), Some("{\"a\":1}".to_string()))] {
            for layer in Layer::ALL {
                let case = IssueCase::new(Proto::V3P, layer, k, None, &domains::message(17 + ki, 0), &fo, &ao);
                if let Some(t) = issue_with_control(&case, acc) {
                    cases.push((case, t, layer));
                }
            }
        }
    }
    let inp = dir.join("target").join("c04-recover-in.json");
    let outp = dir.join("target").join("c04-recover-out.json");
    let _ = std::fs::create_dir_all(dir.join("target"));
    let list: Vec<serde_json::Value> = cases.iter().map(|(c, t, _)| json!({"token": t, "pk": c.pk_hex, "footer": c.footer, "assertion": c.assertion})).collect();
    std::fs::write(&inp, serde_json::to_string(&list).unwrap()).unwrap_or_else(|_| crate::report::machinery_error("cannot write recover input"));
    let st = std::process::Command::new("python3").arg(dir.join("spec/p384_recover.py")).arg(&inp).arg(&outp).output();
    if !matches!(&st, Ok(o) if o.status.success()) {
        crate::report::machinery_error("spec/p384_recover.py failed");
    }
    let Ok(txt) = std::fs::read_to_string(&outp) else { crate::report::machinery_error("no recover output") };
    let Ok(res) = serde_json::from_str::<Vec<serde_json::Value>>(&txt) else { crate::report::machinery_error("recover output is not JSON") };
    let mut n = 0u64;
    for ((case, token, _), r) in cases.iter().zip(res.iter()) {
        for cand in r["candidates"].as_array().cloned().unwrap_or_default() {
            let mut pres = Presentation::of(case, token);
            pres.pk_hex = cand.as_str().unwrap_or("").to_string();
            check("C04", "key-recovered-from-the-signature", case, token, &pres, None, acc);
            n += 1;
        }
    }
    acc.choice_points += n;
    if n == 0 {
        crate::report::machinery_error("no recovered P-384 key was produced (vacuous)");
    }
}

/// Ed25519 key material whose two halves do not belong together (seed of pair A, public half of pair B).
/// Refusing to sign is fine; if a token is produced, the only key that may verify it is the public half the
/// key material carries (B) - in particular not A's.
fn mismatched_halves_pass(acc: &mut Acc) {
    for p in [Proto::V2P, Proto::V4P].into_iter().filter(|p| p.enabled()) {
        let pool = domains::key_pool(p);
        let (a, b) = (&pool[2], &pool[5]);
        let mut sk = a.sk[..32].to_vec();
        sk.extend_from_slice(&b.pk);
        let franken = KeyMat { label: "seed-of-A+public-half-of-B".into(), sk, pk: b.pk.clone(), secret_for_ref: String::new() };
        for layer in Layer::ALL {
            let case = IssueCase::new(p, layer, &franken, None, "{\"data\":\"x\"}", &None, &None);
            acc.executions += 1;
            let Out::Ok(token) = case.issue() else {
                acc.bump("mismatched-halves:signing-refused");
                continue;
            };
            acc.bump("mismatched-halves:token-produced");
            CONTROL_OK.with(|c| c.set(true));
            for other in pool.iter().filter(|k| k.pk != b.pk) {
                let mut pres = Presentation::of(&case, &token);
                pres.pk_hex = b64::hex(&other.pk);
                check("C04", "token-from-mismatched-key-halves-under-another-key", &case, &token, &pres, None, acc);
            }
        }
    }
}

pub fn run_c04(tier: &str) -> i32 {
    let run = Run::new("C04", tier);
    let quick = tier == "quick";
    let units = units_proto_layer(&Proto::ALL);
    let accs = par_units(&units, |(p, l)| {
        let mut acc = Acc::default();
        let pool = domains::key_pool(*p);
        let msgs = [domains::message(0, 0), domains::message(17, 1), domains::message(65, 0)];
        let fas: Vec<(Option<String>, Option<String>)> = vec![(None, None), (Some("f".into()), None), (None, Some("{\"test-vector\":\"4-S-3\"}".into())), (Some("f".into()), Some("{\"test-vector\":\"4-S-3\"}".into()))];
        let seed = seed_for(*p);
        let (_, pts) = explore(None, |c| {
            let ki = c.choose("issuing key", pool.len());
            let mi = c.choose("message", if quick && !p.is_local() && pool.len() > 4 { 2 } else { msgs.len() });
            let fi = c.choose("footer/assertion", if p.has_assertion() { 4 } else { 2 });
            let case = IssueCase::new(*p, *l, &pool[ki], seed.as_deref(), &msgs[mi], &fas[fi].0, &fas[fi].1);
            let Some(token) = issue_with_control(&case, &mut acc) else { return };
            for (kj, other) in pool.iter().enumerate() {
                if kj == ki {
                    continue;
                }
                let mut pres = Presentation::of(&case, &token);
                pres.pk_hex = b64::hex(&other.pk);
                check("C04", "other-pool-key", &case, &token, &pres, None, &mut acc);
            }
        });
        acc.choice_points += pts;
        // single-bit neighbours of the accepting key (local: of the official key, both directions)
        let base_key = &pool[0];
        let case = IssueCase::new(*p, *l, base_key, seed.as_deref(), &msgs[1], &fas[1].0, &None);
        if let Some(token) = issue_with_control(&case, &mut acc) {
            let bits = base_key.pk.len() * 8;
            let step = if quick && bits > 512 { 7 } else { 1 }; // quick: every 7th bit of the 2160-bit RSA key DER
            let mut i = 0;
            while i < bits {
                let mut pres = Presentation::of(&case, &token);
                pres.pk_hex = b64::hex(&flip_bit(&base_key.pk, i));
                check("C04", "bit-neighbour-of-accepting-key", &case, &token, &pres, None, &mut acc);
                acc.choice_points += 1;
                if p.is_local() && (!quick || i % 8 == 0) {
                    // the other direction: issued under the neighbour, presented with the original
                    let nb = KeyMat { label: format!("sym0^bit{}", i), sk: flip_bit(&base_key.sk, i), pk: flip_bit(&base_key.pk, i), secret_for_ref: String::new() };
                    let c2 = IssueCase::new(*p, *l, &nb, seed.as_deref(), &msgs[1], &fas[1].0, &None);
                    if let Some(t2) = issue_with_control(&c2, &mut acc) {
                        let mut pres = Presentation::of(&c2, &t2);
                        pres.pk_hex = b64::hex(&base_key.pk);
                        check("C04", "issued-under-bit-neighbour", &c2, &t2, &pres, None, &mut acc);
                    }
                }
                i += step;
            }
            if *p == Proto::V1P && base_key.pk.len() > 9 && base_key.pk.ends_with(&[0x02, 0x03, 0x01, 0x00, 0x01]) && base_key.pk.starts_with(&[0x30, 0x82]) {
                // the same modulus under other public exponents (RSAPublicKey ::= SEQUENCE { n INTEGER, e INTEGER },
                // rebuilt with its lengths): exponents of 1 to 9 bytes, incl. values that equal 65537 modulo 2^16,
                // 2^24, 2^32 and 2^64 and the limits of what verifiers accept (2^33 - 1)
                let modulus_tlv = &base_key.pk[4..base_key.pk.len() - 5];
                let exps: [u128; 20] = [0, 1, 3, 5, 17, 257, 65_535, 65_539, (1 << 16) + 65_537, (1 << 17) + 1, (1 << 24) + 65_537, (1 << 31) + 65_537, (1u128 << 32) + 65_537, (1u128 << 32) + 1, (1u128 << 33) - 1, (1u128 << 33) + 65_537, (1u128 << 40) + 65_537, (1u128 << 63) + 65_537, (1u128 << 64) + 65_537, (1u128 << 65) + 65_537];
                for e in exps {
                    let mut eb: Vec<u8> = e.to_be_bytes().iter().copied().skip_while(|b| *b == 0).collect();
                    if eb.is_empty() || eb[0] & 0x80 != 0 {
                        eb.insert(0, 0);
                    }
                    let mut body = modulus_tlv.to_vec();
                    body.push(0x02);
                    body.push(eb.len() as u8);
                    body.extend_from_slice(&eb);
                    let mut der = vec![0x30, 0x82, (body.len() >> 8) as u8, body.len() as u8];
                    der.extend_from_slice(&body);
                    let mut pres = Presentation::of(&case, &token);
                    pres.pk_hex = b64::hex(&der);
                    check("C04", "rsa-same-modulus-other-exponent", &case, &token, &pres, None, &mut acc);
                    acc.choice_points += 1;
                }
            }
            // core layer: a wrong key, while the expected-footer argument's conversion opens the same token with
            // the right key on the same thread (scratch state of the inner call must not serve the outer one)
            if *l == Layer::Core {
                for (kj, other) in pool.iter().enumerate().skip(1).take(3) {
                    let _ = kj;
                    let rf = crate::adapter::ReFooter { footer: fas[1].0.as_deref(), other: *p, other_key: &base_key.pk, other_text: &token, other_footer: fas[1].0.as_deref() };
                    let o = crate::adapter::core_present_refooter(*p, &other.pk, &token, rf);
                    acc.executions += 1;
                    acc.impl_calls += 1;
                    acc.choice_points += 1;
                    if !o.is_err() {
                        acc.violate(
                            format!("C04|{}|core|reentrant-right-key-inside|accepted", p.name()),
                            format!("a {} token presented under the wrong key {} while the expected-footer argument's conversion opens the same token under the right key on the same thread: {}", p.name(), other.label, o.short()),
                            json!({"issue": case, "issued_token": token, "presentation": Presentation::of(&case, &token), "tag": "reentrant-footer-right-key"}),
                        );
                    } else {
                        acc.bump("reentrant-right-key-inside:rejected");
                    }
                }
            }
            // local protocols, core layer: EVERY key that differs from the accepting key in its low 12 (thorough: 16)
            // bits, against the shortest tokens (empty message and "{}": whatever a wrong key stream makes of
            // them is still text, so nothing but the tag stands between the wrong key and acceptance). A tag
            // comparison that lets through some fraction of wrong tags (a fold that cancels, a truncated or
            // sampled comparison) is met by about that fraction of these keys.
            if p.is_local() && *l == Layer::Core {
                let nbits = if quick { 12 } else { 16 };
                for (mi, m) in [String::new(), "{}".to_string()].iter().enumerate() {
                    if quick && mi == 1 && !matches!(*p, Proto::V4L) {
                        continue;
                    }
                    let case = IssueCase::new(*p, *l, base_key, seed.as_deref(), m, &None, &None);
                    let Some(token) = issue_with_control(&case, &mut acc) else { continue };
                    let n = base_key.pk.len();
                    for d in 1u32..(1u32 << nbits) {
                        let mut k = base_key.pk.clone();
                        k[n - 1] ^= (d & 0xff) as u8;
                        k[n - 2] ^= (d >> 8) as u8;
                        let mut pres = Presentation::of(&case, &token);
                        pres.pk_hex = b64::hex(&k);
                        check("C04", "low-bits-neighbourhood-of-accepting-key", &case, &token, &pres, None, &mut acc);
                        acc.choice_points += 1;
                    }
                }
            }
            // core layer: ONE builder object issues twice with the same nonce, first under K1 then under K2 (both
            // orders of two pool keys): each token opens under the key of its own call and not under the other
            // (state a builder keeps from its first issue - a key split, a derived key - must not key the second)
            if *l == Layer::Core && pool.len() > 1 {
                for (i1, i2) in [(0usize, 1usize), (1, 0)] {
                    let seed_b = seed.clone().unwrap_or_default();
                    let a_opt = if p.has_assertion() { fas[3].1.as_deref() } else { None };
                    let toks = crate::adapter::core_issue_twice_keys(*p, &pool[i1].sk, &pool[i2].sk, &seed_b, &msgs[1], fas[1].0.as_deref(), a_opt);
                    for (n, t) in toks.iter().enumerate() {
                        let (own, other) = if n == 0 { (&pool[i1], &pool[i2]) } else { (&pool[i2], &pool[i1]) };
                        acc.choice_points += 1;
                        let crate::adapter::Out::Ok(token) = t else {
                            acc.bump("one-builder-two-keys:not-issued");
                            continue;
                        };
                        for (k, expect) in [(own, true), (other, false)] {
                            let o = crate::adapter::core_present(*p, &k.pk, token, fas[1].0.as_deref(), a_opt);
                            acc.executions += 1;
                            acc.impl_calls += 1;
                            let ok = match &o {
                                crate::adapter::Out::Ok(m) => expect && *m == msgs[1],
                                crate::adapter::Out::Err(_) => !expect,
                                _ => false,
                            };
                            if ok {
                                acc.bump(if expect { "one-builder-two-keys:opens-under-own-key" } else { "one-builder-two-keys:refused-under-other-key" });
                                if expect {
                                    acc.controls_ok += 1;
                                }
                            } else {
                                acc.violate(
                                    format!("C04|{}|core|one-builder-two-keys|{}", p.name(), if expect { "own-key-refused" } else { "other-key-accepted" }),
                                    format!("one Paseto builder issued under {} then under {} (same nonce): token #{} presented under {} ({}): {}", pool[i1].label, pool[i2].label, n + 1, k.label, if expect { "the key of its own call" } else { "the key of the other call" }, o.short()),
                                    json!({"tag": "one-builder-two-keys", "proto": p.name(), "order": [i1, i2], "token_no": n + 1, "token": token}),
                                );
                            }
                        }
                    }
                }
            }
            if *p == Proto::V3P {
                // same x, other parity prefix
                for k in &pool {
                    let c3 = IssueCase::new(*p, *l, k, None, &msgs[1], &None, &None);
                    if let Some(t3) = issue_with_control(&c3, &mut acc) {
                        let mut other = k.pk.clone();
                        other[0] ^= 1; // 02 <-> 03
                        let mut pres = Presentation::of(&c3, &t3);
                        pres.pk_hex = b64::hex(&other);
                        check("C04", "p384-other-parity", &c3, &t3, &pres, None, &mut acc);
                    }
                }
            }
        }
        if acc.samples.is_empty() {
            acc.sample(json!({"proto": p.name(), "layer": l.name(), "issued_under": pool[0].label, "presented_with": pool.get(1).map(|k| k.label.clone()), "expected": "Err"}));
        }
        acc
    });
    let mut merged = Acc::merge_all(accs);
    merged.merge(reuse_pass("C04", &Proto::ALL));
    let mut racc = Acc::default();
    p384_recovered_keys_pass(&mut racc);
    mismatched_halves_pass(&mut racc);
    merged.merge(racc);
    finish(
        run,
        merged,
        json!({"space": "protocol x layer x ordered pairs of pool keys x message x footer/assertion; all single-bit neighbours of the accepting key (local: both directions); local, core layer: every key differing from the accepting key in its low 12 (thorough: 16) bits against the empty and the 2-byte message; one core builder issuing twice with the same nonce under two keys; P-384 other-parity point; one parser object parsing the same token under the right and a wrong key in both orders; v3.public: every other key recoverable from the token's own signature (reference-computed)",
               "distinct_rule": "distinct (token, presented key, footer, assertion, layer) presentations", "caps_hit": []}),
    )
}

// ------------------------------------------------------------------------------------------------ C05

fn footer_segment(token: &str) -> Option<&str> {
    let segs: Vec<&str> = token.split('.').collect();
    if segs.len() == 4 {
        Some(segs[3])
    } else {
        None
    }
}

pub fn run_c05(tier: &str) -> i32 {
    let run = Run::new("C05", tier);
    let quick = tier == "quick";
    let units = units_proto_layer(&Proto::ALL);
    let accs = par_units(&units, |(p, l)| {
        let mut acc = Acc::default();
        let pool = domains::key_pool(*p);
        let dom = domains::footer_pairs_domain();
        let msgs = [domains::message(17, 1), domains::message(0, 0)];
        let seed = seed_for(*p);
        let alpha = b64::token_alphabet();
        let (_, pts) = explore(None, |c| {
            let mi = c.choose("message", if quick { 1 } else { 2 });
            let fi = c.choose("built footer", dom.len());
            let case = IssueCase::new(*p, *l, &pool[0], seed.as_deref(), &msgs[mi], &dom[fi], &None);
            let Some(token) = issue_with_control(&case, &mut acc) else { return };
            // the produced footer segment is exactly the unpadded base64url of F
            let f_txt = dom[fi].clone().unwrap_or_default();
            let seg_ok = match footer_segment(&token) {
                Some(seg) => seg == b64::encode(f_txt.as_bytes()) && b64::decode_strict(seg).as_deref() == Some(f_txt.as_bytes()),
                None => f_txt.is_empty() && token.split('.').count() == 3,
            };
            acc.executions += 1;
            if !seg_ok {
                acc.violate(
                    format!("C05|{}|{}|footer-segment-encoding", p.name(), l.name()),
                    format!("the footer segment of the produced token is not the unpadded base64url of the footer {:?}: {}", f_txt, token),
                    json!({"issue": case, "issued_token": token, "presentation": Presentation::of(&case, &token), "tag": "footer-segment-encoding"}),
                );
            }
            // every expected footer F'
            for fj in 0..dom.len() {
                let mut pres = Presentation::of(&case, &token);
                pres.footer = dom[fj].clone();
                let same = dom[fj].clone().unwrap_or_default() == f_txt;
                check("C05", if same { "matching-footer" } else { "other-expected-footer" }, &case, &token, &pres, Some(same), &mut acc);
            }
            // edits of the token's footer segment, presented with the original expected footer
            if let Some(seg) = footer_segment(&token) {
                if !seg.is_empty() && (seg.len() <= 80 || !quick) {
                    let head = &token[..token.len() - seg.len()];
                    let sb = seg.as_bytes();
                    let lim = sb.len().min(80);
                    for pos in 0..lim {
                        for &ch in &alpha {
                            if ch != sb[pos] {
                                let mut m = sb.to_vec();
                                m[pos] = ch;
                                let t2 = format!("{}{}", head, String::from_utf8(m).unwrap());
                                check("C05", "footer-segment-char-edit", &case, &token, &Presentation::of(&case, &t2), None, &mut acc);
                            }
                        }
                        let mut m = sb[..pos].to_vec();
                        m.extend_from_slice(&sb[pos + 1..]);
                        let t2 = format!("{}{}", head, String::from_utf8(m).unwrap());
                        check("C05", "footer-segment-char-delete", &case, &token, &Presentation::of(&case, &t2), None, &mut acc);
                    }
                    // something appended to the footer segment (i.e. to the token): every symbol of the alphabet
                    // (base64url, '.', '=', blank, LF, CR, TAB) and the usual line ends
                    for &ch in &alpha {
                        let t2 = format!("{}{}", token, ch as char);
                        check("C05", "footer-segment-char-appended", &case, &token, &Presentation::of(&case, &t2), None, &mut acc);
                    }
                    for tail in ["\r\n", "\n\n", " \n", "\n ", "\u{0}", "\u{85}", "\u{2028}", "%0A"] {
                        let t2 = format!("{}{}", token, tail);
                        check("C05", "footer-segment-text-appended", &case, &token, &Presentation::of(&case, &t2), None, &mut acc);
                    }
                    // the footer segment removed (with and without its dot), replaced by another footer's
                    let no_dot = head.trim_end_matches('.').to_string();
                    check("C05", "footer-segment-removed", &case, &token, &Presentation::of(&case, &no_dot), None, &mut acc);
                    check("C05", "footer-segment-emptied", &case, &token, &Presentation::of(&case, head), None, &mut acc);
                    for fj in 0..dom.len() {
                        let other = dom[fj].clone().unwrap_or_default();
                        if other != f_txt && !other.is_empty() {
                            let t2 = format!("{}{}", head, b64::encode(other.as_bytes()));
                            check("C05", "footer-segment-replaced", &case, &token, &Presentation::of(&case, &t2), None, &mut acc);
                            // segment and expectation changed together: still not the footer the token was built with
                            let mut pres = Presentation::of(&case, &t2);
                            pres.footer = dom[fj].clone();
                            check("C05", "footer-segment-and-expectation-swapped", &case, &token, &pres, None, &mut acc);
                        }
                    }
                    // segment stripped and no footer expected
                    let mut pres = Presentation::of(&case, &no_dot);
                    pres.footer = None;
                    check("C05", "footer-segment-stripped-and-none-expected", &case, &token, &pres, None, &mut acc);
                }
            } else {
                // a footer segment added to a footer-less token, presented with no expected footer
                for fj in 0..dom.len() {
                    let other = dom[fj].clone().unwrap_or_default();
                    if !other.is_empty() {
                        let t2 = format!("{}.{}", token, b64::encode(other.as_bytes()));
                        check("C05", "footer-segment-added", &case, &token, &Presentation::of(&case, &t2), None, &mut acc);
                        // grafted footer presented together with the matching expectation
                        let mut pres = Presentation::of(&case, &t2);
                        pres.footer = dom[fj].clone();
                        check("C05", "footer-grafted-and-expected", &case, &token, &pres, None, &mut acc);
                    }
                }
            }
            if acc.samples.is_empty() && fi == 2 {
                acc.sample(json!({"proto": p.name(), "layer": l.name(), "built_footer": dom[fi], "token": token, "expected_footers_tried": dom.len()}));
            }
        });
        acc.choice_points += pts;
        acc
    });
    let mut merged = Acc::merge_all(accs);
    merged.merge(reuse_pass("C05", &Proto::ALL));
    merged.merge(conflation_pass("C05", &Proto::ALL));
    merged.merge(size_ladder_pass("C05", &Proto::ALL, quick));
    finish(
        run,
        merged,
        json!({"space": "protocol x layer x message x all ordered pairs (F, F') of the 12-element footer domain (accept iff F' == F, none == \"\"); footer-segment encoding; every single-character edit / deletion / removal / replacement / addition of the footer segment; one builder / one parser reconfigured between uses (footer F1 -> F2 -> empty)",
               "distinct_rule": "distinct presentations", "caps_hit": []}),
    )
}

// ------------------------------------------------------------------------------------------------ C06

fn contains(hay: &[u8], needle: &[u8]) -> bool {
    !needle.is_empty() && hay.windows(needle.len()).any(|w| w == needle)
}

pub fn run_c06(tier: &str) -> i32 {
    let run = Run::new("C06", tier);
    let quick = tier == "quick";
    let protos: Vec<Proto> = [Proto::V3L, Proto::V4L, Proto::V3P, Proto::V4P].into_iter().filter(|p| p.enabled()).collect();
    if protos.is_empty() {
        crate::report::machinery_error("C06 needs a v3 or v4 protocol; this feature configuration has none (the driver skips it)");
    }
    let units = units_proto_layer(&protos);
    let accs = par_units(&units, |(p, l)| {
        let mut acc = Acc::default();
        let pool = domains::key_pool(*p);
        let dom = domains::assertion_pairs_domain();
        let footers: Vec<Option<String>> = vec![None, Some("f".into())];
        let msgs = [domains::message(17, 1), domains::message(64, 0)];
        let seed = seed_for(*p);
        let mut lens: std::collections::BTreeMap<(usize, usize), std::collections::BTreeSet<usize>> = Default::default();
        let (_, pts) = explore(None, |c| {
            let mi = c.choose("message", if quick { 1 } else { 2 });
            let fi = c.choose("footer", footers.len());
            let ai = c.choose("built assertion", dom.len());
            let case = IssueCase::new(*p, *l, &pool[0], seed.as_deref(), &msgs[mi], &footers[fi], &dom[ai]);
            let Some(token) = issue_with_control(&case, &mut acc) else { return };
            let a_txt = dom[ai].clone().unwrap_or_default();
            // non-storage: length independent of A (only decidable where everything else is fixed: local
            // tokens under the scripted nonce and Ed25519 tokens; ECDSA / PSS signatures have fixed length too)
            lens.entry((mi, fi)).or_default().insert(token.len());
            acc.executions += 1;
            if a_txt.len() >= 16 {
                let decoded = token.split('.').nth(2).and_then(b64::decode_strict).unwrap_or_default();
                let b64a = b64::encode(a_txt.as_bytes());
                // the base64 of A may straddle character alignment: search the three alignments' cores
                let core = &b64a[..b64a.len() - b64a.len() % 4];
                let stored = contains(token.as_bytes(), a_txt.as_bytes()) || contains(&decoded, a_txt.as_bytes()) || (core.len() >= 16 && token.contains(core));
                if stored {
                    acc.violate(
                        format!("C06|{}|{}|assertion-stored", p.name(), l.name()),
                        "the implicit assertion's bytes occur in the token".into(),
                        json!({"issue": case, "issued_token": token, "presentation": Presentation::of(&case, &token), "tag": "assertion-stored"}),
                    );
                }
            }
            for aj in 0..dom.len() {
                let mut pres = Presentation::of(&case, &token);
                pres.assertion = dom[aj].clone();
                let same = dom[aj].clone().unwrap_or_default() == a_txt;
                check("C06", if same { "matching-assertion" } else { "other-assertion" }, &case, &token, &pres, Some(same), &mut acc);
            }
            if acc.samples.is_empty() && ai == 2 {
                acc.sample(json!({"proto": p.name(), "layer": l.name(), "built_assertion": dom[ai], "footer": footers[fi], "token_len": token.len(), "assertions_tried": dom.len()}));
            }
        });
        acc.choice_points += pts;
        for ((mi, fi), set) in &lens {
            if set.len() != 1 {
                let case = IssueCase::new(*p, *l, &pool[0], seed.as_deref(), &msgs[*mi], &footers[*fi], &None);
                acc.violate(
                    format!("C06|{}|{}|length-depends-on-assertion", p.name(), l.name()),
                    format!("token length varies with the implicit assertion: {:?}", set),
                    json!({"issue": case, "issued_token": "", "presentation": Presentation::of(&case, ""), "tag": "length-depends-on-assertion"}),
                );
            }
        }
        // same concatenation, different split between footer and assertion
        let splits: [(&str, &str); 4] = [("ab", "c"), ("a", "bc"), ("", "abc"), ("abc", "")];
        for (f, a) in splits {
            let fo = if f.is_empty() { None } else { Some(f.to_string()) };
            let ao = if a.is_empty() { None } else { Some(a.to_string()) };
            let case = IssueCase::new(*p, *l, &pool[0], seed.as_deref(), &msgs[0], &fo, &ao);
            let Some(token) = issue_with_control(&case, &mut acc) else { continue };
            for (f2, a2) in splits {
                let mut pres = Presentation::of(&case, &token);
                pres.footer = if f2.is_empty() { None } else { Some(f2.to_string()) };
                pres.assertion = if a2.is_empty() { None } else { Some(a2.to_string()) };
                let same = (f2, a2) == (f, a);
                check("C06", if same { "matching-split" } else { "other-split-of-same-concatenation" }, &case, &token, &pres, Some(same), &mut acc);
                acc.choice_points += 1;
            }
        }
        acc
    });
    let mut merged = Acc::merge_all(accs);
    merged.merge(reuse_pass("C06", &protos));
    merged.merge(conflation_pass("C06", &protos));
    merged.merge(size_ladder_pass("C06", &protos, quick));
    // large messages (an implementation may authenticate them along another path): the assertion binds there too -
    // same-length neighbours, a prefix, none
    {
        let sizes: Vec<usize> = if quick { vec![131_072] } else { vec![65_536, 131_072, 200_000, 1_048_577] };
        let units: Vec<(Proto, Layer, usize)> = units_proto_layer(&protos).into_iter().flat_map(|(p, l)| sizes.clone().into_iter().map(move |s| (p, l, s))).collect();
        let accs = par_units(&units, |(p, l, size)| {
            let mut acc = Acc::default();
            let key = domains::key_pool(*p)[0].clone();
            let seed = seed_for(*p);
            let msg = domains::message(*size, 0);
            for (a1, a2) in [("tenant-0001", "tenant-0002"), ("user:alice", "user:carol")] {
                let case = IssueCase::new(*p, *l, &key, seed.as_deref(), &msg, &Some("f".into()), &Some(a1.to_string()));
                let Some(token) = issue_with_control(&case, &mut acc) else { continue };
                acc.choice_points += 1;
                for (tag, asr, want) in [
                    ("large-message:same-assertion", Some(a1.to_string()), Some(true)),
                    ("large-message:same-length-other-assertion", Some(a2.to_string()), Some(false)),
                    ("large-message:assertion-prefix", Some(a1[..a1.len() - 1].to_string()), Some(false)),
                    ("large-message:no-assertion", None, Some(false)),
                ] {
                    let mut pres = Presentation::of(&case, &token);
                    pres.assertion = asr;
                    check("C06", tag, &case, &token, &pres, want, &mut acc);
                }
            }
            acc
        });
        merged.merge(Acc::merge_all(accs));
    }
    // bytes moved across the footer / assertion boundary of the pre-authentication encoding (see C03's
    // pae-resplice pass for the construction): assertion = A || le64(5) || "tail!" with |A| = s - 8; presenting
    // the token with the footer f || le64(5) || A (segment and expectation) and the assertion "tail!" shifts the
    // boundary by s bytes. "tail!" is not the assertion the token was built with: refused.
    {
        let units: Vec<(Proto, Layer, usize)> = units_proto_layer(&protos).into_iter().flat_map(|(p, l)| [128usize, 256, 65_536].into_iter().map(move |s| (p, l, s))).collect();
        let accs = par_units(&units, |(p, l, shift)| {
            let mut acc = Acc::default();
            let key = domains::key_pool(*p)[0].clone();
            let seed = seed_for(*p);
            let le5 = "\u{5}\0\0\0\0\0\0\0";
            let a = "a".repeat(*shift - 8);
            let assertion = format!("{}{}tail!", a, le5);
            let case = IssueCase::new(*p, *l, &key, seed.as_deref(), "{\"data\":\"x\"}", &Some("f".into()), &Some(assertion.clone()));
            let Some(token) = issue_with_control(&case, &mut acc) else { return acc };
            let Some(seg) = footer_segment(&token) else { return acc };
            let head = &token[..token.len() - seg.len()];
            let long_footer = format!("f{}{}", le5, a);
            let t2 = format!("{}{}", head, b64::encode(long_footer.as_bytes()));
            for (tag, text, f, asr) in [
                ("pae-resplice:footer-grown-assertion-tail", t2.as_str(), Some(long_footer.clone()), Some("tail!".to_string())),
                ("pae-resplice:assertion-tail-only", token.as_str(), Some("f".to_string()), Some("tail!".to_string())),
                ("pae-resplice:assertion-head-only", token.as_str(), Some("f".to_string()), Some(a.clone())),
            ] {
                let mut pres = Presentation::of(&case, text);
                pres.footer = f;
                pres.assertion = asr;
                check("C06", tag, &case, &token, &pres, Some(false), &mut acc);
                acc.choice_points += 1;
            }
            acc
        });
        merged.merge(Acc::merge_all(accs));
    }
    finish(
        run,
        merged,
        json!({"space": "v3/v4 x purpose x layer x message x footer x all ordered pairs (A, A') of the 9-element assertion domain (accept iff A' == A, none == \"\"); (footer, assertion) splits of one concatenation; non-storage (length, byte occurrence); one builder / one parser reconfigured between uses (assertion A1 -> A2 -> empty, second build from the same builder)",
               "distinct_rule": "distinct presentations", "caps_hit": []}),
    )
}

// ------------------------------------------------------------------------------------------------ C07

/// key material that protocol `y` accepts, chosen to coincide with `x`'s wherever both accept the same bytes
fn confusion_keys(x: Proto, kx: &KeyMat, y: Proto) -> Vec<(String, Vec<u8>)> {
    let mut v: Vec<(String, Vec<u8>)> = Vec::new();
    let ypool = domains::key_pool(y);
    match (x.is_local(), y.is_local()) {
        (true, true) => v.push(("same 32-byte symmetric key".into(), kx.pk.clone())),
        (false, false) => {
            let ed = |p: Proto| matches!(p, Proto::V2P | Proto::V4P);
            if ed(x) && ed(y) {
                v.push(("same Ed25519 public key".into(), kx.pk.clone()));
            } else {
                v.push(("y's default key".into(), ypool[0].pk.clone()));
            }
        }
        (false, true) => {
            // the classic confusion: the public key bytes used as a symmetric key
            if kx.pk.len() == 32 {
                v.push(("x's public key bytes as symmetric key".into(), kx.pk.clone()));
            }
            v.push(("y's default key".into(), ypool[0].pk.clone()));
        }
        (true, false) => {
            if matches!(y, Proto::V2P | Proto::V4P) {
                v.push(("x's symmetric key bytes as Ed25519 public key".into(), kx.pk.clone()));
            }
            v.push(("y's default key".into(), ypool[0].pk.clone()));
        }
    }
    v
}

/// Tokens "X header, Y algorithm" made by the independent reference R1 (spec/hybrid_tokens.py): Y's own
/// algorithm, key and payload layout, but X's header in the text and in the pre-authentication encoding.
/// Y's entry points must refuse them (the header names X); Y's genuine token is the control.
fn hybrid_pass(acc: &mut Acc) {
    let dir = crate::report::verif_dir();
    let out = dir.join("target").join("c07-hybrid.json");
    let _ = std::fs::create_dir_all(dir.join("target"));
    let st = std::process::Command::new("python3").arg(dir.join("spec/hybrid_tokens.py")).arg(&out).output();
    let ok = matches!(&st, Ok(o) if o.status.success());
    let Ok(txt) = std::fs::read_to_string(&out) else { crate::report::machinery_error("spec/hybrid_tokens.py produced nothing") };
    if !ok {
        crate::report::machinery_error("spec/hybrid_tokens.py failed");
    }
    let Ok(list) = serde_json::from_str::<Vec<serde_json::Value>>(&txt) else { crate::report::machinery_error("hybrid token file is not JSON") };
    for h in &list {
        let Some(y) = Proto::from_name(h["algo"].as_str().unwrap_or("")) else { continue };
        let key = domains::key_pool(y)[0].clone();
        let token = h["token"].as_str().unwrap_or("").to_string();
        let footer: Option<String> = h["footer"].as_str().map(|s| s.to_string());
        let genuine = h["genuine"].as_bool().unwrap_or(false);
        // the "issue" this is judged against: Y's genuine token would be authentic; a hybrid never is
        let case = IssueCase::new(y, Layer::Core, &key, Some(&[0u8; 32]), h["msg"].as_str().unwrap_or(""), &footer, &None);
        for layer in Layer::ALL {
            let mut pres = Presentation::of(&case, &token);
            pres.layer = layer;
            let (obs, _) = pres.present();
            acc.executions += 1;
            acc.impl_calls += 1;
            acc.see(&(&token, layer));
            if genuine {
                if obs.is_ok() {
                    acc.controls_ok += 1;
                    acc.bump("hybrid:genuine-control-accepted");
                } else {
                    acc.skipped_control_failed += 1;
                    acc.bump("hybrid:genuine-control-rejected(see C08)");
                }
            } else {
                acc.bump(if obs.is_ok() { "hybrid:accepted" } else { "hybrid:rejected" });
                if !obs.is_err() {
                    acc.violate(
                        format!("C07|{}|{}|hybrid-header-{}|{}", y.name(), layer.name(), h["header"].as_str().unwrap_or(""), if obs.is_ok() { "accepted" } else { "panic" }),
                        format!("a token with header {:?} whose payload was computed by the {} algorithm over a pre-authentication encoding naming that header was not rejected by the {} {} entry point: {}", h["header"].as_str().unwrap_or(""), y.name(), y.name(), layer.name(), obs.short()),
                        json!({"issue": case, "issued_token": "", "presentation": pres, "tag": "hybrid"}),
                    );
                }
            }
        }
    }
}

pub fn run_c07(tier: &str) -> i32 {
    let run = Run::new("C07", tier);
    let _ = tier;
    let mut units: Vec<(Proto, Proto)> = Vec::new();
    // Y (the receiving entry point) ranges over the protocols compiled into this build, X over all eight of the
    // specification: a header naming a protocol that is not compiled in must be refused all the same
    for x in Proto::EVERY {
        for y in Proto::ALL {
            if x != y {
                units.push((x, y));
            }
        }
    }
    let accs = par_units(&units, |(x, y)| {
        let mut acc = Acc::default();
        let msgs = [domains::message(17, 1), "{\"data\":\"x\"}".to_string()];
        let footers: Vec<Option<String>> = vec![None, Some("f".into())];
        let seed = seed_for(*x);
        let (_, pts) = explore(None, |c| {
            let mi = c.choose("message", msgs.len());
            let fi = c.choose("footer", footers.len());
            let li = c.choose_cfg("presenting layer", 3);
            // Y's implicit assertion (v3 / v4): none, or one that is supplied again when presenting
            let ay: Option<String> = if y.has_assertion() && c.choose("assertion of Y", 2) == 1 { Some("{\"aud\":\"y\"}".to_string()) } else { None };
            // the other direction of the first sentence: a token that is authentic for Y but whose header
            // names X (compiled in or not) must be refused by Y's entry points
            {
                let ky = domains::key_pool(*y)[if y.is_local() { 0 } else { 2.min(domains::key_pool(*y).len() - 1) }].clone();
                let seed_y = seed_for(*y);
                let case_y = IssueCase::new(*y, Layer::Core, &ky, seed_y.as_deref(), &msgs[mi], &footers[fi], &ay);
                if let Some(ty) = issue_with_control(&case_y, &mut acc) {
                    let named_x = format!("{}{}", x.header(), &ty[y.header().len()..]);
                    let mut pres = Presentation::of(&case_y, &named_x);
                    pres.layer = Layer::ALL[li];
                    check("C07", "authentic-for-Y-but-header-names-X", &case_y, &ty, &pres, None, &mut acc);
                    // the same at the core layer with an expected-footer argument of the caller's own type whose
                    // conversion presents a text to an entry point of X on this thread (re-entrancy inside the call)
                    if x.enabled() && li == 0 && ay.is_none() {
                        let kx_other = domains::key_pool(*x)[0].clone();
                        let junk_x = format!("{}AAAA", x.header());
                        let rf = crate::adapter::ReFooter { footer: footers[fi].as_deref(), other: *x, other_key: &kx_other.pk, other_text: &junk_x, other_footer: None };
                        let control = crate::adapter::core_present_refooter(*y, &ky.pk, &ty, rf);
                        let relabelled = crate::adapter::core_present_refooter(*y, &ky.pk, &named_x, rf);
                        acc.executions += 2;
                        acc.impl_calls += 2;
                        if !matches!(&control, Out::Ok(m) if *m == msgs[mi]) {
                            acc.violate(
                                format!("C07|{}|core|reentrant-footer-argument|control-rejected", y.name()),
                                format!("an authentic {} token presented with an expected-footer argument whose conversion calls a {} entry point: {} (expected the message)", y.name(), x.name(), control.short()),
                                json!({"issue": case_y, "issued_token": ty, "presentation": Presentation::of(&case_y, &ty), "tag": "reentrant-footer-control"}),
                            );
                        }
                        if !relabelled.is_err() {
                            acc.violate(
                                format!("C07|{}|core|reentrant-footer-argument|accepted", y.name()),
                                format!("a token authentic for {} but naming {} in its header, presented to {} with an expected-footer argument whose conversion calls a {} entry point on the same thread: {}", y.name(), x.name(), y.name(), x.name(), relabelled.short()),
                                json!({"issue": case_y, "issued_token": ty, "presentation": Presentation::of(&case_y, &named_x), "tag": "reentrant-footer"}),
                            );
                        } else {
                            acc.bump("reentrant-footer-argument:rejected");
                        }
                    }
                    // X's header in front of the whole Y token (the string names X; Y's token follows), and Y's own
                    // header after X's in the first two segments
                    for (tag, text) in [
                        ("X-header-prepended-to-Y-token", format!("{}{}", x.header(), ty)),
                        ("X-header-prepended-without-dot", format!("{}{}", x.name(), ty)),
                        ("Y-token-after-X-header-and-payload", format!("{}AAAA.{}", x.header(), ty)),
                    ] {
                        let mut pres = Presentation::of(&case_y, &text);
                        pres.layer = Layer::ALL[li];
                        check("C07", tag, &case_y, &ty, &pres, None, &mut acc);
                    }
                }
            }
            // everything below needs a token made by X's own implementation
            if !x.enabled() {
                return;
            }
            // for public -> local confusion use an Ed25519 pair whose public half doubles as the symmetric key
            let kx = domains::key_pool(*x)[if x.is_local() { 0 } else { 2.min(domains::key_pool(*x).len() - 1) }].clone();
            let case = IssueCase::new(*x, Layer::Core, &kx, seed.as_deref(), &msgs[mi], &footers[fi], &None);
            let Some(token) = issue_with_control(&case, &mut acc) else { return };
            let relabelled = format!("{}{}", y.header(), &token[x.header().len()..]);
            for (what, key) in confusion_keys(*x, &kx, *y) {
                for (tag, text) in [("verbatim", &token), ("header-rewritten", &relabelled)] {
                    let mut pres = Presentation::of(&case, text);
                    pres.proto = *y;
                    pres.layer = Layer::ALL[li];
                    pres.pk_hex = b64::hex(&key);
                    check("C07", tag, &case, &token, &pres, None, &mut acc);
                    if acc.samples.len() < 2 && tag == "header-rewritten" {
                        acc.sample(json!({"issued_by": x.name(), "presented_to": y.name(), "layer": Layer::ALL[li].name(), "key_choice": what, "token": text}));
                    }
                }
            }
            // an attacker-made local token under the public key bytes, presented to the public verifier
            if x.is_local() && matches!(y, Proto::V2P | Proto::V4P) {
                let ed = domains::key_pool(*y)[2].clone();
                let forged_key = KeyMat { label: "ed-public-bytes-as-symmetric".into(), sk: ed.pk.clone(), pk: ed.pk.clone(), secret_for_ref: String::new() };
                let forged = IssueCase::new(*x, Layer::Core, &forged_key, seed.as_deref(), &msgs[mi], &footers[fi], &None);
                if let Out::Ok(ft) = forged.issue() {
                    let relabelled = format!("{}{}", y.header(), &ft[x.header().len()..]);
                    for (tag, text) in [("forged-local-verbatim", &ft), ("forged-local-header-rewritten", &relabelled)] {
                        let mut pres = Presentation::of(&forged, text);
                        pres.proto = *y;
                        pres.layer = Layer::ALL[li];
                        check("C07", tag, &forged, &ft, &pres, None, &mut acc);
                    }
                }
            }
        });
        acc.choice_points += pts;
        acc
    });
    let mut merged = Acc::merge_all(accs);
    let mut hacc = Acc::default();
    hybrid_pass(&mut hacc);
    merged.merge(hacc);
    finish(
        run,
        merged,
        json!({"space": "all 56 ordered pairs (X, Y), X != Y, x {verbatim, header rewritten to Y's, Y-authentic token named X, reference-made hybrid 'X header in text and PAE, Y algorithm'} x key material shared between X and Y where such exists x message x footer x presenting layer",
               "ordered_pairs": units.len(), "distinct_rule": "distinct presentations", "caps_hit": []}),
    )
}
