//! pvmc: bounded exhaustive exploration of rusty_paseto (see /verif/DESIGN.md).
//!   pvmc <Cxx> <quick|thorough>      run the property's explorer, write evidence/<Cxx>.json
//!   pvmc <Cxx> --replay <file>       re-run one recorded case without the explorer
mod adapter;
mod b64;
mod cases;
mod domains;
mod explore;
mod models;
mod props;
mod report;
mod rfc3339;

fn main() {
    adapter::install_panic_hook();
    adapter::freeze_default_clock();
    let args: Vec<String> = std::env::args().collect();
    if args.len() < 3 {
        eprintln!("usage: pvmc <Cxx> <quick|thorough> | pvmc <Cxx> --replay <file>");
        std::process::exit(2);
    }
    let prop: &'static str = Box::leak(args[1].clone().into_boxed_str());
    let code = std::panic::catch_unwind(|| {
        if prop == "C09" && args[2] == "--deep-child" {
            return props::nopanic::deep_child();
        }
        if prop == "C09" && args[2] == "--exit-child" {
            return props::nopanic::exit_child();
        }
        if prop == "C10" && args[2] == "--emit-nonces" {
            return props::nonce::emit_first_nonces();
        }
        if prop == "C10" && args[2] == "--fork-child" {
            return props::nonce::fork_child();
        }
        if args[2] == "--replay" {
            let Some(path) = args.get(3) else { report::machinery_error("--replay needs a file") };
            let txt = std::fs::read_to_string(path).unwrap_or_else(|_| report::machinery_error("cannot read replay file"));
            let v: serde_json::Value = serde_json::from_str(&txt).unwrap_or_else(|_| report::machinery_error("replay file is not JSON"));
            return dispatch_replay(prop, &v["case"]);
        }
        let tier = args[2].as_str();
        if tier != "quick" && tier != "thorough" {
            report::machinery_error("tier must be quick or thorough");
        }
        dispatch_run(prop, tier)
    });
    match code {
        Ok(c) => std::process::exit(c),
        Err(_) => {
            println!("MACHINERY-ERROR: the harness itself panicked (no verdict)");
            std::process::exit(2);
        }
    }
}

fn dispatch_run(prop: &'static str, tier: &str) -> i32 {
    match prop {
        "C01" | "C02" => props::roundtrip::run(prop, tier),
        "C03" => props::tamper::run(tier),
        "C08" => props::spec::run(tier),
        "C09" => props::nopanic::run(tier),
        "C10" => props::nonce::run(tier),
        "C18" => props::claimkeys::run(tier),
        "C15" | "C16" => props::parser_props::run(prop, tier),
        "C14" => props::gbuilder_props::run(tier),
        "C13" | "C17" => props::pbuilder_props::run(prop, tier),
        "C11" | "C12" => props::timeclaims::run(prop, tier),
        "C04" => props::binding::run_c04(tier),
        "C05" => props::binding::run_c05(tier),
        "C06" => props::binding::run_c06(tier),
        "C07" => props::binding::run_c07(tier),
        _ => report::machinery_error("unknown property"),
    }
}

fn dispatch_replay(prop: &'static str, case: &serde_json::Value) -> i32 {
    match prop {
        "C01" | "C02" => props::roundtrip::replay(prop, case),
        "C03" => props::tamper::replay(case),
        "C08" => props::spec::replay(case),
        "C09" => props::nopanic::replay(case),
        "C10" => props::nonce::replay(case),
        "C18" => props::claimkeys::replay(case),
        "C15" | "C16" => props::parser_props::replay(prop, case),
        "C14" => props::gbuilder_props::replay(case),
        "C13" | "C17" => props::pbuilder_props::replay(prop, case),
        "C11" | "C12" => props::timeclaims::replay(prop, case),
        "C04" | "C05" | "C06" | "C07" => props::binding::replay(prop, case),
        _ => report::machinery_error("unknown property"),
    }
}
