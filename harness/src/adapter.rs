//! Uniform, dynamically dispatched view of the crate's 8 protocols x 3 API layers.
//!
//! The library's API is monomorphic per (Version, Purpose); the explorers want to treat the protocol as
//! a *choice*. This module stamps out one adapter module per protocol (macros below) and dispatches on
//! `Proto`. Every library call runs under `guard` (catch_unwind): a panic is an observation.
//! Nothing here is an oracle.

use rusty_paseto::prelude::*;
use serde::{Deserialize, Serialize};
use serde_json::Value;
use std::cell::RefCell;
use std::collections::HashMap;
use std::panic::{catch_unwind, AssertUnwindSafe};

// ------------------------------------------------------------------------------------------------
// protocols and layers

#[derive(Clone, Copy, Debug, PartialEq, Eq, Hash, PartialOrd, Ord, Serialize, Deserialize)]
pub enum Proto {
    V1L,
    V2L,
    V3L,
    V4L,
    V1P,
    V2P,
    V3P,
    V4P,
}

const fn proto_enabled(p: Proto) -> bool {
    match p {
        Proto::V1L => cfg!(feature = "v1_local"),
        Proto::V2L => cfg!(feature = "v2_local"),
        Proto::V3L => cfg!(feature = "v3_local"),
        Proto::V4L => cfg!(feature = "v4_local"),
        Proto::V1P => cfg!(feature = "v1_public"),
        Proto::V2P => cfg!(feature = "v2_public"),
        Proto::V3P => cfg!(feature = "v3_public"),
        Proto::V4P => cfg!(feature = "v4_public"),
    }
}
const fn proto_wanted(p: Proto, local: bool, public: bool) -> bool {
    let is_local = matches!(p, Proto::V1L | Proto::V2L | Proto::V3L | Proto::V4L);
    proto_enabled(p) && ((is_local && local) || (!is_local && public))
}
const fn proto_count(local: bool, public: bool) -> usize {
    let mut n = 0;
    let mut i = 0;
    while i < 8 {
        if proto_wanted(Proto::EVERY[i], local, public) {
            n += 1;
        }
        i += 1;
    }
    n
}
const fn proto_pick<const N: usize>(local: bool, public: bool) -> [Proto; N] {
    let mut out = [Proto::V4L; N];
    let mut n = 0;
    let mut i = 0;
    while i < 8 {
        if proto_wanted(Proto::EVERY[i], local, public) {
            out[n] = Proto::EVERY[i];
            n += 1;
        }
        i += 1;
    }
    out
}

impl Proto {
    /// all eight protocols of the specification, whether or not this build of the harness (and of the crate) has them
    pub const EVERY: [Proto; 8] = [Proto::V1L, Proto::V2L, Proto::V3L, Proto::V4L, Proto::V1P, Proto::V2P, Proto::V3P, Proto::V4P];
    /// the protocols compiled into this build (all eight in the default build; a subset in the
    /// feature-configuration builds)
    pub const ALL: [Proto; proto_count(true, true)] = proto_pick::<{ proto_count(true, true) }>(true, true);
    pub const LOCAL: [Proto; proto_count(true, false)] = proto_pick::<{ proto_count(true, false) }>(true, false);
    pub const PUBLIC: [Proto; proto_count(false, true)] = proto_pick::<{ proto_count(false, true) }>(false, true);
    pub const fn enabled(self) -> bool {
        proto_enabled(self)
    }
    /// the protocol the protocol-independent explorations run on: v4.local when it is compiled in, else the
    /// first compiled-in protocol (feature-configuration builds)
    pub fn workhorse() -> Proto {
        if Proto::V4L.enabled() {
            Proto::V4L
        } else {
            Proto::ALL[0]
        }
    }
    /// `self` if compiled in, else the workhorse (lists of hand-picked protocols shrink to what exists)
    pub fn or_workhorse(self) -> Proto {
        if self.enabled() {
            self
        } else {
            Proto::workhorse()
        }
    }
    /// the feature set this harness was built with, e.g. "v1_local+v4_public" ("all" for the default build)
    pub fn build_config() -> String {
        if Proto::ALL.len() == 8 {
            "all".to_string()
        } else {
            Proto::ALL.iter().map(|p| p.name().replace('.', "_")).collect::<Vec<_>>().join("+")
        }
    }
    pub fn header(self) -> &'static str {
        match self {
            Proto::V1L => "v1.local.",
            Proto::V2L => "v2.local.",
            Proto::V3L => "v3.local.",
            Proto::V4L => "v4.local.",
            Proto::V1P => "v1.public.",
            Proto::V2P => "v2.public.",
            Proto::V3P => "v3.public.",
            Proto::V4P => "v4.public.",
        }
    }
    pub fn name(self) -> &'static str {
        let h = self.header();
        &h[..h.len() - 1]
    }
    pub fn is_local(self) -> bool {
        matches!(self, Proto::V1L | Proto::V2L | Proto::V3L | Proto::V4L)
    }
    pub fn has_assertion(self) -> bool {
        matches!(self, Proto::V3L | Proto::V4L | Proto::V3P | Proto::V4P)
    }
    pub fn version(self) -> u8 {
        match self {
            Proto::V1L | Proto::V1P => 1,
            Proto::V2L | Proto::V2P => 2,
            Proto::V3L | Proto::V3P => 3,
            Proto::V4L | Proto::V4P => 4,
        }
    }
    /// bytes of nonce (local) at the front of the decoded payload
    pub fn nonce_len(self) -> usize {
        match self {
            Proto::V2L => 24,
            p if p.is_local() => 32,
            _ => 0,
        }
    }
    /// bytes of tag / signature at the end of the decoded payload
    pub fn tail_len(self) -> usize {
        match self {
            Proto::V1L | Proto::V3L => 48,
            Proto::V2L => 16,
            Proto::V4L => 32,
            Proto::V1P => 256,
            Proto::V2P | Proto::V4P => 64,
            Proto::V3P => 96,
        }
    }
    /// length of the RNG draw a high-level local build consumes
    pub fn draw_len(self) -> usize {
        match self {
            Proto::V2L => 24,
            _ => 32,
        }
    }
    pub fn from_name(s: &str) -> Option<Proto> {
        Proto::ALL.iter().copied().find(|p| p.name() == s)
    }
}

#[derive(Clone, Copy, Debug, PartialEq, Eq, Hash, PartialOrd, Ord, Serialize, Deserialize)]
pub enum Layer {
    Core,
    Generic,
    Prelude,
}
impl Layer {
    pub const ALL: [Layer; 3] = [Layer::Core, Layer::Generic, Layer::Prelude];
    pub fn name(self) -> &'static str {
        match self {
            Layer::Core => "core",
            Layer::Generic => "generic",
            Layer::Prelude => "batteries_included",
        }
    }
}

// ------------------------------------------------------------------------------------------------
// outcomes

#[derive(Clone, Debug, PartialEq, Eq, Hash, PartialOrd, Ord, Serialize, Deserialize)]
pub enum ErrClass {
    /// PasetoError::Utf8Error / FromUtf8Error (directly or wrapped in a CipherError)
    Utf8,
    /// GenericParserError::PayloadJsonError / GenericBuilderError::PayloadJsonError
    Json,
    /// a PasetoClaimError: (variant name, first argument)
    Claim(String, String),
    /// GenericBuilderError::DuplicateTopLevelPayloadClaim(key)
    Dup(String),
    /// every other error, by variant name (authentication / format class)
    Other(String),
    /// the harness could not even form the call (e.g. key material of the wrong length)
    Harness(String),
}

impl ErrClass {
    pub fn is_claim(&self) -> bool {
        matches!(self, ErrClass::Claim(..))
    }
    /// "authentication or format error raised before plaintext is handled"
    pub fn is_pre_plaintext(&self) -> bool {
        matches!(self, ErrClass::Other(_))
    }
    pub fn short(&self) -> String {
        match self {
            ErrClass::Utf8 => "Utf8".into(),
            ErrClass::Json => "Json".into(),
            ErrClass::Claim(k, _) => format!("Claim:{}", k),
            ErrClass::Dup(_) => "Dup".into(),
            ErrClass::Other(k) => format!("Other:{}", k),
            ErrClass::Harness(k) => format!("Harness:{}", k),
        }
    }
}

#[derive(Clone, Debug, PartialEq, Serialize, Deserialize)]
pub enum Out<T> {
    Ok(T),
    Err(ErrClass),
    Panic(String),
}

impl<T> Out<T> {
    pub fn is_ok(&self) -> bool {
        matches!(self, Out::Ok(_))
    }
    pub fn is_err(&self) -> bool {
        matches!(self, Out::Err(_))
    }
    pub fn is_panic(&self) -> bool {
        matches!(self, Out::Panic(_))
    }
    pub fn ok(&self) -> Option<&T> {
        match self {
            Out::Ok(t) => Some(t),
            _ => None,
        }
    }
    pub fn err(&self) -> Option<&ErrClass> {
        match self {
            Out::Err(e) => Some(e),
            _ => None,
        }
    }
    pub fn short(&self) -> String {
        match self {
            Out::Ok(_) => "Ok".into(),
            Out::Err(e) => format!("Err({})", e.short()),
            Out::Panic(l) => format!("Panic({})", l),
        }
    }
}

fn variant_name<E: std::fmt::Debug>(e: &E) -> String {
    let s = format!("{:?}", e);
    s.chars().take_while(|c| c.is_alphanumeric() || *c == '_').collect()
}

pub fn class_claim(e: &PasetoClaimError) -> ErrClass {
    let arg = match e {
        PasetoClaimError::UseBeforeAvailable(a)
        | PasetoClaimError::RFC3339Date(a)
        | PasetoClaimError::Missing(a)
        | PasetoClaimError::Unexpected(a)
        | PasetoClaimError::CustomValidation(a)
        | PasetoClaimError::Reserved(a)
        | PasetoClaimError::DuplicateTopLevelPayloadClaim(a) => a.clone(),
        PasetoClaimError::Invalid(a, _, _) => a.clone(),
        _ => String::new(),
    };
    ErrClass::Claim(variant_name(e), arg)
}

pub fn class_core(e: &PasetoError) -> ErrClass {
    match e {
        PasetoError::Utf8Error { .. } | PasetoError::FromUtf8Error { .. } => ErrClass::Utf8,
        PasetoError::PasetoCipherError(inner) => class_core(inner),
        other => ErrClass::Other(variant_name(other)),
    }
}

pub fn class_parser(e: &GenericParserError) -> ErrClass {
    match e {
        GenericParserError::ClaimError { source } => class_claim(source),
        GenericParserError::CipherError { source } => class_core(source),
        GenericParserError::PayloadJsonError { .. } => ErrClass::Json,
        #[allow(unreachable_patterns)]
        other => ErrClass::Other(variant_name(other)),
    }
}

pub fn class_builder(e: &GenericBuilderError) -> ErrClass {
    match e {
        // the same refusal may travel as the builder error or as the claim error of the same name
        GenericBuilderError::ClaimError { source: PasetoClaimError::DuplicateTopLevelPayloadClaim(k) } => ErrClass::Dup(k.clone()),
        GenericBuilderError::ClaimError { source } => class_claim(source),
        GenericBuilderError::DuplicateTopLevelPayloadClaim(k) => ErrClass::Dup(k.clone()),
        GenericBuilderError::CipherError { source } => class_core(source),
        GenericBuilderError::PayloadJsonError { .. } => ErrClass::Json,
        other => ErrClass::Other(variant_name(other)),
    }
}

// ------------------------------------------------------------------------------------------------
// panic capture

thread_local! {
    static LAST_PANIC: RefCell<Option<String>> = RefCell::new(None);
}

pub fn install_panic_hook() {
    std::panic::set_hook(Box::new(|info| {
        let msg = if let Some(s) = info.payload().downcast_ref::<&str>() {
            s.to_string()
        } else if let Some(s) = info.payload().downcast_ref::<String>() {
            s.clone()
        } else {
            "<non-string panic>".to_string()
        };
        let loc = info
            .location()
            .map(|l| format!("{}:{}", l.file().trim_start_matches("/repo/"), l.line()))
            .unwrap_or_else(|| "<unknown>".into());
        if msg.contains("MACHINERY-ERROR") || loc.contains("harness/src") || loc.starts_with("src/") && !loc.starts_with("src/core") && !loc.starts_with("src/generic") && !loc.starts_with("src/prelude") {
            eprintln!("harness panic: {} @ {}", msg, loc);
        }
        // try_with: the hook may run while the thread's locals are being destroyed (calls made at thread exit)
        let _ = LAST_PANIC.try_with(|p| *p.borrow_mut() = Some(format!("{} [{}]", loc, msg.chars().take(80).collect::<String>())));
    }));
}

/// Runs a library call; a panic becomes `Err(location [message])`.
pub fn guard<T>(f: impl FnOnce() -> T) -> Result<T, String> {
    match catch_unwind(AssertUnwindSafe(f)) {
        Ok(t) => Ok(t),
        Err(_) => Err(LAST_PANIC.with(|p| p.borrow_mut().take()).unwrap_or_else(|| "<no location>".into())),
    }
}

/// panic location without the message: the signature used for known findings
pub fn panic_site(p: &str) -> String {
    p.split(" [").next().unwrap_or(p).to_string()
}

// ------------------------------------------------------------------------------------------------
// hooks (H1 RNG tap, H2 clock)

thread_local! {
    static DRAWS: RefCell<Vec<Vec<u8>>> = RefCell::new(Vec::new());
}

/// Runs `f` with the RNG tap in *script* mode: the i-th draw is overwritten with script[i] (cut or
/// zero-extended to the draw length; draws beyond the script keep the real RNG output). Returns f's
/// result and the draws as the library saw them (after overwriting).
pub fn with_rng_script<R>(script: Vec<Vec<u8>>, f: impl FnOnce() -> R) -> (R, Vec<Vec<u8>>) {
    DRAWS.with(|d| d.borrow_mut().clear());
    let mut i = 0usize;
    rusty_paseto::verif_hooks::set_rng_tap(Some(Box::new(move |buf: &mut [u8]| {
        if let Some(s) = script.get(i) {
            for (j, b) in buf.iter_mut().enumerate() {
                *b = *s.get(j).unwrap_or(&0);
            }
        }
        i += 1;
        DRAWS.with(|d| d.borrow_mut().push(buf.to_vec()));
    })));
    let r = f();
    rusty_paseto::verif_hooks::set_rng_tap(None);
    (r, DRAWS.with(|d| std::mem::take(&mut *d.borrow_mut())))
}

/// Observer mode: real RNG output is kept, every draw is recorded.
pub fn with_rng_observer<R>(f: impl FnOnce() -> R) -> (R, Vec<Vec<u8>>) {
    with_rng_script(Vec::new(), f)
}

/// 2026-06-15T12:34:56.123456789Z: the instant the default claims see unless a check decides otherwise
pub fn default_t0() -> time::OffsetDateTime {
    time::OffsetDateTime::from_unix_timestamp_nanos(1_781_526_896_123_456_789).unwrap()
}
pub fn freeze_default_clock() {
    set_clock(Some(default_t0()));
}
pub fn set_clock(t: Option<time::OffsetDateTime>) {
    rusty_paseto::verif_hooks::set_now(t);
}

// ------------------------------------------------------------------------------------------------
// dynamic claims

pub const RESERVED: [&str; 7] = ["iss", "sub", "aud", "exp", "nbf", "iat", "jti"];

#[derive(Clone, Copy, Debug, PartialEq, Eq, Hash, PartialOrd, Ord, Serialize, Deserialize)]
pub enum Form {
    /// reserved key -> typed constructor; otherwise CustomClaim::try_from((&str, Value))
    Auto,
    /// CustomClaim::try_from(&str)  (value "")
    KeyOnly,
    /// CustomClaim::try_from((&str, Value))
    TupleStr,
    /// CustomClaim::try_from((String, Value))
    TupleString,
    /// CustomClaim::try_from((&str, <native Rust value #n>)) - see `native_json`
    Native(u8),
    /// an application-defined `impl PasetoClaim` (not one of the crate's claim types) whose serialisation is
    /// a one-member object named `exp` (i.e. NOT named like the claim key); `value` is the member's value
    ForeignOneField,
    /// a registered claim type constructed with `Default::default()`
    RegisteredDefault,
}

#[derive(Clone, Debug, PartialEq, Serialize, Deserialize)]
pub struct ClaimSpec {
    pub key: String,
    pub value: Value,
    pub form: Form,
}

impl ClaimSpec {
    pub fn auto(key: &str, value: Value) -> Self {
        ClaimSpec { key: key.to_string(), value, form: Form::Auto }
    }
    /// the JSON member this claim is expected to produce
    pub fn expected_json(&self) -> Value {
        match self.form {
            Form::KeyOnly => Value::String(String::new()),
            Form::Native(n) => native_json(n),
            Form::ForeignOneField => serde_json::json!({"exp": self.value.clone()}),
            _ => self.value.clone(),
        }
    }
}

#[derive(Serialize, Clone)]
struct NativeInner {
    id: u32,
    tags: Vec<String>,
    opt: Option<bool>,
}
#[derive(Serialize, Clone)]
struct NativeStruct {
    name: String,
    n: i64,
    ratio: f64,
    inner: NativeInner,
    unit: (),
}
fn native_struct() -> NativeStruct {
    NativeStruct {
        name: "gr\u{00fc}\u{00df} \u{1d11e}".into(),
        n: -7,
        ratio: 0.25,
        inner: NativeInner { id: 9, tags: vec!["a".into(), "".into()], opt: None },
        unit: (),
    }
}
pub const NATIVE_COUNT: u8 = 11;
/// JSON value that native Rust value #n must serialise to
pub fn native_json(n: u8) -> Value {
    use serde_json::json;
    match n {
        0 => json!(u64::MAX),
        1 => json!(i64::MIN),
        2 => json!(1.5),
        3 => json!(true),
        4 => Value::Null,
        5 => json!([1, 2, 255]),
        6 => json!({"name": "gr\u{00fc}\u{00df} \u{1d11e}", "n": -7, "ratio": 0.25, "inner": {"id": 9, "tags": ["a", ""], "opt": null}, "unit": null}),
        7 => json!("borrowed \u{2603}"),
        8 => json!(["x", 3]),
        9 => json!({"k": [1, 2]}),
        // a value that reads mutable state when it is serialised: it was LIVE_AT_SET when handed to set_claim
        12 => json!(LIVE_AT_SET),
        // a value whose Serialize implementation itself builds and parses a token on this thread
        13 => json!(REENTRANT_VALUE),
        // 0.1f32: serialised with the shortest f32 representation, i.e. the JSON number 0.1
        _ => serde_json::from_str("0.1").unwrap(),
    }
}

/// Native value #13: while it is being serialised it uses the library itself - it puts a claim into another
/// builder, builds a token from it and parses that token (a delegation claim that mints an inner token when
/// rendered) - and then serialises as this constant. A panic in there propagates like any panic of a caller's
/// Serialize implementation.
pub const REENTRANT_VALUE: &str = "rendered after building and parsing an inner token";
pub struct ReentrantValue;
impl serde::Serialize for ReentrantValue {
    fn serialize<S: serde::Serializer>(&self, serializer: S) -> Result<S::Ok, S::Error> {
        let p = Proto::ALL[0];
        let key = crate::domains::key_pool(p)[0].clone();
        for layer in [Layer::Generic, Layer::Prelude] {
            let ev = build_history(p, layer, &key.sk, &[BOp::Claim(ClaimSpec::auto("inner", Value::String("x".into()))), BOp::Build]);
            match ev.last() {
                Some(BEvent::Built(Out::Ok(t))) => {
                    if let (Out::Panic(l), _) = present(p, layer, &key.pk, t, None, None) {
                        panic!("parsing the inner token panicked at {}", l);
                    }
                }
                Some(BEvent::Built(Out::Panic(l))) => panic!("building the inner token panicked at {}", l),
                _ => {}
            }
        }
        serializer.serialize_str(REENTRANT_VALUE)
    }
}

/// Native value #12 serialises whatever this thread-local holds *at the moment it is serialised*. The adapter
/// sets it to LIVE_AT_SET, hands the claim to the builder and overwrites it with LIVE_AFTER straight away:
/// "the claims given to the builder" are the values as they were when they were given.
pub const LIVE_AT_SET: u64 = 4242;
pub const LIVE_AFTER: u64 = 999_999_999;
thread_local! {
    static LIVE: std::cell::Cell<u64> = const { std::cell::Cell::new(LIVE_AFTER) };
}
pub struct LiveValue;
impl serde::Serialize for LiveValue {
    fn serialize<S: serde::Serializer>(&self, serializer: S) -> Result<S::Ok, S::Error> {
        serializer.serialize_u64(LIVE.with(|l| l.get()))
    }
}

/// a claim type defined by the application, as the public `PasetoClaim` trait allows
#[derive(Clone)]
pub struct ForeignClaim {
    key: String,
    member_value: Value,
}
impl PasetoClaim for ForeignClaim {
    fn get_key(&self) -> &str {
        &self.key
    }
}
impl serde::Serialize for ForeignClaim {
    fn serialize<S: serde::Serializer>(&self, serializer: S) -> Result<S::Ok, S::Error> {
        use serde::ser::SerializeMap;
        let mut map = serializer.serialize_map(Some(1))?;
        map.serialize_entry("exp", &self.member_value)?;
        map.end()
    }
}

pub trait ClaimSink<'a> {
    fn put<T: PasetoClaim + serde::Serialize + 'a>(&mut self, c: T);
}
impl<'a, V, P> ClaimSink<'a> for GenericBuilder<'a, 'a, V, P> {
    fn put<T: PasetoClaim + serde::Serialize + 'a>(&mut self, c: T) {
        self.set_claim(c);
    }
}
impl<'a, V, P> ClaimSink<'a> for PasetoBuilder<'a, V, P> {
    fn put<T: PasetoClaim + serde::Serialize + 'a>(&mut self, c: T) {
        self.set_claim(c);
    }
}

fn ctor_err(e: PasetoClaimError) -> ErrClass {
    class_claim(&e)
}

/// Constructs the claim described by `spec` through the public constructors and hands it to `sink`.
/// Err = the constructor refused (nothing was handed over).
pub fn put_claim<'a, S: ClaimSink<'a>>(sink: &mut S, spec: &'a ClaimSpec) -> Result<(), ErrClass> {
    let key = spec.key.as_str();
    match spec.form {
        Form::Auto if RESERVED.contains(&key) => {
            let s = match spec.value.as_str() {
                Some(s) => s,
                None => return Err(ErrClass::Harness("typed registered claims take strings".into())),
            };
            match key {
                "iss" => sink.put(IssuerClaim::from(s)),
                "sub" => sink.put(SubjectClaim::from(s)),
                "aud" => sink.put(AudienceClaim::from(s)),
                "jti" => sink.put(TokenIdentifierClaim::from(s)),
                "exp" => sink.put(ExpirationClaim::try_from(s).map_err(ctor_err)?),
                "nbf" => sink.put(NotBeforeClaim::try_from(s).map_err(ctor_err)?),
                "iat" => sink.put(IssuedAtClaim::try_from(s).map_err(ctor_err)?),
                _ => unreachable!(),
            }
            Ok(())
        }
        Form::Auto | Form::TupleStr => {
            sink.put(CustomClaim::try_from((key, spec.value.clone())).map_err(ctor_err)?);
            Ok(())
        }
        Form::TupleString => {
            sink.put(CustomClaim::try_from((spec.key.clone(), spec.value.clone())).map_err(ctor_err)?);
            Ok(())
        }
        Form::KeyOnly => {
            sink.put(CustomClaim::try_from(key).map_err(ctor_err)?);
            Ok(())
        }
        Form::ForeignOneField => {
            sink.put(ForeignClaim { key: spec.key.clone(), member_value: spec.value.clone() });
            Ok(())
        }
        Form::RegisteredDefault => {
            // the registered claim types through `Default::default()` (their documented placeholder values)
            match key {
                "iss" => sink.put(IssuerClaim::default()),
                "sub" => sink.put(SubjectClaim::default()),
                "aud" => sink.put(AudienceClaim::default()),
                "jti" => sink.put(TokenIdentifierClaim::default()),
                "exp" => sink.put(ExpirationClaim::default()),
                "nbf" => sink.put(NotBeforeClaim::default()),
                "iat" => sink.put(IssuedAtClaim::default()),
                _ => return Err(ErrClass::Harness("RegisteredDefault needs a registered key".into())),
            }
            Ok(())
        }
        Form::Native(n) => {
            match n {
                0 => sink.put(CustomClaim::try_from((key, u64::MAX)).map_err(ctor_err)?),
                1 => sink.put(CustomClaim::try_from((key, i64::MIN)).map_err(ctor_err)?),
                2 => sink.put(CustomClaim::try_from((key, 1.5f64)).map_err(ctor_err)?),
                3 => sink.put(CustomClaim::try_from((key, true)).map_err(ctor_err)?),
                4 => sink.put(CustomClaim::try_from((key, Option::<u8>::None)).map_err(ctor_err)?),
                5 => sink.put(CustomClaim::try_from((key, vec![1u8, 2, 255])).map_err(ctor_err)?),
                6 => sink.put(CustomClaim::try_from((key, native_struct())).map_err(ctor_err)?),
                7 => sink.put(CustomClaim::try_from((key, "borrowed \u{2603}")).map_err(ctor_err)?),
                8 => sink.put(CustomClaim::try_from((spec.key.clone(), ("x", 3u8))).map_err(ctor_err)?),
                9 => {
                    let mut m = std::collections::BTreeMap::new();
                    m.insert("k", vec![1, 2]);
                    sink.put(CustomClaim::try_from((key, m)).map_err(ctor_err)?)
                }
                12 => {
                    LIVE.with(|l| l.set(LIVE_AT_SET));
                    let r = CustomClaim::try_from((key, LiveValue)).map_err(ctor_err).map(|c| sink.put(c));
                    LIVE.with(|l| l.set(LIVE_AFTER));
                    r?
                }
                13 => sink.put(CustomClaim::try_from((key, ReentrantValue)).map_err(ctor_err)?),
                _ => sink.put(CustomClaim::try_from((key, 0.1f32)).map_err(ctor_err)?),
            }
            Ok(())
        }
    }
}

// ------------------------------------------------------------------------------------------------
// validators (C16): slot-indexed non-capturing closures that log to a thread-local

#[derive(Clone, Debug, PartialEq, Serialize, Deserialize)]
pub enum Verdict {
    Accept,
    Reject,
    /// accepts iff the value equals this one
    AcceptIfEq(Value),
    /// rejects with the n-th variant of the library's claim error type (a validator may return any of them)
    RejectWith(u8),
    /// the caller's own validator panics (a bug in the caller's code, e.g. an unwrap on an unexpected type)
    Panic,
    /// treats the value as a token of `proto` and parses it at `layer` under `key` from inside the validator
    /// (a rule for a claim that carries an embedded token); accepts iff that parse succeeds. A panic of the
    /// nested parse is re-raised, as it would reach the caller of the outer parse.
    ParseEmbedded { proto: Proto, layer: Layer, key: Vec<u8> },
}

#[derive(Clone, Debug, PartialEq, Serialize, Deserialize)]
pub struct ValidatorCall {
    pub slot: usize,
    pub key: String,
    pub value: Value,
}

pub const SLOTS: usize = 12;
/// message of the panic raised by a validator with `Verdict::Panic` (the caller's bug, not the library's)
pub const USER_VALIDATOR_PANIC: &str = "the caller's own validator panicked";
thread_local! {
    static VERDICTS: RefCell<Vec<Verdict>> = RefCell::new(vec![Verdict::Accept; SLOTS]);
    static CALLS: RefCell<Vec<ValidatorCall>> = RefCell::new(Vec::new());
}

pub fn set_verdict(slot: usize, v: Verdict) {
    VERDICTS.with(|t| t.borrow_mut()[slot] = v);
}
pub fn reset_verdicts() {
    VERDICTS.with(|t| *t.borrow_mut() = vec![Verdict::Accept; SLOTS]);
}
pub fn take_calls() -> Vec<ValidatorCall> {
    CALLS.with(|c| std::mem::take(&mut *c.borrow_mut()))
}

fn validator_body(slot: usize, key: &str, value: &Value) -> Result<(), PasetoClaimError> {
    CALLS.with(|c| c.borrow_mut().push(ValidatorCall { slot, key: key.to_string(), value: value.clone() }));
    let verdict = VERDICTS.with(|t| t.borrow()[slot].clone());
    let ok = match verdict {
        Verdict::Accept => true,
        Verdict::Reject => false,
        Verdict::AcceptIfEq(v) => &v == value,
        Verdict::RejectWith(_) => false,
        Verdict::Panic => panic!("{}", USER_VALIDATOR_PANIC),
        Verdict::ParseEmbedded { proto, layer, key: k } => match present(proto, layer, &k, value.as_str().unwrap_or(""), None, None).0 {
            Out::Ok(_) => true,
            Out::Err(_) => false,
            Out::Panic(l) => panic!("nested parse inside a validator panicked at {}", l),
        },
    };
    if let Verdict::RejectWith(n) = VERDICTS.with(|t| t.borrow()[slot].clone()) {
        let k = key.to_string();
        return Err(match n {
            0 => PasetoClaimError::Expired,
            1 => PasetoClaimError::UseBeforeAvailable(k),
            2 => PasetoClaimError::RFC3339Date(k),
            3 => PasetoClaimError::Missing(k),
            4 => PasetoClaimError::Unexpected(k),
            5 => PasetoClaimError::CustomValidation(k),
            6 => PasetoClaimError::Invalid(k, "expected".into(), "received".into()),
            7 => PasetoClaimError::Reserved(k),
            _ => PasetoClaimError::DuplicateTopLevelPayloadClaim(k),
        });
    }
    if ok {
        Ok(())
    } else {
        Err(PasetoClaimError::CustomValidation(key.to_string()))
    }
}

macro_rules! slot_fn {
    ($($n:literal),*) => {
        pub fn validator(slot: usize) -> &'static ValidatorFn {
            match slot {
                $($n => &|k: &str, v: &Value| validator_body($n, k, v),)*
                _ => panic!("MACHINERY-ERROR: validator slot out of range"),
            }
        }
        pub fn boxed_validator(slot: usize) -> Box<ValidatorFn> {
            match slot {
                $($n => Box::new(|k: &str, v: &Value| validator_body($n, k, v)),)*
                _ => panic!("MACHINERY-ERROR: validator slot out of range"),
            }
        }
    };
}
slot_fn!(0, 1, 2, 3, 4, 5, 6, 7, 8, 9, 10, 11);

// interning for the 'static bounds of PasetoParser::check_claim
thread_local! {
    static INTERN: RefCell<HashMap<String, &'static str>> = RefCell::new(HashMap::new());
}
pub fn intern(s: &str) -> &'static str {
    INTERN.with(|t| {
        let mut t = t.borrow_mut();
        if let Some(x) = t.get(s) {
            return *x;
        }
        let leaked: &'static str = Box::leak(s.to_string().into_boxed_str());
        t.insert(s.to_string(), leaked);
        leaked
    })
}

pub trait ClaimChecker {
    fn check<T: PasetoClaim + serde::Serialize + 'static>(&mut self, c: T);
    fn validate<T: PasetoClaim + serde::Serialize + 'static>(&mut self, c: T, f: &'static ValidatorFn);
}
impl<'a, V, P> ClaimChecker for GenericParser<'a, 'a, V, P> {
    fn check<T: PasetoClaim + serde::Serialize + 'static>(&mut self, c: T) {
        self.check_claim(c);
    }
    fn validate<T: PasetoClaim + serde::Serialize + 'static>(&mut self, c: T, f: &'static ValidatorFn) {
        self.validate_claim(c, f);
    }
}
impl<'a, V, P> ClaimChecker for PasetoParser<'a, V, P> {
    fn check<T: PasetoClaim + serde::Serialize + 'static>(&mut self, c: T) {
        self.check_claim(c);
    }
    fn validate<T: PasetoClaim + serde::Serialize + 'static>(&mut self, c: T, f: &'static ValidatorFn) {
        self.validate_claim(c, f);
    }
}

enum ClaimUse {
    Check,
    Validate(&'static ValidatorFn),
}

fn use_claim<C: ClaimChecker, T: PasetoClaim + serde::Serialize + 'static>(p: &mut C, c: T, u: &ClaimUse) {
    match u {
        ClaimUse::Check => p.check(c),
        ClaimUse::Validate(f) => p.validate(c, *f),
    }
}

/// Registers an expected claim (check) or a validator under the claim's key through the public API.
fn register_claim<C: ClaimChecker>(p: &mut C, spec: &ClaimSpec, u: ClaimUse) -> Result<(), ErrClass> {
    let key = spec.key.as_str();
    if RESERVED.contains(&key) && spec.form == Form::Auto {
        let s = spec.value.as_str().unwrap_or("");
        match key {
            "iss" => use_claim(p, IssuerClaim::from(intern(s)), &u),
            "sub" => use_claim(p, SubjectClaim::from(intern(s)), &u),
            "aud" => use_claim(p, AudienceClaim::from(intern(s)), &u),
            "jti" => use_claim(p, TokenIdentifierClaim::from(intern(s)), &u),
            "exp" => use_claim(p, ExpirationClaim::try_from(s).map_err(ctor_err)?, &u),
            "nbf" => use_claim(p, NotBeforeClaim::try_from(s).map_err(ctor_err)?, &u),
            "iat" => use_claim(p, IssuedAtClaim::try_from(s).map_err(ctor_err)?, &u),
            _ => unreachable!(),
        }
        return Ok(());
    }
    match spec.form {
        Form::KeyOnly => use_claim(p, CustomClaim::try_from(intern(key)).map_err(ctor_err)?, &u),
        // a value with no JSON form (beyond 64 bits): handed over natively
        Form::Native(11) => use_claim(p, CustomClaim::try_from((spec.key.clone(), u128::MAX)).map_err(ctor_err)?, &u),
        Form::Native(_) | Form::ForeignOneField => use_claim(p, CustomClaim::try_from((spec.key.clone(), spec.expected_json())).map_err(ctor_err)?, &u),
        _ => use_claim(p, CustomClaim::try_from((spec.key.clone(), spec.value.clone())).map_err(ctor_err)?, &u),
    }
    Ok(())
}

// ------------------------------------------------------------------------------------------------
// operation alphabets of the stateful objects

#[derive(Clone, Debug, PartialEq, Serialize, Deserialize)]
pub enum BOp {
    Claim(ClaimSpec),
    /// GenericBuilder only
    Remove(String),
    /// PasetoBuilder only
    Ack,
    Footer(String),
    /// v3/v4 only (ignored elsewhere: the method does not exist there, C19)
    Assertion(String),
    Build,
    /// public protocols: build with key material the signer must refuse (then the history goes on)
    BuildBadKey,
    /// move the frozen clock (hook H2) to this instant (ns since the epoch, as text) before the next call
    Clock(String),
}

#[derive(Clone, Debug, PartialEq, Serialize, Deserialize)]
pub enum BEvent {
    Applied,
    /// the claim constructor refused
    Ctor(ErrClass),
    Unsupported,
    Built(Out<String>),
}

#[derive(Clone, Debug, PartialEq, Serialize, Deserialize)]
pub enum POp {
    Check(ClaimSpec),
    /// validate_claim(<claim with this key>, validator(slot))
    Validate(String, usize),
    /// GenericParser::extend_validation_claims({key: validator(slot)})
    ExtendValidate(Vec<(String, usize)>),
    /// GenericParser::extend_check_claims({key: claim})
    ExtendCheck(Vec<ClaimSpec>),
    Footer(String),
    Assertion(String),
    /// parse(tokens[i], keys[j])
    Parse(usize, usize),
    /// move the frozen clock (hook H2) to this instant (ns since the epoch, as text) before the next call
    Clock(String),
    /// change what the validator in this slot does from now on (the registered closure stays the same)
    SetVerdict(usize, Verdict),
}

#[derive(Clone, Debug, PartialEq, Serialize, Deserialize)]
pub enum PEvent {
    Applied,
    Ctor(ErrClass),
    Unsupported,
    Parsed(Out<Value>, Vec<ValidatorCall>),
}

fn arr<const N: usize>(b: &[u8]) -> Option<[u8; N]> {
    <[u8; N]>::try_from(b).ok()
}

// ------------------------------------------------------------------------------------------------
// per-protocol stamps

macro_rules! set_ia {
    (yes, $b:expr, $a:expr) => {
        if let Some(a) = $a {
            $b.set_implicit_assertion(ImplicitAssertion::from(a));
        }
    };
    (no, $b:expr, $a:expr) => {
        let _ = $a;
    };
}
macro_rules! op_ia {
    (yes, $b:expr, $a:expr) => {{
        $b.set_implicit_assertion(ImplicitAssertion::from($a.as_str()));
        true
    }};
    (no, $b:expr, $a:expr) => {{
        let _ = $a;
        false
    }};
}
macro_rules! call_open {
    (yes, $V:ident, $P:ident, $m:ident, $tok:expr, $key:expr, $f:expr, $a:expr) => {
        Paseto::<$V, $P>::$m($tok, $key, $f.map(Footer::from), $a.map(ImplicitAssertion::from))
    };
    (no, $V:ident, $P:ident, $m:ident, $tok:expr, $key:expr, $f:expr, $a:expr) => {{
        let _ = $a;
        Paseto::<$V, $P>::$m($tok, $key, $f.map(Footer::from))
    }};
}

/// An expected-footer argument of the caller's own type: its conversion into `Option<Footer>` (which the library
/// performs somewhere inside the call) itself uses the library - it presents a text to an entry point of
/// ANOTHER protocol on the same thread (e.g. a footer looked up through a token-protected channel).
#[derive(Clone, Copy)]
pub struct ReFooter<'a> {
    pub footer: Option<&'a str>,
    pub other: Proto,
    pub other_key: &'a [u8],
    pub other_text: &'a str,
    /// the expected footer of the inner presentation
    pub other_footer: Option<&'a str>,
}
impl<'a> From<ReFooter<'a>> for Option<Footer<'a>> {
    fn from(r: ReFooter<'a>) -> Self {
        let _ = core_present(r.other, r.other_key, r.other_text, r.other_footer, None);
        r.footer.map(Footer::from)
    }
}
macro_rules! call_open_refooter {
    (yes, $V:ident, $P:ident, $m:ident, $tok:expr, $key:expr, $rf:expr) => {
        Paseto::<$V, $P>::$m($tok, $key, $rf, None::<ImplicitAssertion>)
    };
    (no, $V:ident, $P:ident, $m:ident, $tok:expr, $key:expr, $rf:expr) => {
        Paseto::<$V, $P>::$m($tok, $key, $rf)
    };
}

// key construction; `$fail` is evaluated (and returned from the enclosing fn) if the material is unusable
macro_rules! sym_key {
    ($V:ident, $bytes:expr, $k:ident, $fail:expr) => {
        let Some(raw) = arr::<32>($bytes) else { return $fail };
        let $k = PasetoSymmetricKey::<$V, Local>::from(Key::<32>::from(raw));
    };
}
macro_rules! priv_key {
    (rsa, $V:ident, $bytes:expr, $k:ident, $fail:expr) => {
        let $k = PasetoAsymmetricPrivateKey::<$V, Public>::from($bytes);
    };
    (ed, $V:ident, $bytes:expr, $k:ident, $fail:expr) => {
        let $k = PasetoAsymmetricPrivateKey::<$V, Public>::from($bytes);
    };
    (p384, $V:ident, $bytes:expr, $k:ident, $fail:expr) => {
        let Some(raw) = arr::<48>($bytes) else { return $fail };
        let raw = Key::<48>::from(raw);
        let $k = PasetoAsymmetricPrivateKey::<$V, Public>::from(&raw);
    };
}

macro_rules! bad_key_bytes {
    (rsa) => {
        vec![0x30, 0x82, 0x01, 0x00, 0x02, 0x01]
    };
    (ed) => {
        vec![7u8; 32]
    };
    (p384) => {
        vec![0u8; 48]
    };
}

/// result of turning public-key bytes into the typed key
macro_rules! pub_key_store {
    (rsa, $V:ident) => { Vec<u8> };
    (ed, $V:ident) => { Key<32> };
    (p384, $V:ident) => { Key<49> };
}
macro_rules! pub_key_raw {
    (rsa, $bytes:expr) => {
        Some($bytes.to_vec())
    };
    (ed, $bytes:expr) => {
        arr::<32>($bytes).map(Key::<32>::from)
    };
    (p384, $bytes:expr) => {
        arr::<49>($bytes).map(Key::<49>::from)
    };
}
macro_rules! pub_key_typed {
    (rsa, $V:ident, $raw:expr) => {
        Ok::<_, PasetoError>(PasetoAsymmetricPublicKey::<$V, Public>::from($raw.as_slice()))
    };
    (ed, $V:ident, $raw:expr) => {
        Ok::<_, PasetoError>(PasetoAsymmetricPublicKey::<$V, Public>::from($raw))
    };
    (p384, $V:ident, $raw:expr) => {
        PasetoAsymmetricPublicKey::<$V, Public>::try_from($raw)
    };
}

macro_rules! history_fns {
    // $open = parse-side key handling differs for local / public, so the two macros below wrap this
    ($V:ident, $P:ident, $ia:tt, $gen_finish:ident, $KeyTy:ty) => {
        pub fn generic_builds(key: &$KeyTy, bad: Option<&$KeyTy>, ops: &[BOp]) -> Vec<BEvent> {
            let mut ev = Vec::with_capacity(ops.len());
            let mut b = match guard(|| GenericBuilder::<$V, $P>::default()) {
                Ok(b) => b,
                Err(p) => return vec![BEvent::Built(Out::Panic(p))],
            };
            for op in ops {
                let e = match op {
                    BOp::Claim(spec) => match guard(|| put_claim(&mut b, spec)) {
                        Ok(Ok(())) => BEvent::Applied,
                        Ok(Err(c)) => BEvent::Ctor(c),
                        Err(p) => BEvent::Built(Out::Panic(p)),
                    },
                    BOp::Remove(k) => {
                        b.remove_claim(k);
                        BEvent::Applied
                    }
                    BOp::Ack => BEvent::Unsupported,
                    BOp::Footer(f) => {
                        b.set_footer(Footer::from(f.as_str()));
                        BEvent::Applied
                    }
                    BOp::Assertion(a) => {
                        if op_ia!($ia, b, a) {
                            BEvent::Applied
                        } else {
                            BEvent::Unsupported
                        }
                    }
                    BOp::Build => BEvent::Built(match guard(|| b.$gen_finish(key)) {
                        Ok(Ok(t)) => Out::Ok(t),
                        Ok(Err(e)) => Out::Err(class_builder(&e)),
                        Err(p) => Out::Panic(p),
                    }),
                    BOp::Clock(ns) => {
                        let t: i128 = ns.parse().unwrap_or(0);
                        set_clock(time::OffsetDateTime::from_unix_timestamp_nanos(t).ok());
                        BEvent::Applied
                    }
                    BOp::BuildBadKey => match bad {
                        None => BEvent::Unsupported,
                        Some(bk) => BEvent::Built(match guard(|| b.$gen_finish(bk)) {
                            Ok(Ok(t)) => Out::Ok(t),
                            Ok(Err(e)) => Out::Err(class_builder(&e)),
                            Err(p) => Out::Panic(p),
                        }),
                    },
                };
                ev.push(e);
            }
            ev
        }

        pub fn prelude_builds(key: &$KeyTy, bad: Option<&$KeyTy>, ops: &[BOp]) -> Vec<BEvent> {
            let mut ev = Vec::with_capacity(ops.len());
            let mut b = match guard(|| PasetoBuilder::<$V, $P>::default()) {
                Ok(b) => b,
                Err(p) => return vec![BEvent::Built(Out::Panic(p))],
            };
            for op in ops {
                let e = match op {
                    BOp::Claim(spec) => match guard(|| put_claim(&mut b, spec)) {
                        Ok(Ok(())) => BEvent::Applied,
                        Ok(Err(c)) => BEvent::Ctor(c),
                        Err(p) => BEvent::Built(Out::Panic(p)),
                    },
                    BOp::Remove(_) => BEvent::Unsupported,
                    BOp::Ack => {
                        b.set_no_expiration_danger_acknowledged();
                        BEvent::Applied
                    }
                    BOp::Footer(f) => {
                        b.set_footer(Footer::from(f.as_str()));
                        BEvent::Applied
                    }
                    BOp::Assertion(a) => {
                        if op_ia!($ia, b, a) {
                            BEvent::Applied
                        } else {
                            BEvent::Unsupported
                        }
                    }
                    BOp::Build => BEvent::Built(match guard(|| b.build(key)) {
                        Ok(Ok(t)) => Out::Ok(t),
                        Ok(Err(e)) => Out::Err(class_builder(&e)),
                        Err(p) => Out::Panic(p),
                    }),
                    BOp::Clock(ns) => {
                        let t: i128 = ns.parse().unwrap_or(0);
                        set_clock(time::OffsetDateTime::from_unix_timestamp_nanos(t).ok());
                        BEvent::Applied
                    }
                    BOp::BuildBadKey => match bad {
                        None => BEvent::Unsupported,
                        Some(bk) => BEvent::Built(match guard(|| b.build(bk)) {
                            Ok(Ok(t)) => Out::Ok(t),
                            Ok(Err(e)) => Out::Err(class_builder(&e)),
                            Err(p) => Out::Panic(p),
                        }),
                    },
                };
                ev.push(e);
            }
            ev
        }
    };
}

macro_rules! parser_history {
    ($fname:ident, $ctor:expr, $is_generic:tt, $V:ident, $P:ident, $ia:tt, $KeyTy:ty) => {
        /// Replays `ops` on one parser. `keys[j]` None = the key material could not be typed.
        pub fn $fname<'a>(keys: &'a [Option<$KeyTy>], tokens: &'a [String], ops: &'a [POp]) -> Vec<PEvent> {
            let mut ev = Vec::with_capacity(ops.len());
            let mut p = $ctor;
            for op in ops {
                let e = match op {
                    POp::Check(spec) => match guard(|| register_claim(&mut p, spec, ClaimUse::Check)) {
                        Ok(Ok(())) => PEvent::Applied,
                        Ok(Err(c)) => PEvent::Ctor(c),
                        Err(pn) => PEvent::Parsed(Out::Panic(pn), vec![]),
                    },
                    POp::Validate(k, slot) => {
                        let spec = ClaimSpec { key: k.clone(), value: Value::String("2019-01-01T00:00:00+00:00".into()), form: if RESERVED.contains(&k.as_str()) { Form::Auto } else { Form::KeyOnly } };
                        match guard(|| register_claim(&mut p, &spec, ClaimUse::Validate(validator(*slot)))) {
                            Ok(Ok(())) => PEvent::Applied,
                            Ok(Err(c)) => PEvent::Ctor(c),
                            Err(pn) => PEvent::Parsed(Out::Panic(pn), vec![]),
                        }
                    }
                    POp::ExtendValidate(list) => parser_history!(@extend_validate $is_generic, p, list),
                    POp::ExtendCheck(list) => parser_history!(@extend_check $is_generic, p, list),
                    POp::Footer(f) => {
                        p.set_footer(Footer::from(f.as_str()));
                        PEvent::Applied
                    }
                    POp::Assertion(a) => {
                        if op_ia!($ia, p, a) {
                            PEvent::Applied
                        } else {
                            PEvent::Unsupported
                        }
                    }
                    POp::Clock(ns) => {
                        let t: i128 = ns.parse().unwrap_or(0);
                        set_clock(time::OffsetDateTime::from_unix_timestamp_nanos(t).ok());
                        PEvent::Applied
                    }
                    POp::SetVerdict(slot, v) => {
                        set_verdict(*slot, v.clone());
                        PEvent::Applied
                    }
                    POp::Parse(ti, ki) => {
                        let _ = take_calls();
                        let out = match &keys[*ki] {
                            None => Out::Err(ErrClass::Other("KeyConstructionRefused".into())),
                            Some(k) => match guard(|| p.parse(tokens[*ti].as_str(), k)) {
                                Ok(Ok(v)) => Out::Ok(v),
                                Ok(Err(e)) => Out::Err(class_parser(&e)),
                                Err(pn) => Out::Panic(pn),
                            },
                        };
                        PEvent::Parsed(out, take_calls())
                    }
                };
                ev.push(e);
            }
            ev
        }
    };
    (@extend_validate yes, $p:ident, $list:ident) => {{
        let mut m: ValidatorMap = HashMap::new();
        for (k, slot) in $list {
            m.insert(k.clone(), boxed_validator(*slot));
        }
        $p.extend_validation_claims(m);
        PEvent::Applied
    }};
    (@extend_validate no, $p:ident, $list:ident) => {{
        let _ = $list;
        PEvent::Unsupported
    }};
    (@extend_check yes, $p:ident, $list:ident) => {{
        let mut m: HashMap<String, Box<dyn erased_serde::Serialize>> = HashMap::new();
        let mut bad = None;
        for spec in $list {
            match CustomClaim::try_from((spec.key.clone(), spec.expected_json())) {
                Ok(c) => {
                    m.insert(spec.key.clone(), Box::new(c));
                }
                Err(e) => bad = Some(class_claim(&e)),
            }
        }
        match bad {
            Some(c) => PEvent::Ctor(c),
            None => {
                $p.extend_check_claims(m);
                PEvent::Applied
            }
        }
    }};
    (@extend_check no, $p:ident, $list:ident) => {{
        let _ = $list;
        PEvent::Unsupported
    }};
}

macro_rules! local_proto {
    ($m:ident, $V:ident, $ia:tt) => {
        pub mod $m {
            use super::*;
            pub type EncKey = PasetoSymmetricKey<$V, Local>;
            pub type DecKey = PasetoSymmetricKey<$V, Local>;

            pub fn core_issue(key: &[u8], seed: &[u8], msg: &str, footer: Option<&str>, assertion: Option<&str>) -> Out<String> {
                sym_key!($V, key, k, Out::Err(ErrClass::Harness("symmetric key must be 32 bytes".into())));
                let r = guard(|| {
                    let mut b = Paseto::<$V, Local>::builder();
                    b.set_payload(Payload::from(msg));
                    if let Some(f) = footer {
                        b.set_footer(Footer::from(f));
                    }
                    set_ia!($ia, b, assertion);
                    local_proto!(@encrypt $m, $V, b, k, seed)
                });
                match r {
                    Ok(Some(Ok(t))) => Out::Ok(t),
                    Ok(Some(Err(e))) => Out::Err(class_core(&e)),
                    Ok(None) => Out::Err(ErrClass::Harness("nonce seed of unsupported length".into())),
                    Err(p) => Out::Panic(p),
                }
            }

            pub fn core_present(key: &[u8], token: &str, footer: Option<&str>, assertion: Option<&str>) -> Out<String> {
                sym_key!($V, key, k, Out::Err(ErrClass::Harness("symmetric key must be 32 bytes".into())));
                match guard(|| call_open!($ia, $V, Local, try_decrypt, token, &k, footer, assertion)) {
                    Ok(Ok(m)) => Out::Ok(m),
                    Ok(Err(e)) => Out::Err(class_core(&e)),
                    Err(p) => Out::Panic(p),
                }
            }

            /// core layer, the expected footer handed over as a caller type whose conversion re-enters the library
            pub fn core_present_refooter(key: &[u8], token: &str, rf: ReFooter) -> Out<String> {
                sym_key!($V, key, k, Out::Err(ErrClass::Harness("symmetric key must be 32 bytes".into())));
                match guard(|| call_open_refooter!($ia, $V, Local, try_decrypt, token, &k, rf)) {
                    Ok(Ok(m)) => Out::Ok(m),
                    Ok(Err(e)) => Out::Err(class_core(&e)),
                    Err(p) => Out::Panic(p),
                }
            }

            /// other legal call orders on the core builder: footer / assertion set BEFORE the payload, and a
            /// configured builder whose payload is set again before a second token
            pub fn core_issue_orders(key: &[u8], seed: &[u8], msg: &str, msg2: &str, footer: Option<&str>, assertion: Option<&str>) -> Vec<Out<String>> {
                sym_key!($V, key, k, vec![Out::Err(ErrClass::Harness("symmetric key must be 32 bytes".into()))]);
                let r = guard(|| {
                    let mut b = Paseto::<$V, Local>::builder();
                    if let Some(f) = footer {
                        b.set_footer(Footer::from(f));
                    }
                    set_ia!($ia, b, assertion);
                    b.set_payload(Payload::from(msg));
                    let first = local_proto!(@encrypt $m, $V, b, k, seed);
                    b.set_payload(Payload::from(msg2));
                    let second = local_proto!(@encrypt $m, $V, b, k, seed);
                    // an explicit clone of the configured builder (the idiomatic way out of the &mut chain)
                    #[allow(clippy::clone_on_copy)]
                    let mut c = b.clone();
                    let third = local_proto!(@encrypt $m, $V, c, k, seed);
                    vec![first, second, third]
                });
                match r {
                    Ok(v) => v
                        .into_iter()
                        .map(|o| match o {
                            Some(Ok(t)) => Out::Ok(t),
                            Some(Err(e)) => Out::Err(class_core(&e)),
                            None => Out::Err(ErrClass::Harness("nonce seed of unsupported length".into())),
                        })
                        .collect(),
                    Err(p) => vec![Out::Panic(p)],
                }
            }

            /// the same `Paseto::builder()` object used for two consecutive try_encrypt calls
            pub fn core_issue_twice(key: &[u8], key2: Option<&[u8]>, seed: &[u8], msg: &str, footer: Option<&str>, assertion: Option<&str>) -> Vec<Out<String>> {
                sym_key!($V, key, k, vec![Out::Err(ErrClass::Harness("symmetric key must be 32 bytes".into()))]);
                let key2 = key2.unwrap_or(key);
                sym_key!($V, key2, k2, vec![Out::Err(ErrClass::Harness("symmetric key must be 32 bytes".into()))]);
                let r = guard(|| {
                    let mut b = Paseto::<$V, Local>::builder();
                    b.set_payload(Payload::from(msg));
                    if let Some(f) = footer {
                        b.set_footer(Footer::from(f));
                    }
                    set_ia!($ia, b, assertion);
                    let first = local_proto!(@encrypt $m, $V, b, k, seed);
                    let second = local_proto!(@encrypt $m, $V, b, k2, seed);
                    vec![first, second]
                });
                match r {
                    Ok(v) => v
                        .into_iter()
                        .map(|o| match o {
                            Some(Ok(t)) => Out::Ok(t),
                            Some(Err(e)) => Out::Err(class_core(&e)),
                            None => Out::Err(ErrClass::Harness("nonce seed of unsupported length".into())),
                        })
                        .collect(),
                    Err(p) => vec![Out::Panic(p)],
                }
            }

            pub fn enc_key(key: &[u8]) -> Option<EncKey> {
                arr::<32>(key).map(|raw| PasetoSymmetricKey::<$V, Local>::from(Key::<32>::from(raw)))
            }

            /// the three accepting entry points, called without touching any thread-local of the harness (this is
            /// run from a thread-local destructor); returns the layers whose call panicked
            pub fn raw_present_all(key: &[u8], token: &str) -> Vec<&'static str> {
                let mut bad = Vec::new();
                let Some(k) = enc_key(key) else { return bad };
                let none: Option<&str> = None;
                if catch_unwind(AssertUnwindSafe(|| {
                    let _ = call_open!($ia, $V, Local, try_decrypt, token, &k, none, none);
                }))
                .is_err()
                {
                    bad.push("core");
                }
                if catch_unwind(AssertUnwindSafe(|| {
                    let _ = GenericParser::<$V, Local>::default().parse(token, &k);
                }))
                .is_err()
                {
                    bad.push("generic");
                }
                if catch_unwind(AssertUnwindSafe(|| {
                    let _ = PasetoParser::<$V, Local>::default().parse(token, &k);
                }))
                .is_err()
                {
                    bad.push("batteries_included");
                }
                bad
            }

            history_fns!($V, Local, $ia, try_encrypt, EncKey);
            parser_history!(generic_parses, GenericParser::<$V, Local>::default(), yes, $V, Local, $ia, DecKey);
            parser_history!(prelude_default_parses, PasetoParser::<$V, Local>::default(), no, $V, Local, $ia, DecKey);
            parser_history!(prelude_new_parses, PasetoParser::<$V, Local>::new(), no, $V, Local, $ia, DecKey);

            pub fn build_history(layer: Layer, key: &[u8], ops: &[BOp]) -> Vec<BEvent> {
                let Some(k) = enc_key(key) else { return vec![BEvent::Built(Out::Err(ErrClass::Harness("key".into())))] };
                match layer {
                    Layer::Generic => generic_builds(&k, None, ops),
                    Layer::Prelude => prelude_builds(&k, None, ops),
                    Layer::Core => vec![BEvent::Unsupported],
                }
            }

            pub fn parse_history(layer: Layer, default_parser: bool, keys: &[Vec<u8>], tokens: &[String], ops: &[POp]) -> Vec<PEvent> {
                let typed: Vec<Option<DecKey>> = keys.iter().map(|k| enc_key(k)).collect();
                match (layer, default_parser) {
                    (Layer::Generic, _) => generic_parses(&typed, tokens, ops),
                    (Layer::Prelude, true) => prelude_default_parses(&typed, tokens, ops),
                    (Layer::Prelude, false) => prelude_new_parses(&typed, tokens, ops),
                    (Layer::Core, _) => vec![PEvent::Unsupported],
                }
            }
        }
    };
    (@encrypt v2l, $V:ident, $b:ident, $k:ident, $seed:ident) => {
        if let Some(raw) = arr::<24>($seed) {
            let n = Key::<24>::from(raw);
            Some($b.try_encrypt(&$k, &PasetoNonce::<$V, Local>::from(&n)))
        } else if let Some(raw) = arr::<32>($seed) {
            let n = Key::<32>::from(raw);
            Some($b.try_encrypt(&$k, &PasetoNonce::<$V, Local>::from(&n)))
        } else {
            None
        }
    };
    (@encrypt $m:ident, $V:ident, $b:ident, $k:ident, $seed:ident) => {
        if let Some(raw) = arr::<32>($seed) {
            let n = Key::<32>::from(raw);
            Some($b.try_encrypt(&$k, &PasetoNonce::<$V, Local>::from(&n)))
        } else {
            None
        }
    };
}

macro_rules! public_proto {
    ($m:ident, $V:ident, $ia:tt, $kind:tt) => {
        pub mod $m {
            use super::*;

            pub fn core_issue(key: &[u8], _seed: &[u8], msg: &str, footer: Option<&str>, assertion: Option<&str>) -> Out<String> {
                priv_key!($kind, $V, key, k, Out::Err(ErrClass::Harness("private key material of the wrong length".into())));
                let r = guard(|| {
                    let mut b = Paseto::<$V, Public>::builder();
                    b.set_payload(Payload::from(msg));
                    if let Some(f) = footer {
                        b.set_footer(Footer::from(f));
                    }
                    set_ia!($ia, b, assertion);
                    b.try_sign(&k)
                });
                match r {
                    Ok(Ok(t)) => Out::Ok(t),
                    Ok(Err(e)) => Out::Err(class_core(&e)),
                    Err(p) => Out::Panic(p),
                }
            }

            pub fn core_present(key: &[u8], token: &str, footer: Option<&str>, assertion: Option<&str>) -> Out<String> {
                let Some(raw) = pub_key_raw!($kind, key) else {
                    return Out::Err(ErrClass::Harness("public key material of the wrong length".into()));
                };
                let k = match pub_key_typed!($kind, $V, &raw) {
                    Ok(k) => k,
                    Err(e) => return Out::Err(class_core(&e)),
                };
                match guard(|| call_open!($ia, $V, Public, try_verify, token, &k, footer, assertion)) {
                    Ok(Ok(m)) => Out::Ok(m),
                    Ok(Err(e)) => Out::Err(class_core(&e)),
                    Err(p) => Out::Panic(p),
                }
            }

            /// core layer, the expected footer handed over as a caller type whose conversion re-enters the library
            pub fn core_present_refooter(key: &[u8], token: &str, rf: ReFooter) -> Out<String> {
                let Some(raw) = pub_key_raw!($kind, key) else {
                    return Out::Err(ErrClass::Harness("public key material of the wrong length".into()));
                };
                let k = match pub_key_typed!($kind, $V, &raw) {
                    Ok(k) => k,
                    Err(e) => return Out::Err(class_core(&e)),
                };
                match guard(|| call_open_refooter!($ia, $V, Public, try_verify, token, &k, rf)) {
                    Ok(Ok(m)) => Out::Ok(m),
                    Ok(Err(e)) => Out::Err(class_core(&e)),
                    Err(p) => Out::Panic(p),
                }
            }

            /// other legal call orders on the core builder (see the local variant)
            pub fn core_issue_orders(key: &[u8], _seed: &[u8], msg: &str, msg2: &str, footer: Option<&str>, assertion: Option<&str>) -> Vec<Out<String>> {
                priv_key!($kind, $V, key, k, vec![Out::Err(ErrClass::Harness("private key material of the wrong length".into()))]);
                let r = guard(|| {
                    let mut b = Paseto::<$V, Public>::builder();
                    if let Some(f) = footer {
                        b.set_footer(Footer::from(f));
                    }
                    set_ia!($ia, b, assertion);
                    b.set_payload(Payload::from(msg));
                    let first = b.try_sign(&k);
                    b.set_payload(Payload::from(msg2));
                    let second = b.try_sign(&k);
                    #[allow(clippy::clone_on_copy)]
                    let mut c = b.clone();
                    let third = c.try_sign(&k);
                    vec![first, second, third]
                });
                match r {
                    Ok(v) => v
                        .into_iter()
                        .map(|o| match o {
                            Ok(t) => Out::Ok(t),
                            Err(e) => Out::Err(class_core(&e)),
                        })
                        .collect(),
                    Err(p) => vec![Out::Panic(p)],
                }
            }

            /// the same `Paseto::builder()` object used for two consecutive try_sign calls
            pub fn core_issue_twice(key: &[u8], key2: Option<&[u8]>, _seed: &[u8], msg: &str, footer: Option<&str>, assertion: Option<&str>) -> Vec<Out<String>> {
                priv_key!($kind, $V, key, k, vec![Out::Err(ErrClass::Harness("private key material of the wrong length".into()))]);
                let key2 = key2.unwrap_or(key);
                priv_key!($kind, $V, key2, k2, vec![Out::Err(ErrClass::Harness("private key material of the wrong length".into()))]);
                let r = guard(|| {
                    let mut b = Paseto::<$V, Public>::builder();
                    b.set_payload(Payload::from(msg));
                    if let Some(f) = footer {
                        b.set_footer(Footer::from(f));
                    }
                    set_ia!($ia, b, assertion);
                    let first = b.try_sign(&k);
                    let second = b.try_sign(&k2);
                    vec![first, second]
                });
                match r {
                    Ok(v) => v
                        .into_iter()
                        .map(|o| match o {
                            Ok(t) => Out::Ok(t),
                            Err(e) => Out::Err(class_core(&e)),
                        })
                        .collect(),
                    Err(p) => vec![Out::Panic(p)],
                }
            }

            /// the three accepting entry points, called without touching any thread-local of the harness (this is
            /// run from a thread-local destructor); returns the layers whose call panicked
            pub fn raw_present_all(key: &[u8], token: &str) -> Vec<&'static str> {
                let mut bad = Vec::new();
                let Some(raw) = pub_key_raw!($kind, key) else { return bad };
                let Ok(k) = pub_key_typed!($kind, $V, &raw) else { return bad };
                let none: Option<&str> = None;
                if catch_unwind(AssertUnwindSafe(|| {
                    let _ = call_open!($ia, $V, Public, try_verify, token, &k, none, none);
                }))
                .is_err()
                {
                    bad.push("core");
                }
                if catch_unwind(AssertUnwindSafe(|| {
                    let _ = GenericParser::<$V, Public>::default().parse(token, &k);
                }))
                .is_err()
                {
                    bad.push("generic");
                }
                if catch_unwind(AssertUnwindSafe(|| {
                    let _ = PasetoParser::<$V, Public>::default().parse(token, &k);
                }))
                .is_err()
                {
                    bad.push("batteries_included");
                }
                bad
            }

            type SignKey<'k> = PasetoAsymmetricPrivateKey<'k, $V, Public>;
            type VerKey<'k> = PasetoAsymmetricPublicKey<'k, $V, Public>;
            history_fns!($V, Public, $ia, try_sign, SignKey<'_>);
            parser_history!(generic_parses, GenericParser::<$V, Public>::default(), yes, $V, Public, $ia, VerKey<'a>);
            parser_history!(prelude_default_parses, PasetoParser::<$V, Public>::default(), no, $V, Public, $ia, VerKey<'a>);
            parser_history!(prelude_new_parses, PasetoParser::<$V, Public>::new(), no, $V, Public, $ia, VerKey<'a>);

            pub fn build_history(layer: Layer, key: &[u8], ops: &[BOp]) -> Vec<BEvent> {
                priv_key!($kind, $V, key, k, vec![BEvent::Built(Out::Err(ErrClass::Harness("key".into())))]);
                // key material every signer must refuse: truncated DER / a 32-byte Ed25519 "key pair" / the zero scalar
                let bad_bytes: Vec<u8> = bad_key_bytes!($kind);
                priv_key!($kind, $V, bad_bytes.as_slice(), bad, vec![BEvent::Built(Out::Err(ErrClass::Harness("bad key".into())))]);
                match layer {
                    Layer::Generic => generic_builds(&k, Some(&bad), ops),
                    Layer::Prelude => prelude_builds(&k, Some(&bad), ops),
                    Layer::Core => vec![BEvent::Unsupported],
                }
            }

            pub fn parse_history(layer: Layer, default_parser: bool, keys: &[Vec<u8>], tokens: &[String], ops: &[POp]) -> Vec<PEvent> {
                let raws: Vec<Option<pub_key_store!($kind, $V)>> = keys.iter().map(|k| pub_key_raw!($kind, k.as_slice())).collect();
                let typed: Vec<Option<VerKey>> = raws
                    .iter()
                    .map(|r| match r {
                        None => None,
                        Some(raw) => pub_key_typed!($kind, $V, raw).ok(),
                    })
                    .collect();
                match (layer, default_parser) {
                    (Layer::Generic, _) => generic_parses(&typed, tokens, ops),
                    (Layer::Prelude, true) => prelude_default_parses(&typed, tokens, ops),
                    (Layer::Prelude, false) => prelude_new_parses(&typed, tokens, ops),
                    (Layer::Core, _) => vec![PEvent::Unsupported],
                }
            }
        }
    };
}

#[cfg(feature = "v1_local")]
local_proto!(v1l, V1, no);
#[cfg(feature = "v2_local")]
local_proto!(v2l, V2, no);
#[cfg(feature = "v3_local")]
local_proto!(v3l, V3, yes);
#[cfg(feature = "v4_local")]
local_proto!(v4l, V4, yes);
#[cfg(feature = "v1_public")]
public_proto!(v1p, V1, no, rsa);
#[cfg(feature = "v2_public")]
public_proto!(v2p, V2, no, ed);
#[cfg(feature = "v3_public")]
public_proto!(v3p, V3, yes, p384);
#[cfg(feature = "v4_public")]
public_proto!(v4p, V4, yes, ed);

/// a check asked for a protocol this feature-configuration build does not contain: a defect of the harness
fn not_compiled_in(p: Proto) -> ! {
    crate::report::machinery_error(&format!("protocol {} is not compiled into this build of the harness ({})", p.name(), Proto::build_config()))
}

macro_rules! dispatch {
    ($p:expr, $f:ident ( $($a:expr),* )) => {
        match $p {
            #[cfg(feature = "v1_local")]
            Proto::V1L => v1l::$f($($a),*),
            #[cfg(feature = "v2_local")]
            Proto::V2L => v2l::$f($($a),*),
            #[cfg(feature = "v3_local")]
            Proto::V3L => v3l::$f($($a),*),
            #[cfg(feature = "v4_local")]
            Proto::V4L => v4l::$f($($a),*),
            #[cfg(feature = "v1_public")]
            Proto::V1P => v1p::$f($($a),*),
            #[cfg(feature = "v2_public")]
            Proto::V2P => v2p::$f($($a),*),
            #[cfg(feature = "v3_public")]
            Proto::V3P => v3p::$f($($a),*),
            #[cfg(feature = "v4_public")]
            Proto::V4P => v4p::$f($($a),*),
            #[allow(unreachable_patterns)]
            other => not_compiled_in(other),
        }
    };
}

/// key material loaded from its hex text through the library's own `Key::<N>::try_from(&str)`:
/// Some(bytes the library made of it), None if the library refused the text or N is not a key size it has
pub fn key_bytes_via_hex(n: usize, hex: &str) -> Option<Vec<u8>> {
    fn go<const N: usize>(hex: &str) -> Option<Vec<u8>> {
        match guard(|| Key::<N>::try_from(hex).ok().map(|k| k.as_ref().to_vec())) {
            Ok(v) => v,
            Err(_) => None,
        }
    }
    match n {
        24 => go::<24>(hex),
        32 => go::<32>(hex),
        48 => go::<48>(hex),
        49 => go::<49>(hex),
        64 => go::<64>(hex),
        _ => None,
    }
}

// ------------------------------------------------------------------------------------------------
// the uniform API

/// Core layer: `Paseto::<V,P>::builder()...try_encrypt/try_sign`. `key` = symmetric key / private key
/// material; `seed` = nonce (seed) for local protocols.
pub fn core_issue(p: Proto, key: &[u8], seed: &[u8], msg: &str, footer: Option<&str>, assertion: Option<&str>) -> Out<String> {
    dispatch!(p, core_issue(key, seed, msg, footer, assertion))
}

/// Core layer: `Paseto::<V,P>::try_decrypt/try_verify`. `key` = symmetric / public key material.
pub fn core_present(p: Proto, key: &[u8], token: &str, footer: Option<&str>, assertion: Option<&str>) -> Out<String> {
    dispatch!(p, core_present(key, token, footer, assertion))
}

/// Core layer with a re-entrant expected-footer argument (see `ReFooter`).
pub fn core_present_refooter(p: Proto, key: &[u8], token: &str, rf: ReFooter) -> Out<String> {
    dispatch!(p, core_present_refooter(key, token, rf))
}

/// All three accepting entry points of `p`, without harness thread-locals (see the per-protocol functions).
pub fn raw_present_all(p: Proto, key: &[u8], token: &str) -> Vec<&'static str> {
    dispatch!(p, raw_present_all(key, token))
}

/// Core layer: footer / assertion set before the payload, then the payload replaced for a second token.
pub fn core_issue_orders(p: Proto, key: &[u8], seed: &[u8], msg: &str, msg2: &str, footer: Option<&str>, assertion: Option<&str>) -> Vec<Out<String>> {
    dispatch!(p, core_issue_orders(key, seed, msg, msg2, footer, assertion))
}

/// Core layer: one `Paseto::builder()` object issuing two tokens in a row.
pub fn core_issue_twice(p: Proto, key: &[u8], seed: &[u8], msg: &str, footer: Option<&str>, assertion: Option<&str>) -> Vec<Out<String>> {
    dispatch!(p, core_issue_twice(key, None, seed, msg, footer, assertion))
}

/// one core builder object, two issues with the same nonce: the first under `key`, the second under `key2`
pub fn core_issue_twice_keys(p: Proto, key: &[u8], key2: &[u8], seed: &[u8], msg: &str, footer: Option<&str>, assertion: Option<&str>) -> Vec<Out<String>> {
    dispatch!(p, core_issue_twice(key, Some(key2), seed, msg, footer, assertion))
}

pub fn build_history(p: Proto, layer: Layer, key: &[u8], ops: &[BOp]) -> Vec<BEvent> {
    dispatch!(p, build_history(layer, key, ops))
}

pub fn parse_history(p: Proto, layer: Layer, default_parser: bool, keys: &[Vec<u8>], tokens: &[String], ops: &[POp]) -> Vec<PEvent> {
    dispatch!(p, parse_history(layer, default_parser, keys, tokens, ops))
}

/// One-shot issue at any layer. At the upper layers the message travels as the custom claim `data`
/// next to `extra` claims; local nonces come from `seed` through the H1 script.
pub fn issue(p: Proto, layer: Layer, key: &[u8], seed: Option<&[u8]>, msg: &str, extra: &[ClaimSpec], footer: Option<&str>, assertion: Option<&str>) -> Out<String> {
    if layer == Layer::Core {
        if p.is_local() && seed.is_none() {
            return Out::Err(ErrClass::Harness("the core layer needs an explicit nonce".into()));
        }
        return core_issue(p, key, seed.unwrap_or(&[]), msg, footer, assertion);
    }
    let mut ops: Vec<BOp> = vec![BOp::Claim(ClaimSpec::auto("data", Value::String(msg.to_string())))];
    for c in extra {
        ops.push(BOp::Claim(c.clone()));
    }
    if let Some(f) = footer {
        ops.push(BOp::Footer(f.to_string()));
    }
    if let Some(a) = assertion {
        if p.has_assertion() {
            ops.push(BOp::Assertion(a.to_string()));
        }
    }
    ops.push(BOp::Build);
    // Some(seed): H1 script (the draw is overwritten); None: observer mode, the real RNG output is used
    let script = match seed {
        Some(s) => vec![s.to_vec()],
        None => Vec::new(),
    };
    let (ev, _draws) = with_rng_script(script, || build_history(p, layer, key, &ops));
    match ev.into_iter().last() {
        Some(BEvent::Built(o)) => o,
        Some(BEvent::Ctor(c)) => Out::Err(c),
        _ => Out::Err(ErrClass::Harness("no build event".into())),
    }
}

#[derive(Clone, Debug, PartialEq)]
pub enum Opened {
    /// core layer: the message
    Msg(String),
    /// parser layers: the JSON payload and the validator calls made
    Json(Value, Vec<ValidatorCall>),
}

/// One-shot present at any layer. At the parser layers a counting validator (slot 11) is registered
/// under the custom key `vcount` so that "no validator ran" is observable.
pub fn present(p: Proto, layer: Layer, key: &[u8], token: &str, footer: Option<&str>, assertion: Option<&str>) -> (Out<Opened>, usize) {
    if layer == Layer::Core {
        let o = match core_present(p, key, token, footer, assertion) {
            Out::Ok(m) => Out::Ok(Opened::Msg(m)),
            Out::Err(e) => Out::Err(e),
            Out::Panic(l) => Out::Panic(l),
        };
        return (o, 0);
    }
    let mut ops: Vec<POp> = Vec::new();
    if let Some(f) = footer {
        ops.push(POp::Footer(f.to_string()));
    }
    if let Some(a) = assertion {
        if p.has_assertion() {
            ops.push(POp::Assertion(a.to_string()));
        }
    }
    ops.push(POp::Validate("vcount".into(), 11));
    ops.push(POp::Parse(0, 0));
    set_verdict(11, Verdict::Accept);
    // PasetoParser::new() at the prelude layer: the default exp/nbf validators are C11/C12's business
    let ev = parse_history(p, layer, false, &[key.to_vec()], &[token.to_string()], &ops);
    match ev.into_iter().last() {
        Some(PEvent::Parsed(o, calls)) => {
            let n = calls.len();
            let o = match o {
                Out::Ok(v) => Out::Ok(Opened::Json(v, calls)),
                Out::Err(e) => Out::Err(e),
                Out::Panic(l) => Out::Panic(l),
            };
            (o, n)
        }
        _ => (Out::Err(ErrClass::Harness("no parse event".into())), 0),
    }
}
