//! The harness's own base64url codec (shares no code with the `base64` crate the library uses).
//! Used to take tokens apart, to build mutants and to decide canonicity.

pub const ALPHABET: &[u8; 64] = b"ABCDEFGHIJKLMNOPQRSTUVWXYZabcdefghijklmnopqrstuvwxyz0123456789-_";

/// The alphabet of the text-edit mutation families: base64url plus '.', '=' and the white-space
/// characters a transport might add (blank, LF, CR, TAB) - 70 symbols.
pub fn token_alphabet() -> Vec<u8> {
    let mut v = ALPHABET.to_vec();
    v.extend_from_slice(b".= \n\r\t");
    v
}

pub fn val(c: u8) -> Option<u8> {
    match c {
        b'A'..=b'Z' => Some(c - b'A'),
        b'a'..=b'z' => Some(c - b'a' + 26),
        b'0'..=b'9' => Some(c - b'0' + 52),
        b'-' => Some(62),
        b'_' => Some(63),
        _ => None,
    }
}

/// Unpadded URL-safe encoding.
pub fn encode(data: &[u8]) -> String {
    let mut out = Vec::with_capacity(data.len() * 4 / 3 + 3);
    for chunk in data.chunks(3) {
        let b0 = chunk[0] as u32;
        let b1 = *chunk.get(1).unwrap_or(&0) as u32;
        let b2 = *chunk.get(2).unwrap_or(&0) as u32;
        let n = (b0 << 16) | (b1 << 8) | b2;
        out.push(ALPHABET[(n >> 18) as usize & 63]);
        out.push(ALPHABET[(n >> 12) as usize & 63]);
        if chunk.len() > 1 {
            out.push(ALPHABET[(n >> 6) as usize & 63]);
        }
        if chunk.len() > 2 {
            out.push(ALPHABET[n as usize & 63]);
        }
    }
    String::from_utf8(out).unwrap()
}

/// Strict decoding: only the URL-safe alphabet, no padding, canonical trailing bits.
pub fn decode_strict(s: &str) -> Option<Vec<u8>> {
    let b = s.as_bytes();
    if b.len() % 4 == 1 {
        return None;
    }
    let mut out = Vec::with_capacity(b.len() * 3 / 4);
    for chunk in b.chunks(4) {
        let mut v = [0u32; 4];
        for (i, c) in chunk.iter().enumerate() {
            v[i] = val(*c)? as u32;
        }
        let n = (v[0] << 18) | (v[1] << 12) | (v[2] << 6) | v[3];
        match chunk.len() {
            4 => {
                out.push((n >> 16) as u8);
                out.push((n >> 8) as u8);
                out.push(n as u8);
            }
            3 => {
                if v[2] & 0b11 != 0 {
                    return None;
                }
                out.push((n >> 16) as u8);
                out.push((n >> 8) as u8);
            }
            2 => {
                if v[1] & 0b1111 != 0 {
                    return None;
                }
                out.push((n >> 16) as u8);
            }
            _ => return None,
        }
    }
    Some(out)
}

/// Lenient decoding (trailing bits ignored) used only to *describe* mutants, never as an oracle.
pub fn decode_lenient(s: &str) -> Option<Vec<u8>> {
    let b = s.as_bytes();
    if b.len() % 4 == 1 {
        return None;
    }
    let mut out = Vec::new();
    for chunk in b.chunks(4) {
        let mut v = [0u32; 4];
        for (i, c) in chunk.iter().enumerate() {
            v[i] = val(*c)? as u32;
        }
        let n = (v[0] << 18) | (v[1] << 12) | (v[2] << 6) | v[3];
        out.push((n >> 16) as u8);
        if chunk.len() > 2 {
            out.push((n >> 8) as u8);
        }
        if chunk.len() > 3 {
            out.push(n as u8);
        }
    }
    Some(out)
}

pub fn hex(b: &[u8]) -> String {
    let mut s = String::with_capacity(b.len() * 2);
    for x in b {
        s.push_str(&format!("{:02x}", x));
    }
    s
}

pub fn unhex(s: &str) -> Option<Vec<u8>> {
    let b = s.as_bytes();
    if b.len() % 2 != 0 {
        return None;
    }
    let nib = |c: u8| -> Option<u8> {
        match c {
            b'0'..=b'9' => Some(c - b'0'),
            b'a'..=b'f' => Some(c - b'a' + 10),
            b'A'..=b'F' => Some(c - b'A' + 10),
            _ => None,
        }
    };
    let mut out = Vec::with_capacity(b.len() / 2);
    for p in b.chunks(2) {
        out.push(nib(p[0])? << 4 | nib(p[1])?);
    }
    Some(out)
}

#[cfg(test)]
mod tests {
    use super::*;
    #[test]
    fn round_trip() {
        for n in 0..70usize {
            let d: Vec<u8> = (0..n).map(|i| (i * 37 + 11) as u8).collect();
            let e = encode(&d);
            assert_eq!(decode_strict(&e).unwrap(), d);
        }
        assert_eq!(encode(b"f"), "Zg");
        assert_eq!(encode(b"fo"), "Zm8");
        assert_eq!(encode(b"foobar"), "Zm9vYmFy");
        assert!(decode_strict("Zh").is_none());
        assert!(decode_strict("Zg==").is_none());
    }
}
