//! Engine A: stateless exhaustive exploration of a tree of named, finite choice points.
//!
//! A harness body asks the `Chooser` for choices; the explorer re-runs the body once per path
//! (prefix replay + odometer), optionally keeping only the paths with at most `bound` non-default
//! choices among the *input* dimensions (`choose`); configuration dimensions (`choose_cfg`) are always
//! enumerated in full. One path = one execution of the real library. Nothing is sampled.

use std::sync::atomic::{AtomicUsize, Ordering};
use std::sync::Mutex;

#[derive(Clone, Debug)]
struct Point {
    label: &'static str,
    n_eff: u32,
    chosen: u32,
    counts: bool,
}

pub struct Chooser {
    bound: Option<u32>,
    trail: Vec<Point>,
    pos: usize,
    devs: u32,
    /// choice points taken over the lifetime of this chooser (transitions of the choice tree)
    pub points_taken: u64,
}

impl Chooser {
    pub fn new(bound: Option<u32>) -> Self {
        Chooser { bound, trail: Vec::new(), pos: 0, devs: 0, points_taken: 0 }
    }

    fn begin(&mut self) {
        self.pos = 0;
        self.devs = 0;
    }

    fn pick(&mut self, label: &'static str, n: usize, counts: bool) -> usize {
        assert!(n >= 1, "choice point {} has an empty domain", label);
        self.points_taken += 1;
        let n_eff = if counts && self.bound.map_or(false, |b| self.devs >= b) { 1 } else { n as u32 };
        let chosen = if self.pos < self.trail.len() {
            // replaying the recorded prefix: any divergence is a machinery error, never a verdict
            let p = &self.trail[self.pos];
            if p.label != label || p.n_eff != n_eff || p.counts != counts {
                panic!(
                    "MACHINERY-ERROR: nondeterministic harness body: replay of choice point {} expected {}({}) found {}({})",
                    self.pos, p.label, p.n_eff, label, n_eff
                );
            }
            p.chosen
        } else {
            self.trail.push(Point { label, n_eff, chosen: 0, counts });
            0
        };
        self.pos += 1;
        if counts && chosen != 0 {
            self.devs += 1;
        }
        chosen as usize
    }

    /// An input dimension: index 0 is the default, any other index is one deviation.
    pub fn choose(&mut self, label: &'static str, n: usize) -> usize {
        self.pick(label, n, true)
    }

    /// A configuration dimension (protocol, layer, ...): always fully enumerated.
    pub fn choose_cfg(&mut self, label: &'static str, n: usize) -> usize {
        self.pick(label, n, false)
    }

    pub fn choose_from<'a, T>(&mut self, label: &'static str, dom: &'a [T]) -> &'a T {
        &dom[self.choose(label, dom.len())]
    }

    /// Moves to the next path in depth-first order. Returns false when the tree is exhausted.
    fn advance(&mut self) -> bool {
        if self.pos != self.trail.len() {
            panic!("MACHINERY-ERROR: harness body took {} choice points, recorded path has {}", self.pos, self.trail.len());
        }
        while let Some(last) = self.trail.last_mut() {
            if last.chosen + 1 < last.n_eff {
                last.chosen += 1;
                return true;
            }
            self.trail.pop();
        }
        false
    }

    pub fn path(&self) -> Vec<(&'static str, u32)> {
        self.trail.iter().map(|p| (p.label, p.chosen)).collect()
    }
}

/// Runs `body` once for every path of its choice tree (with at most `bound` deviations if given).
/// Returns (executions, choice points taken).
pub fn explore<F: FnMut(&mut Chooser)>(bound: Option<u32>, mut body: F) -> (u64, u64) {
    let mut c = Chooser::new(bound);
    let mut execs = 0u64;
    loop {
        c.begin();
        body(&mut c);
        execs += 1;
        if !c.advance() {
            break;
        }
    }
    (execs, c.points_taken)
}

/// Work splitting: `units` are independent sub-trees (e.g. one per protocol x layer x key); `jobs`
/// threads pull them from a shared counter.
pub fn par_units<U: Sync, R: Send, F: Fn(&U) -> R + Sync>(units: &[U], f: F) -> Vec<R> {
    let jobs = std::env::var("VERIF_JOBS").ok().and_then(|s| s.parse().ok()).unwrap_or(16usize).max(1);
    let next = AtomicUsize::new(0);
    let out: Mutex<Vec<(usize, R)>> = Mutex::new(Vec::new());
    std::thread::scope(|s| {
        for _ in 0..jobs.min(units.len().max(1)) {
            s.spawn(|| loop {
                // every worker starts with the default frozen clock (H2); checks that need another
                // instant, or the real clock, set it themselves
                crate::adapter::freeze_default_clock();
                let i = next.fetch_add(1, Ordering::SeqCst);
                if i >= units.len() {
                    break;
                }
                let r = f(&units[i]);
                out.lock().unwrap().push((i, r));
            });
        }
    });
    let mut v = out.into_inner().unwrap();
    v.sort_by_key(|(i, _)| *i);
    v.into_iter().map(|(_, r)| r).collect()
}

#[cfg(test)]
mod tests {
    use super::*;
    #[test]
    fn full_product_and_bounds() {
        let mut seen = std::collections::BTreeSet::new();
        let (n, _) = explore(None, |c| {
            let a = c.choose("a", 3);
            let b = c.choose("b", 4);
            let k = c.choose_cfg("k", 2);
            seen.insert((a, b, k));
        });
        assert_eq!(n, 24);
        assert_eq!(seen.len(), 24);
        let mut seen = std::collections::BTreeSet::new();
        let (n, _) = explore(Some(1), |c| {
            let k = c.choose_cfg("k", 2);
            let a = c.choose("a", 3);
            let b = c.choose("b", 4);
            seen.insert((a, b, k));
        });
        // per k: (0,0), (a!=0,0) x2, (0,b!=0) x3 = 6
        assert_eq!(n, 12);
        assert!(seen.iter().all(|(a, b, _)| *a == 0 || *b == 0));
        let (n, _) = explore(Some(0), |c| {
            c.choose("a", 3);
            c.choose("b", 4);
        });
        assert_eq!(n, 1);
    }
    #[test]
    fn dependent_domains() {
        // the domain of the second point depends on the first choice
        let mut total = 0;
        explore(None, |c| {
            let a = c.choose("a", 3);
            let _ = c.choose("b", a + 1);
            total += 1;
        });
        assert_eq!(total, 1 + 2 + 3);
    }
}
