//! The shared finite alphabets of engine A (DESIGN.md section 3). Index 0 of every domain is the default.

use crate::adapter::Proto;
use crate::b64::unhex;
use crate::report::{machinery_error, verif_dir};
use serde_json::Value;

pub const OFFICIAL_KEY: &str = "707172737475767778797a7b7c7d7e7f808182838485868788898a8b8c8d8e8f";
pub const OFFICIAL_NONCE: &str = "26f7553354482a1d91d4784627854b8da6b8042a7966523c2b404e8dbbe7f7f2";

pub fn official_key() -> Vec<u8> {
    unhex(OFFICIAL_KEY).unwrap()
}

/// symmetric keys: official; all-zero; all-one; official ^ bit0; official ^ bit255; "wubbalubba..."
pub fn sym_keys() -> Vec<Vec<u8>> {
    let off = official_key();
    let mut b0 = off.clone();
    b0[0] ^= 1;
    let mut b255 = off.clone();
    b255[31] ^= 0x80;
    vec![off, vec![0u8; 32], vec![0xffu8; 32], b0, b255, b"wubbalubbadubdubwubbalubbadubdub".to_vec()]
}

/// every single-bit neighbour of the official key (thorough tiers)
pub fn sym_key_neighbours() -> Vec<Vec<u8>> {
    let off = official_key();
    (0..256)
        .map(|i| {
            let mut k = off.clone();
            k[i / 8] ^= 1 << (i % 8);
            k
        })
        .collect()
}

/// nonce seeds; v2 gets 24-byte forms (and one 32-byte form, which the API also accepts)
pub fn seeds(p: Proto) -> Vec<Vec<u8>> {
    let n = if p == Proto::V2L { 24 } else { 32 };
    let off = unhex(OFFICIAL_NONCE).unwrap();
    let mut one = vec![0u8; n];
    one[n - 1] = 1;
    let mut v = vec![vec![0u8; n], vec![0xffu8; n], off[..n].to_vec(), one];
    if p == Proto::V2L {
        v.push(off.clone());
    }
    v
}

pub const MSG_LENGTHS: [usize; 30] = [
    0, 1, 2, 15, 16, 17, 31, 32, 33, 47, 48, 49, 63, 64, 65, 127, 128, 129, 255, 256, 257, 1023, 1024, 1025, 4095, 4096, 4097, 65535, 65536, 65537,
];
pub const MSG_CLASSES: usize = 4;

/// quick tiers: the first 21 lengths plus one beyond 1 KiB, one beyond 4 KiB and one beyond 64 KiB
pub fn quick_lengths() -> Vec<usize> {
    let mut v = MSG_LENGTHS[..21].to_vec();
    v.extend_from_slice(&[1025, 4097, 65537]);
    v
}

/// A UTF-8 message of exactly `len` bytes in content class `class`:
/// 0 = JSON-looking ASCII; 1 = 2/3/4-byte code points mixed (cut at a character boundary, ASCII-padded);
/// 2 = ASCII with embedded NUL, '.', '=', '"' and '\';
/// 3 = text lines with leading blanks and CR LF, ending in a line break (white space at both ends).
pub fn message(len: usize, class: usize) -> String {
    let unit: &str = match class {
        0 => "{\"data\":\"this is a signed message\",\"exp\":\"2022-01-01T00:00:00+00:00\"}",
        1 => "\u{00e9}\u{2603}\u{1d11e}a\u{00df}\u{4e2d}\u{1f642}",
        2 => "a\0b.c=d\"e\\f.\0.",
        _ => "\u{feff} \tline one\r\nline two \n",
    };
    let mut s = String::with_capacity(len + 8);
    'outer: loop {
        for ch in unit.chars() {
            if s.len() + ch.len_utf8() > len {
                break 'outer;
            }
            s.push(ch);
        }
        if unit.is_empty() {
            break;
        }
    }
    while s.len() < len {
        s.push(if class == 3 { '\n' } else { 'x' });
    }
    if class == 3 && len > 0 && !s.ends_with('\n') && !s.ends_with('\r') {
        // make the text end in a line break without changing its byte length
        s.pop();
        while s.len() < len {
            s.push('\n');
        }
    }
    debug_assert_eq!(s.len(), len);
    s
}

/// footers: none; Some(""); "f"; "g"; JSON kid; non-ASCII; '.' and NUL; 1 KiB; "F"
pub fn footers() -> Vec<Option<String>> {
    vec![
        None,
        Some(String::new()),
        Some("f".into()),
        Some("g".into()),
        Some("{\"kid\":\"zVhMiPBP9fRf2snEcT7gFTioeA9COcNy9DfgL1W60haN\"}".into()),
        Some("\u{0192}\u{00f6}\u{00f6}t\u{00e9}r\u{1f642}".into()),
        Some("a.b\0c.".into()),
        Some("K".repeat(1024)),
        Some("F".into()),
        // 6-bit groups 62 and 63 at several alignments: the base64url symbols '-' and '_' (where the URL-safe
        // and the standard alphabet differ)
        Some("xx?xx>xx~ \u{00ff}\u{00fb}\u{00ef}\u{00be}".into()),
        // the replacement character (what a lossy UTF-8 decode produces) next to ordinary text
        Some("x\u{fffd}y\u{fffd}".into()),
        // longer than any fixed 4 / 8 KiB scratch buffer, also after base64 expansion
        Some("L".repeat(9000)),
    ]
}

/// footers for pair spaces: the above plus prefixes / extensions of each other
pub fn footer_pairs_domain() -> Vec<Option<String>> {
    let mut v = footers();
    v.push(Some("ff".into()));
    v.push(Some("f ".into()));
    v.push(Some("{\"kid\":\"zVhMiPBP9fRf2snEcT7gFTioeA9COcNy9DfgL1W60ha\"}".into()));
    v
}

/// assertions (v3/v4): none; Some(""); short; multi-byte; equal to a footer text; 1 KiB
/// (the non-trivial ones are >= 16 distinctive bytes so that "does not occur in the token" is meaningful)
pub fn assertions() -> Vec<Option<String>> {
    vec![
        None,
        Some(String::new()),
        Some("{\"test-vector\":\"4-S-3\"}".into()),
        Some("\u{00e4}ss\u{00e9}rt\u{1f642}-implicit-\u{4e2d}\u{6587}".into()),
        Some("{\"kid\":\"zVhMiPBP9fRf2snEcT7gFTioeA9COcNy9DfgL1W60haN\"}".into()),
        Some("Q".repeat(1024)),
        Some("\u{fffd}-assertion-\u{fffd}".into()),
        Some("R".repeat(9000)),
    ]
}

pub fn assertion_pairs_domain() -> Vec<Option<String>> {
    let mut v = assertions();
    v.push(Some("{\"test-vector\":\"4-S-3\"} ".into()));
    v.push(Some("{\"test-vector\":\"4-S-3".into()));
    v.push(Some("{\"TEST-vector\":\"4-S-3\"}".into()));
    v
}

/// Texts that "helpful" sanitisation, normalisation or parsing shortcuts tend to damage: white space of
/// every kind at either end, BOM, NUL and control characters, zero-width and bidi marks, NFC vs NFD, special
/// case mappings, percent / plus / slash escapes, path and JSON look-alikes. Used as messages, footers,
/// assertions, claim keys and claim values (all are legal UTF-8 strings; none may be altered or conflated).
pub fn hostile_texts() -> Vec<String> {
    [
        " ", "\n", "\r\n", "\t x \t", " x", "x ", "x\n", "\u{a0}x\u{a0}", "\u{3000}x", "\u{feff}x", "x\u{feff}", "\0", "x\0", "\0x", "a\u{1}b\u{7f}",
        "\u{200b}x", "x\u{200d}", "\u{202e}abc", "\u{e9}", "e\u{301}", "\u{212b}", "\u{c5}", "\u{130}", "\u{df}", "SS", "ss", "\u{1c5}", "\u{ff21}\u{ff22}", "AB", "ab",
        "\u{fffd}", "a\u{fffd}b", "'\"\\", "%00", "%2E", "a+b/c=", "a b", "a%20b", "../x", "x/../y", "null", "true", "0", "-0", "1e3", "[]", "{}", "\"x\"", "\\u0041", "A",
        // JSON documents (footers and assertions usually are): the same document can be spelled in many ways, a
        // token is bound to the text
        JSON_DOC, "{ \"kid\" : \"k1\", \"x\": \"\u{e9}\" }", "[1,2]", "{\"a\":1,\"a\":2}",
        // JSON-pointer and path syntax (RFC 6901 escapes ~0 and ~1), as claim names and values
        "a~1b", "~0", "rev~01", "~", "a/b", "/", "a~b",
        // texts that look like the library's own vocabulary: PASERK key identifiers and wrapped keys (what footers
        // typically carry), tokens and headers
        "k4.secret.AAAA", "k1.secret. k2.secret. k3.secret.x", "k4.local.AAAA", "k4.public.AAAA", "k4.pid.AAAA", "k4.lid.AAAA", "k4.sid.AAAA", "k4.seal.AAAA", "k4.local-pw.AAAA",
        "{\"kid\":\"k4.pid.AAAA\",\"wpk\":\"k4.secret-wrap.pie.AAAA\"}", "v4.local.AAAA.BBBB", "v4.public.", "v2.local.AAAA", "local", "public",
    ]
    .iter()
    .map(|s| s.to_string())
    .collect()
}

/// variants that a normalising implementation would conflate with `s`
pub fn conflation_variants(s: &str) -> Vec<String> {
    let mut v = vec![s.trim().to_string(), s.trim_end().to_string(), s.trim_start().to_string(), s.to_lowercase(), s.to_uppercase(), s.replace('\0', ""), s.replace('\u{feff}', ""), format!("{} ", s), format!("{}\n", s), format!(" {}", s)];
    // the NFC / NFD pair and the compatibility pairs present in the list
    for (a, b) in [("\u{e9}", "e\u{301}"), ("\u{212b}", "\u{c5}"), ("\u{ff21}\u{ff22}", "AB"), ("\u{df}", "ss"), ("%2E", "."), ("a%20b", "a b"), ("\\u0041", "A"), ("-0", "0"), ("1e3", "1000")] {
        if s == a {
            v.push(b.to_string());
        }
        if s == b {
            v.push(a.to_string());
        }
    }
    // other spellings of the same JSON document: member order, white space, escapes, a repeated member
    // (first or last one wins, depending on the reader), number forms
    if s == JSON_DOC {
        for alt in [
            "{\"x\":\"\u{e9}\",\"kid\":\"k1\"}",
            "{ \"kid\" : \"k1\", \"x\": \"\u{e9}\" }",
            "{\"kid\":\"k1\",\"x\":\"\\u00e9\"}",
            "{\"\\u006bid\":\"k1\",\"x\":\"\u{e9}\"}",
            "{\"kid\":\"evil\",\"kid\":\"k1\",\"x\":\"\u{e9}\"}",
            "{\"kid\":\"k1\",\"x\":\"\u{e9}\",\"kid\":\"k1\"}",
            "{\"kid\":\"k1\",\"x\":\"\u{e9}\",\"kid\":\"evil\"}",
            "{\"kid\":\"k1\",\"x\":\"\u{e9}\"}\n",
            "{\"kid\":\"k1\",\"x\":\"\u{e9}\",}",
        ] {
            v.push(alt.to_string());
        }
    }
    if s == "{\"a\":1,\"a\":2}" {
        v.push("{\"a\":2}".to_string());
        v.push("{\"a\":1}".to_string());
        v.push("{\"a\":2,\"a\":1}".to_string());
    }
    if s == "[1,2]" {
        v.push("[1, 2]".to_string());
        v.push("[1.0,2]".to_string());
        v.push("[2,1]".to_string());
    }
    if s == "{ \"kid\" : \"k1\", \"x\": \"\u{e9}\" }" {
        v.push(JSON_DOC.to_string());
        v.push("{\"x\":\"\u{e9}\",\"kid\":\"k1\"}".to_string());
    }
    v.retain(|x| x != s);
    v.sort();
    v.dedup();
    v
}
/// a two-member JSON object in compact, key-sorted form
pub const JSON_DOC: &str = "{\"kid\":\"k1\",\"x\":\"\u{e9}\"}";

#[derive(Clone, Debug)]
pub struct KeyMat {
    pub label: String,
    /// what the issuing side is given (symmetric key / private key material)
    pub sk: Vec<u8>,
    /// what the accepting side is given (symmetric key / public key material)
    pub pk: Vec<u8>,
    /// what the specification reference is given (ed25519 seed, P-384 scalar, RSA fixture name, symmetric key)
    pub secret_for_ref: String,
}

fn load_json(rel: &str) -> Value {
    let p = verif_dir().join(rel);
    let txt = std::fs::read_to_string(&p).unwrap_or_else(|_| machinery_error(&format!("missing fixture {}", p.display())));
    serde_json::from_str(&txt).unwrap_or_else(|_| machinery_error(&format!("fixture {} is not JSON", p.display())))
}

fn read_bytes(rel: &str) -> Vec<u8> {
    let p = verif_dir().join(rel);
    std::fs::read(&p).unwrap_or_else(|_| machinery_error(&format!("missing fixture {}", p.display())))
}

/// key material pool of a protocol (local: the 6 symmetric keys; v2/v4 public: 8 Ed25519 pairs whose
/// public halves were derived by the Python reference R1; v3: 6 P-384 pairs (R1-derived); v1: 3 RSA pairs)
pub fn key_pool(p: Proto) -> Vec<KeyMat> {
    match p {
        Proto::V1L | Proto::V2L | Proto::V3L | Proto::V4L => sym_keys()
            .into_iter()
            .enumerate()
            .map(|(i, k)| KeyMat { label: format!("sym{}", i), sk: k.clone(), pk: k.clone(), secret_for_ref: crate::b64::hex(&k) })
            .collect(),
        Proto::V2P | Proto::V4P => {
            let j = load_json("fixtures/keys.json");
            j["ed25519"]
                .as_array()
                .unwrap_or_else(|| machinery_error("fixtures/keys.json: no ed25519 pool"))
                .iter()
                .enumerate()
                .map(|(i, e)| {
                    let seed = unhex(e["seed"].as_str().unwrap()).unwrap();
                    let pk = unhex(e["pk"].as_str().unwrap()).unwrap();
                    let mut sk = seed.clone();
                    sk.extend_from_slice(&pk);
                    KeyMat { label: format!("ed{}", i), sk, pk, secret_for_ref: crate::b64::hex(&seed) }
                })
                .collect()
        }
        Proto::V3P => {
            let j = load_json("fixtures/keys.json");
            j["p384"]
                .as_array()
                .unwrap_or_else(|| machinery_error("fixtures/keys.json: no p384 pool"))
                .iter()
                .enumerate()
                .map(|(i, e)| {
                    let d = unhex(e["d"].as_str().unwrap()).unwrap();
                    let pk = unhex(e["pk"].as_str().unwrap()).unwrap();
                    KeyMat { label: format!("p384_{}", i), sk: d.clone(), pk, secret_for_ref: crate::b64::hex(&d) }
                })
                .collect()
        }
        Proto::V1P => (0..3)
            .map(|i| KeyMat {
                label: format!("rsa{}", i),
                sk: read_bytes(&format!("fixtures/rsa{}.pk8", i)),
                pk: read_bytes(&format!("fixtures/rsa{}.pub.der", i)),
                secret_for_ref: format!("rsa{}", i),
            })
            .collect(),
    }
}

#[cfg(test)]
mod tests {
    use super::*;
    #[test]
    fn messages_have_exact_length_and_are_utf8() {
        for &l in MSG_LENGTHS.iter().take(24) {
            for c in 0..MSG_CLASSES {
                assert_eq!(message(l, c).len(), l);
            }
        }
        assert!(message(17, 1).chars().any(|c| c.len_utf8() > 1));
        assert!(message(17, 2).contains('\0'));
    }
}
