//! Accumulators, violations, known findings, evidence files. Nothing here decides a property.

use serde_json::{json, Value};
use std::collections::{BTreeMap, HashSet};
use std::hash::{Hash, Hasher};
use std::path::PathBuf;
use std::time::Instant;

pub fn verif_dir() -> PathBuf {
    // harness/ lives directly under /verif
    let mut p = PathBuf::from(env!("CARGO_MANIFEST_DIR"));
    p.pop();
    p
}

#[derive(Clone, Debug)]
pub struct Violation {
    /// stable signature of this specific failing input / call site (what known_findings.json matches)
    pub key: String,
    pub what: String,
    /// decoded case, enough for `--replay`
    pub case: Value,
}

/// Per-thread accumulator, merged at the end of a run.
#[derive(Default, Clone)]
pub struct Acc {
    pub executions: u64,
    pub choice_points: u64,
    pub states: u64,
    pub impl_calls: u64,
    pub controls_ok: u64,
    pub skipped_control_failed: u64,
    pub violations: Vec<Violation>,
    pub violation_count: u64,
    pub hist: BTreeMap<String, u64>,
    pub distinct: HashSet<u64>,
    pub samples: Vec<Value>,
    pub notes: BTreeMap<String, Value>,
}

pub fn h64<T: Hash + ?Sized>(t: &T) -> u64 {
    let mut h = std::collections::hash_map::DefaultHasher::new();
    t.hash(&mut h);
    h.finish()
}

impl Acc {
    pub fn bump(&mut self, k: &str) {
        *self.hist.entry(k.to_string()).or_insert(0) += 1;
    }
    pub fn bump_n(&mut self, k: &str, n: u64) {
        *self.hist.entry(k.to_string()).or_insert(0) += n;
    }
    pub fn see<T: Hash + ?Sized>(&mut self, t: &T) {
        self.distinct.insert(h64(t));
    }
    pub fn sample(&mut self, v: Value) {
        if self.samples.len() < 4 {
            self.samples.push(v);
        }
    }
    pub fn violate(&mut self, key: String, what: String, case: Value) {
        self.violation_count += 1;
        // keep one stored witness per signature (bounded), count all
        if self.violations.len() < 400 && !self.violations.iter().any(|v| v.key == key) {
            self.violations.push(Violation { key, what, case });
        }
    }
    pub fn merge(&mut self, o: Acc) {
        self.executions += o.executions;
        self.choice_points += o.choice_points;
        self.states += o.states;
        self.impl_calls += o.impl_calls;
        self.controls_ok += o.controls_ok;
        self.skipped_control_failed += o.skipped_control_failed;
        self.violation_count += o.violation_count;
        for v in o.violations {
            if self.violations.len() < 400 && !self.violations.iter().any(|w| w.key == v.key) {
                self.violations.push(v);
            }
        }
        for (k, n) in o.hist {
            *self.hist.entry(k).or_insert(0) += n;
        }
        self.distinct.extend(o.distinct);
        for s in o.samples {
            if self.samples.len() < 6 {
                self.samples.push(s);
            }
        }
        for (k, v) in o.notes {
            self.notes.entry(k).or_insert(v);
        }
    }
    pub fn merge_all(v: Vec<Acc>) -> Acc {
        let mut a = Acc::default();
        for x in v {
            a.merge(x);
        }
        a
    }
}

pub struct Run {
    pub prop: &'static str,
    pub tier: String,
    pub t0: Instant,
}

pub fn profile() -> String {
    std::env::var("VERIF_PROFILE").unwrap_or_else(|_| if cfg!(debug_assertions) { "checked".into() } else { "release".into() })
}

fn seed() -> i64 {
    std::env::var("VERIF_SEED").ok().and_then(|s| s.parse().ok()).unwrap_or(0)
}

struct Known {
    key: String,
    what: String,
}

fn load_known(prop: &str) -> Vec<Known> {
    let p = verif_dir().join("known_findings.json");
    let Ok(txt) = std::fs::read_to_string(p) else { return vec![] };
    let Ok(v) = serde_json::from_str::<Value>(&txt) else {
        machinery_error("known_findings.json is not valid JSON");
    };
    v["findings"]
        .as_array()
        .cloned()
        .unwrap_or_default()
        .iter()
        .filter(|f| f["property"] == prop)
        .map(|f| Known { key: f["key"].as_str().unwrap_or("").to_string(), what: f["what"].as_str().unwrap_or("").to_string() })
        .collect()
}

pub fn machinery_error(msg: &str) -> ! {
    println!("MACHINERY-ERROR: {}", msg);
    std::process::exit(2);
}

impl Run {
    pub fn new(prop: &'static str, tier: &str) -> Run {
        Run { prop, tier: tier.to_string(), t0: Instant::now() }
    }

    /// Writes evidence, prints KNOWN-FINDING / VIOLATION lines, returns the exit code.
    /// `coverage_extra` carries the per-property keys (space description, bounds, domain sizes ...).
    pub fn finish(&self, acc: &Acc, exhaustive: bool, mut coverage_extra: Value, assumptions: &[&str]) -> i32 {
        let known = load_known(self.prop);
        let dir = verif_dir();
        let _ = std::fs::create_dir_all(dir.join("evidence"));
        let _ = std::fs::create_dir_all(dir.join("replays"));
        let mut new_violations = 0;
        let mut known_printed: HashSet<String> = HashSet::new();
        let mut known_hits = 0u64;
        for v in &acc.violations {
            if let Some(k) = known.iter().find(|k| k.key == v.key) {
                known_hits += 1;
                if known_printed.insert(k.key.clone()) {
                    println!("KNOWN-FINDING: property={} {}", self.prop, if k.what.is_empty() { &v.what } else { &k.what });
                }
                continue;
            }
            new_violations += 1;
            if new_violations <= 25 {
                let path = dir.join("replays").join(format!("{}-{}-{}.json", self.prop, profile(), new_violations));
                let body = json!({"property": self.prop, "key": v.key, "what": v.what, "case": v.case, "profile": profile()});
                let _ = std::fs::write(&path, serde_json::to_string_pretty(&body).unwrap());
                println!("VIOLATION property={} replay={}", self.prop, path.display());
                println!("  key:  {}", v.key);
                println!("  what: {}", v.what);
            }
        }
        let wall = self.t0.elapsed().as_secs_f64();
        let cov = coverage_extra.as_object_mut().expect("coverage_extra must be an object");
        cov.insert("states".into(), json!(acc.states.max(1)));
        cov.insert("transitions".into(), json!(acc.choice_points.max(1)));
        cov.insert("traces_validated_against_impl".into(), json!(acc.executions));
        cov.insert("evaluations".into(), json!(acc.executions));
        cov.insert("distinct_nontrivial".into(), json!(acc.distinct.len()));
        cov.insert("impl_calls".into(), json!(acc.impl_calls));
        cov.insert("exhaustive".into(), json!(exhaustive));
        cov.insert("positive_controls_ok".into(), json!(acc.controls_ok));
        cov.insert("skipped_control_failed".into(), json!(acc.skipped_control_failed));
        cov.insert("outcome_histogram".into(), json!(acc.hist));
        cov.insert("violating_executions".into(), json!(acc.violation_count));
        cov.insert("distinct_violation_signatures".into(), json!(acc.violations.len()));
        cov.insert("known_finding_signatures_hit".into(), json!(known_hits));
        cov.insert("build_profile".into(), json!(profile()));
        cov.insert("debug_assertions".into(), json!(cfg!(debug_assertions)));
        for (k, v) in &acc.notes {
            cov.insert(k.clone(), v.clone());
        }
        let samples = if acc.samples.is_empty() { vec![json!("(no sample recorded)")] } else { acc.samples.clone() };
        cov.insert("samples".into(), json!(samples));
        let ev = json!({
            "property_id": self.prop,
            "tier": self.tier,
            "seed": seed(),
            "level": "model_checking",
            "coverage": coverage_extra,
            "assumptions": assumptions,
            "wall_s": (wall * 1000.0).round() / 1000.0,
            "violations": new_violations,
        });
        let path = dir.join("evidence").join(format!("{}.json", self.prop));
        let tmp = dir.join("evidence").join(format!("{}.json.tmp", self.prop));
        std::fs::write(&tmp, serde_json::to_string_pretty(&ev).unwrap()).expect("write evidence");
        std::fs::rename(&tmp, &path).expect("rename evidence");
        println!(
            "{} {}: executions={} choice_points={} states={} distinct={} controls_ok={} skipped={} violations(new)={} known={} wall={:.1}s exhaustive={}",
            self.prop, self.tier, acc.executions, acc.choice_points, acc.states, acc.distinct.len(), acc.controls_ok,
            acc.skipped_control_failed, new_violations, known_hits, wall, exhaustive
        );
        if new_violations > 0 {
            1
        } else {
            0
        }
    }
}
