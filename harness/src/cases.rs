//! Decoded cases (what a replay file contains) and the acceptance predicate R2 shared by C03-C07.

use crate::adapter::{self, ClaimSpec, ErrClass, Layer, Opened, Out, Proto};
use crate::b64;
use crate::domains::KeyMat;
use serde::{Deserialize, Serialize};
use serde_json::Value;

#[derive(Clone, Debug, Serialize, Deserialize, PartialEq)]
pub struct IssueCase {
    pub proto: Proto,
    pub layer: Layer,
    pub key_label: String,
    pub sk_hex: String,
    pub pk_hex: String,
    /// None = real RNG (free-running pass) at the upper layers
    pub seed_hex: Option<String>,
    pub msg: String,
    pub footer: Option<String>,
    pub assertion: Option<String>,
}

impl IssueCase {
    pub fn new(proto: Proto, layer: Layer, key: &KeyMat, seed: Option<&[u8]>, msg: &str, footer: &Option<String>, assertion: &Option<String>) -> Self {
        IssueCase {
            proto,
            layer,
            key_label: key.label.clone(),
            sk_hex: b64::hex(&key.sk),
            pk_hex: b64::hex(&key.pk),
            seed_hex: seed.map(b64::hex),
            msg: msg.to_string(),
            footer: footer.clone(),
            assertion: if proto.has_assertion() { assertion.clone() } else { None },
        }
    }
    pub fn sk(&self) -> Vec<u8> {
        b64::unhex(&self.sk_hex).expect("sk hex")
    }
    pub fn pk(&self) -> Vec<u8> {
        b64::unhex(&self.pk_hex).expect("pk hex")
    }
    pub fn seed(&self) -> Option<Vec<u8>> {
        self.seed_hex.as_ref().map(|h| b64::unhex(h).expect("seed hex"))
    }
    /// compact form for evidence samples / replay files (large fields abbreviated)
    pub fn brief(&self) -> Value {
        let cut = |s: &str| if s.len() > 80 { format!("{}...<{} bytes>", s.chars().take(40).collect::<String>(), s.len()) } else { s.to_string() };
        serde_json::json!({
            "proto": self.proto.name(), "layer": self.layer.name(), "key": self.key_label, "seed": self.seed_hex,
            "msg": cut(&self.msg), "msg_len": self.msg.len(),
            "footer": self.footer.as_deref().map(cut), "assertion": self.assertion.as_deref().map(cut),
        })
    }
    pub fn issue(&self) -> Out<String> {
        adapter::issue(self.proto, self.layer, &self.sk(), self.seed().as_deref(), &self.msg, &[], self.footer.as_deref(), self.assertion.as_deref())
    }
    pub fn issue_with(&self, extra: &[ClaimSpec]) -> Out<String> {
        adapter::issue(self.proto, self.layer, &self.sk(), self.seed().as_deref(), &self.msg, extra, self.footer.as_deref(), self.assertion.as_deref())
    }
}

#[derive(Clone, Debug, Serialize, Deserialize, PartialEq)]
pub struct Presentation {
    pub proto: Proto,
    pub layer: Layer,
    pub pk_hex: String,
    pub token: String,
    pub footer: Option<String>,
    pub assertion: Option<String>,
}

impl Presentation {
    pub fn of(issue: &IssueCase, token: &str) -> Self {
        Presentation {
            proto: issue.proto,
            layer: issue.layer,
            pk_hex: issue.pk_hex.clone(),
            token: token.to_string(),
            footer: issue.footer.clone(),
            assertion: issue.assertion.clone(),
        }
    }
    pub fn present(&self) -> (Out<Opened>, usize) {
        let pk = b64::unhex(&self.pk_hex).expect("pk hex");
        adapter::present(self.proto, self.layer, &pk, &self.token, self.footer.as_deref(), self.assertion.as_deref())
    }
}

/// A plain `#[test]` (source text) that makes the same call with literals and no explorer. `expectation`
/// is a Rust expression over `r` (the call's result), e.g. `r.is_err()`.
pub fn unit_test_for(pres: &Presentation, expectation: &str, comment: &str) -> String {
    let p = pres.proto;
    let v = p.version();
    let purpose = if p.is_local() { "Local" } else { "Public" };
    let pk = b64::unhex(&pres.pk_hex).unwrap_or_default();
    let key_lines = match p {
        Proto::V1L | Proto::V2L | Proto::V3L | Proto::V4L => format!("    let key = PasetoSymmetricKey::<V{v}, Local>::from(Key::<32>::try_from(\"{}\").unwrap());\n", pres.pk_hex),
        Proto::V2P | Proto::V4P => format!("    let raw = Key::<32>::try_from(\"{}\").unwrap();\n    let key = PasetoAsymmetricPublicKey::<V{v}, Public>::from(&raw);\n", pres.pk_hex),
        Proto::V3P => format!("    let raw = Key::<49>::try_from(\"{}\").unwrap();\n    let key = PasetoAsymmetricPublicKey::<V3, Public>::try_from(&raw).unwrap();\n", pres.pk_hex),
        Proto::V1P => format!("    let der: &[u8] = &{:?};\n    let key = PasetoAsymmetricPublicKey::<V1, Public>::from(der);\n", pk),
    };
    let footer = pres.footer.as_ref().map(|f| format!("Footer::from({:?})", f));
    let assertion = if p.has_assertion() { pres.assertion.as_ref().map(|a| format!("ImplicitAssertion::from({:?})", a)) } else { None };
    let call = match pres.layer {
        Layer::Core => {
            let m = if p.is_local() { "try_decrypt" } else { "try_verify" };
            let f = footer.clone().map(|f| format!("Some({})", f)).unwrap_or_else(|| "None::<Footer>".into());
            if p.has_assertion() {
                let a = assertion.clone().map(|a| format!("Some({})", a)).unwrap_or_else(|| "None::<ImplicitAssertion>".into());
                format!("    let r = Paseto::<V{v}, {purpose}>::{m}(token, &key, {f}, {a});\n")
            } else {
                format!("    let r = Paseto::<V{v}, {purpose}>::{m}(token, &key, {f});\n")
            }
        }
        layer => {
            let ty = if layer == Layer::Generic { "GenericParser" } else { "PasetoParser" };
            let ctor = if layer == Layer::Generic { "default()" } else { "new()" };
            let mut c = format!("    let mut parser = {ty}::<V{v}, {purpose}>::{ctor};\n");
            if let Some(f) = &footer {
                c.push_str(&format!("    parser.set_footer({});\n", f));
            }
            if let Some(a) = &assertion {
                c.push_str(&format!("    parser.set_implicit_assertion({});\n", a));
            }
            c.push_str("    let r = parser.parse(token, &key);\n");
            c
        }
    };
    let module = match pres.layer {
        Layer::Core => "core",
        Layer::Generic => "generic",
        Layer::Prelude => "prelude",
    };
    format!(
        "#[test]\nfn replay() {{\n    // {comment}\n    use rusty_paseto::{module}::*;\n{key_lines}    let token = {:?};\n{call}    assert!({expectation}, \"{{:?}}\", r.map(|_| ()));\n}}\n",
        pres.token
    )
}

fn norm(o: &Option<String>) -> &str {
    o.as_deref().unwrap_or("")
}

#[derive(Clone, Copy, Debug, PartialEq, Eq)]
pub enum Auth {
    /// the issued text itself: must be accepted
    Exact,
    /// the issued text plus / minus one empty trailing segment: may be accepted
    TrailingDot,
    /// public token differing only inside the signature bytes: may be accepted
    SigOnly,
    No,
}

/// R2: is the presentation authentic for the issued token?
pub fn authentic(issue: &IssueCase, issued_token: &str, pres: &Presentation) -> Auth {
    if pres.proto != issue.proto || pres.pk_hex != issue.pk_hex {
        return Auth::No;
    }
    if norm(&pres.footer) != norm(&issue.footer) {
        return Auth::No;
    }
    if issue.proto.has_assertion() && norm(&pres.assertion) != norm(&issue.assertion) {
        return Auth::No;
    }
    if pres.token == issued_token {
        return Auth::Exact;
    }
    let segs_i: Vec<&str> = issued_token.split('.').collect();
    let segs_p: Vec<&str> = pres.token.split('.').collect();
    if segs_i.len() == 3 && segs_p.len() == 4 && segs_p[3].is_empty() && segs_p[..3] == segs_i[..] {
        return Auth::TrailingDot;
    }
    if segs_i.len() == 4 && segs_i[3].is_empty() && segs_p.len() == 3 && segs_i[..3] == segs_p[..] {
        return Auth::TrailingDot;
    }
    if !issue.proto.is_local() && segs_i.len() == segs_p.len() && segs_i.len() >= 3 && segs_i[0] == segs_p[0] && segs_i[1] == segs_p[1] && segs_i[3..] == segs_p[3..] {
        if let (Some(di), Some(dp)) = (b64::decode_strict(segs_i[2]), b64::decode_strict(segs_p[2])) {
            let tail = issue.proto.tail_len();
            if di.len() == dp.len() && di.len() >= tail && di[..di.len() - tail] == dp[..dp.len() - tail] {
                return Auth::SigOnly;
            }
        }
    }
    Auth::No
}

/// Did an accepted presentation return exactly the original content?
pub fn content_matches(issue: &IssueCase, opened: &Opened) -> bool {
    match opened {
        Opened::Msg(m) => *m == issue.msg,
        Opened::Json(v, _) if issue.layer == Layer::Core => {
            // a core-issued token whose message is JSON text, opened by a parser layer
            serde_json::from_str::<Value>(&issue.msg).map_or(false, |want| &want == v)
        }
        Opened::Json(v, _) => {
            let Some(obj) = v.as_object() else { return false };
            if obj.get("data") != Some(&Value::String(issue.msg.clone())) {
                return false;
            }
            if issue.layer == Layer::Prelude {
                // the batteries-included builder adds default claims (C13 says which); C01/C02 only ask for the message
                true
            } else {
                obj.keys().all(|k| k == "data")
            }
        }
    }
}

#[derive(Clone, Debug, PartialEq)]
pub enum Judgement {
    Pass,
    /// (kind, explanation)
    Fail(String, String),
}

/// R2 applied to one observation. `strict_errors` adds C03's clause: a rejection must be an
/// authentication / format error raised before plaintext is handled, and no validator may have run.
pub fn judge(issue: &IssueCase, issued_token: &str, pres: &Presentation, obs: &Out<Opened>, validator_calls: usize, strict_errors: bool) -> Judgement {
    let auth = authentic(issue, issued_token, pres);
    match obs {
        Out::Panic(loc) => Judgement::Fail("panic".into(), format!("presentation panicked at {}", loc)),
        Out::Ok(opened) => {
            if auth == Auth::No {
                return Judgement::Fail("accepted-unauthentic".into(), "a presentation that is not authentic for the issued token was accepted".into());
            }
            if !content_matches(issue, opened) {
                return Judgement::Fail("accepted-different-content".into(), format!("accepted but returned different content: {:?}", abbreviate(opened)));
            }
            // the tolerated exception is a signature that was RE-ENCODED: the bytes differ, but they still are a
            // valid signature of the same message under the same key. Any other change of the signature bytes
            // that is accepted means the signature was not (fully) checked.
            if auth == Auth::SigOnly && sig_only_tolerated(issued_token, pres) == Some(false) {
                return Judgement::Fail("accepted-invalid-signature".into(), "only the signature bytes were altered, they are not a valid signature of the message (says the reference), and the token was accepted".into());
            }
            Judgement::Pass
        }
        Out::Err(e) => {
            if auth == Auth::Exact {
                return Judgement::Fail("control-rejected".into(), format!("the authentic presentation itself was rejected: {:?}", e));
            }
            if auth == Auth::No && strict_errors {
                match e {
                    ErrClass::Other(_) => {}
                    other => {
                        return Judgement::Fail(
                            format!("late-error:{}", other.short()),
                            format!("rejected with {:?}: an error raised after plaintext was handled (UTF-8 / JSON / claim class)", other),
                        )
                    }
                }
                if validator_calls != 0 {
                    return Judgement::Fail("validator-ran".into(), "a claim validator ran on an unauthentic token".into());
                }
            }
            Judgement::Pass
        }
    }
}

fn abbreviate(o: &Opened) -> String {
    let s = match o {
        Opened::Msg(m) => m.clone(),
        Opened::Json(v, _) => v.to_string(),
    };
    if s.len() > 120 {
        format!("{}...", s.chars().take(120).collect::<String>())
    } else {
        s
    }
}

static R1_CONSULTATIONS: std::sync::atomic::AtomicUsize = std::sync::atomic::AtomicUsize::new(0);
/// upper bound on reference consultations per process (each one is a Python process)
const R1_CONSULTATION_CAP: usize = 400;

/// Is the altered signature of `pres.token` a re-encoding of a valid signature? Some(true): same Ed25519 R and
/// S' = S + k*L (the same scalar written non-canonically), or the reference R1 verifies the token under the
/// same key, footer and assertion. Some(false): R1 refuses it. None: not decided (cap reached / R1 unavailable).
pub fn sig_only_tolerated(issued_token: &str, pres: &Presentation) -> Option<bool> {
    let seg = |t: &str| t.split('.').nth(2).and_then(b64::decode_strict);
    let (Some(di), Some(dp)) = (seg(issued_token), seg(&pres.token)) else { return None };
    if matches!(pres.proto, Proto::V2P | Proto::V4P) && di.len() == dp.len() && di.len() >= 64 {
        let (ri, si) = (&di[di.len() - 64..di.len() - 32], &di[di.len() - 32..]);
        let (rp, sp) = (&dp[dp.len() - 64..dp.len() - 32], &dp[dp.len() - 32..]);
        if ri == rp {
            // S' == S + k*L for some k >= 1 (little endian, 32 bytes)?
            let l = b64::unhex("edd3f55c1a631258d69cf7a2def9de1400000000000000000000000000000010").unwrap();
            let mut acc: Vec<u8> = si.to_vec();
            for _ in 0..16 {
                let mut carry = 0u16;
                let mut next = vec![0u8; 32];
                for i in 0..32 {
                    let v = acc[i] as u16 + l[i] as u16 + carry;
                    next[i] = v as u8;
                    carry = v >> 8;
                }
                if carry != 0 {
                    break;
                }
                acc = next;
                if acc.as_slice() == sp {
                    return Some(true);
                }
            }
        }
    }
    let n = R1_CONSULTATIONS.fetch_add(1, std::sync::atomic::Ordering::Relaxed);
    if n >= R1_CONSULTATION_CAP {
        return None;
    }
    let pk = if pres.proto == Proto::V1P {
        match crate::domains::key_pool(Proto::V1P).into_iter().find(|k| b64::hex(&k.pk) == pres.pk_hex) {
            Some(k) => k.secret_for_ref,
            None => return None,
        }
    } else {
        pres.pk_hex.clone()
    };
    let dir = crate::report::verif_dir();
    let tmp = dir.join("target").join("tmp");
    let _ = std::fs::create_dir_all(&tmp);
    let (fin, fout) = (tmp.join(format!("vt-{}-{}-in.json", std::process::id(), n)), tmp.join(format!("vt-{}-{}-out.json", std::process::id(), n)));
    let rec = serde_json::json!([{"proto": pres.proto.name(), "pk": pk, "token": pres.token,
        "footer": pres.footer.as_ref().map(|f| b64::hex(f.as_bytes())), "assertion": pres.assertion.as_ref().map(|a| b64::hex(a.as_bytes()))}]);
    if std::fs::write(&fin, rec.to_string()).is_err() {
        return None;
    }
    let st = std::process::Command::new("python3").arg(dir.join("spec/verify_tokens.py")).arg(&fin).arg(&fout).output();
    let out = std::fs::read_to_string(&fout).ok().and_then(|t| serde_json::from_str::<Value>(&t).ok());
    let _ = std::fs::remove_file(&fin);
    let _ = std::fs::remove_file(&fout);
    match (st, out) {
        (Ok(o), Some(v)) if o.status.success() => v[0]["valid"].as_bool(),
        _ => crate::report::machinery_error("spec/verify_tokens.py could not be run (the reference decides whether an altered signature is still valid)"),
    }
}

/// Authentic tokens minted by the reference over messages that are NOT UTF-8 (plus one UTF-8 control per
/// protocol and footer), `spec/foreign_tokens.py`. Each: {"proto", "token", "msg_hex", "footer", "valid_utf8"}.
pub fn foreign_tokens() -> Vec<Value> {
    static CACHE: std::sync::OnceLock<Vec<Value>> = std::sync::OnceLock::new();
    CACHE
        .get_or_init(|| {
            let dir = crate::report::verif_dir();
            let tmp = dir.join("target").join("tmp");
            let _ = std::fs::create_dir_all(&tmp);
            let out = tmp.join(format!("foreign-{}.json", std::process::id()));
            let st = std::process::Command::new("python3").arg(dir.join("spec/foreign_tokens.py")).arg(&out).output();
            let txt = std::fs::read_to_string(&out).unwrap_or_default();
            let _ = std::fs::remove_file(&out);
            match (st, serde_json::from_str::<Vec<Value>>(&txt)) {
                (Ok(o), Ok(v)) if o.status.success() && !v.is_empty() => v,
                _ => crate::report::machinery_error("spec/foreign_tokens.py produced nothing"),
            }
        })
        .clone()
}
