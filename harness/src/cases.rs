//! Decoded cases (what a replay file contains) and the acceptance predicate R2 shared by C03-C07.

use crate::adapter::{self, ClaimSpec, ErrClass, Layer, Opened, Out, Proto};
use crate::b64;
use crate::domains::KeyMat;
use serde::{Deserialize, Serialize};
use serde_json::Value;

#[derive(Clone, Debug, Serialize, Deserialize, PartialEq)]
pub struct IssueCase {
    pub proto: Proto,
    pub layer: Layer,
    pub key_label: String,
    pub sk_hex: String,
    pub pk_hex: String,
    /// None = real RNG (free-running pass) at the upper layers
    pub seed_hex: Option<String>,
    pub msg: String,
    pub footer: Option<String>,
    pub assertion: Option<String>,
}

impl IssueCase {
    pub fn new(proto: Proto, layer: Layer, key: &KeyMat, seed: Option<&[u8]>, msg: &str, footer: &Option<String>, assertion: &Option<String>) -> Self {
        IssueCase {
            proto,
            layer,
            key_label: key.label.clone(),
            sk_hex: b64::hex(&key.sk),
            pk_hex: b64::hex(&key.pk),
            seed_hex: seed.map(b64::hex),
            msg: msg.to_string(),
            footer: footer.clone(),
            assertion: if proto.has_assertion() { assertion.clone() } else { None },
        }
    }
    pub fn sk(&self) -> Vec<u8> {
        b64::unhex(&self.sk_hex).expect("sk hex")
    }
    pub fn pk(&self) -> Vec<u8> {
        b64::unhex(&self.pk_hex).expect("pk hex")
    }
    pub fn seed(&self) -> Option<Vec<u8>> {
        self.seed_hex.as_ref().map(|h| b64::unhex(h).expect("seed hex"))
    }
    /// compact form for evidence samples / replay files (large fields abbreviated)
    pub fn brief(&self) -> Value {
        let cut = |s: &str| if s.len() > 80 { format!("{}...<{} bytes>", s.chars().take(40).collect::<String>(), s.len()) } else { s.to_string() };
        serde_json::json!({
            "proto": self.proto.name(), "layer": self.layer.name(), "key": self.key_label, "seed": self.seed_hex,
            "msg": cut(&self.msg), "msg_len": self.msg.len(),
            "footer": self.footer.as_deref().map(cut), "assertion": self.assertion.as_deref().map(cut),
        })
    }
    pub fn issue(&self) -> Out<String> {
        adapter::issue(self.proto, self.layer, &self.sk(), self.seed().as_deref(), &self.msg, &[], self.footer.as_deref(), self.assertion.as_deref())
    }
    pub fn issue_with(&self, extra: &[ClaimSpec]) -> Out<String> {
        adapter::issue(self.proto, self.layer, &self.sk(), self.seed().as_deref(), &self.msg, extra, self.footer.as_deref(), self.assertion.as_deref())
    }
}

#[derive(Clone, Debug, Serialize, Deserialize, PartialEq)]
pub struct Presentation {
    pub proto: Proto,
    pub layer: Layer,
    pub pk_hex: String,
    pub token: String,
    pub footer: Option<String>,
    pub assertion: Option<String>,
}

impl Presentation {
    pub fn of(issue: &IssueCase, token: &str) -> Self {
        Presentation {
            proto: issue.proto,
            layer: issue.layer,
            pk_hex: issue.pk_hex.clone(),
            token: token.to_string(),
            footer: issue.footer.clone(),
            assertion: issue.assertion.clone(),
        }
    }
    pub fn present(&self) -> (Out<Opened>, usize) {
        let pk = b64::unhex(&self.pk_hex).expect("pk hex");
        adapter::present(self.proto, self.layer, &pk, &self.token, self.footer.as_deref(), self.assertion.as_deref())
    }
}

/// A plain `#[test]` (source text) that makes the same call with literals and no explorer. `expectation`
/// is a Rust expression over `r` (the call's result), e.g. `r.is_err()`.
pub fn unit_test_for(pres: &Presentation, expectation: &str, comment: &str) -> String {
    let p = pres.proto;
    let v = p.version();
    let purpose = if p.is_local() { "Local" } else { "Public" };
    let pk = b64::unhex(&pres.pk_hex).unwrap_or_default();
    let key_lines = match p {
        Proto::V1L | Proto::V2L | Proto::V3L | Proto::V4L => format!("    let key = PasetoSymmetricKey::<V{v}, Local>::from(Key::<32>::try_from(\"{}\").unwrap());\n", pres.pk_hex),
        Proto::V2P | Proto::V4P => format!("    let raw = Key::<32>::try_from(\"{}\").unwrap();\n    let key = PasetoAsymmetricPublicKey::<V{v}, Public>::from(&raw);\n", pres.pk_hex),
        Proto::V3P => format!("    let raw = Key::<49>::try_from(\"{}\").unwrap();\n    let key = PasetoAsymmetricPublicKey::<V3, Public>::try_from(&raw).unwrap();\n", pres.pk_hex),
        Proto::V1P => format!("    let der: &[u8] = &{:?};\n    let key = PasetoAsymmetricPublicKey::<V1, Public>::from(der);\n", pk),
    };
    let footer = pres.footer.as_ref().map(|f| format!("Footer::from({:?})", f));
    let assertion = if p.has_assertion() { pres.assertion.as_ref().map(|a| format!("ImplicitAssertion::from({:?})", a)) } else { None };
    let call = match pres.layer {
        Layer::Core => {
            let m = if p.is_local() { "try_decrypt" } else { "try_verify" };
            let f = footer.clone().map(|f| format!("Some({})", f)).unwrap_or_else(|| "None::<Footer>".into());
            if p.has_assertion() {
                let a = assertion.clone().map(|a| format!("Some({})", a)).unwrap_or_else(|| "None::<ImplicitAssertion>".into());
                format!("    let r = Paseto::<V{v}, {purpose}>::{m}(token, &key, {f}, {a});\n")
            } else {
                format!("    let r = Paseto::<V{v}, {purpose}>::{m}(token, &key, {f});\n")
            }
        }
        layer => {
            let ty = if layer == Layer::Generic { "GenericParser" } else { "PasetoParser" };
            let ctor = if layer == Layer::Generic { "default()" } else { "new()" };
            let mut c = format!("    let mut parser = {ty}::<V{v}, {purpose}>::{ctor};\n");
            if let Some(f) = &footer {
                c.push_str(&format!("    parser.set_footer({});\n", f));
            }
            if let Some(a) = &assertion {
                c.push_str(&format!("    parser.set_implicit_assertion({});\n", a));
            }
            c.push_str("    let r = parser.parse(token, &key);\n");
            c
        }
    };
    let module = match pres.layer {
        Layer::Core => "core",
        Layer::Generic => "generic",
        Layer::Prelude => "prelude",
    };
    format!(
        "#[test]\nfn replay() {{\n    // {comment}\n    use rusty_paseto::{module}::*;\n{key_lines}    let token = {:?};\n{call}    assert!({expectation}, \"{{:?}}\", r.map(|_| ()));\n}}\n",
        pres.token
    )
}

fn norm(o: &Option<String>) -> &str {
    o.as_deref().unwrap_or("")
}

#[derive(Clone, Copy, Debug, PartialEq, Eq)]
pub enum Auth {
    /// the issued text itself: must be accepted
    Exact,
    /// the issued text plus / minus one empty trailing segment: may be accepted
    TrailingDot,
    /// public token differing only inside the signature bytes: may be accepted
    SigOnly,
    No,
}

/// R2: is the presentation authentic for the issued token?
pub fn authentic(issue: &IssueCase, issued_token: &str, pres: &Presentation) -> Auth {
    if pres.proto != issue.proto || pres.pk_hex != issue.pk_hex {
        return Auth::No;
    }
    if norm(&pres.footer) != norm(&issue.footer) {
        return Auth::No;
    }
    if issue.proto.has_assertion() && norm(&pres.assertion) != norm(&issue.assertion) {
        return Auth::No;
    }
    if pres.token == issued_token {
        return Auth::Exact;
    }
    let segs_i: Vec<&str> = issued_token.split('.').collect();
    let segs_p: Vec<&str> = pres.token.split('.').collect();
    if segs_i.len() == 3 && segs_p.len() == 4 && segs_p[3].is_empty() && segs_p[..3] == segs_i[..] {
        return Auth::TrailingDot;
    }
    if segs_i.len() == 4 && segs_i[3].is_empty() && segs_p.len() == 3 && segs_i[..3] == segs_p[..] {
        return Auth::TrailingDot;
    }
    if !issue.proto.is_local() && segs_i.len() == segs_p.len() && segs_i.len() >= 3 && segs_i[0] == segs_p[0] && segs_i[1] == segs_p[1] && segs_i[3..] == segs_p[3..] {
        if let (Some(di), Some(dp)) = (b64::decode_strict(segs_i[2]), b64::decode_strict(segs_p[2])) {
            let tail = issue.proto.tail_len();
            if di.len() == dp.len() && di.len() >= tail && di[..di.len() - tail] == dp[..dp.len() - tail] {
                return Auth::SigOnly;
            }
        }
    }
    Auth::No
}

/// Did an accepted presentation return exactly the original content?
pub fn content_matches(issue: &IssueCase, opened: &Opened) -> bool {
    match opened {
        Opened::Msg(m) => *m == issue.msg,
        Opened::Json(v, _) if issue.layer == Layer::Core => {
            // a core-issued token whose message is JSON text, opened by a parser layer
            serde_json::from_str::<Value>(&issue.msg).map_or(false, |want| &want == v)
        }
        Opened::Json(v, _) => {
            let Some(obj) = v.as_object() else { return false };
            if obj.get("data") != Some(&Value::String(issue.msg.clone())) {
                return false;
            }
            if issue.layer == Layer::Prelude {
                // the batteries-included builder adds default claims (C13 says which); C01/C02 only ask for the message
                true
            } else {
                obj.keys().all(|k| k == "data")
            }
        }
    }
}

#[derive(Clone, Debug, PartialEq)]
pub enum Judgement {
    Pass,
    /// (kind, explanation)
    Fail(String, String),
}

/// R2 applied to one observation. `strict_errors` adds C03's clause: a rejection must be an
/// authentication / format error raised before plaintext is handled, and no validator may have run.
pub fn judge(issue: &IssueCase, issued_token: &str, pres: &Presentation, obs: &Out<Opened>, validator_calls: usize, strict_errors: bool) -> Judgement {
    let auth = authentic(issue, issued_token, pres);
    match obs {
        Out::Panic(loc) => Judgement::Fail("panic".into(), format!("presentation panicked at {}", loc)),
        Out::Ok(opened) => {
            if auth == Auth::No {
                return Judgement::Fail("accepted-unauthentic".into(), "a presentation that is not authentic for the issued token was accepted".into());
            }
            if !content_matches(issue, opened) {
                return Judgement::Fail("accepted-different-content".into(), format!("accepted but returned different content: {:?}", abbreviate(opened)));
            }
            Judgement::Pass
        }
        Out::Err(e) => {
            if auth == Auth::Exact {
                return Judgement::Fail("control-rejected".into(), format!("the authentic presentation itself was rejected: {:?}", e));
            }
            if auth == Auth::No && strict_errors {
                match e {
                    ErrClass::Other(_) => {}
                    other => {
                        return Judgement::Fail(
                            format!("late-error:{}", other.short()),
                            format!("rejected with {:?}: an error raised after plaintext was handled (UTF-8 / JSON / claim class)", other),
                        )
                    }
                }
                if validator_calls != 0 {
                    return Judgement::Fail("validator-ran".into(), "a claim validator ran on an unauthentic token".into());
                }
            }
            Judgement::Pass
        }
    }
}

fn abbreviate(o: &Opened) -> String {
    let s = match o {
        Opened::Msg(m) => m.clone(),
        Opened::Json(v, _) => v.to_string(),
    };
    if s.len() > 120 {
        format!("{}...", s.chars().take(120).collect::<String>())
    } else {
        s
    }
}
