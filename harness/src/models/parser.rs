//! Engine B model for C15 and C16: the configuration of a parser (expected claims and validators per
//! key) as a reference state machine. Every transition replays the configuration history on the *real*
//! parser and then parses a whole pool of tokens with it (authentic ones carrying every combination of
//! the modelled claims, and unauthentic ones); each outcome and the validator call log are compared with
//! the model's prediction.

use crate::adapter::{self, ClaimSpec, ErrClass, Form, Layer, Out, PEvent, POp, Proto, ValidatorCall, Verdict};
use crate::b64;
use crate::domains;
use serde::{Deserialize, Serialize};
use serde_json::{json, Value};
use stateright::{Model, Property};
use std::hash::{Hash, Hasher};
use std::sync::atomic::{AtomicU64, Ordering};

pub const KEYS: [&str; 3] = ["a", "exp", "b"];

pub fn val(k: usize, v: usize) -> Value {
    match (KEYS[k], v) {
        ("a", 1) => json!("v1 \u{00e9}"),
        ("a", _) => json!(7),
        ("b", 1) => json!(true),
        ("b", _) => json!([1, "x"]),
        (_, 1) => json!("2999-01-01T00:00:00Z"),
        (_, 2) => json!("2998-06-15T12:00:00+05:30"),
        // value #3 (exp only): an instant in the past
        (_, _) => json!("1999-12-31T23:59:59Z"),
    }
}

#[derive(Clone, Copy, Debug, PartialEq, Eq, Hash, PartialOrd, Ord, Serialize, Deserialize)]
pub enum Kind {
    Accept,
    Reject,
    /// accepts iff the value equals val(k, 1)
    ValueDep,
}

#[derive(Clone, Copy, Debug, PartialEq, Eq, Hash, PartialOrd, Ord, Serialize, Deserialize)]
pub enum Flavor {
    Generic,
    PreludeNew,
    /// PasetoParser::default(): exp (and nbf) start with the built-in time validators
    PreludeDefault,
}

#[derive(Clone, Debug, PartialEq, Eq, Hash, Serialize, Deserialize)]
pub enum Op {
    /// check_claim(KEYS[k] = val(k, v))
    Check(usize, usize),
    /// validate_claim(<claim with key KEYS[k]>, validator of this kind)
    Validate(usize, Kind),
    /// GenericParser::extend_validation_claims({KEYS[k]: validator}) - no claim registered alongside
    ExtendValidate(usize, Kind),
    /// GenericParser::extend_check_claims({KEYS[k]: val(k, v)})
    ExtendCheck(usize, usize),
}

/// what the reference model knows about one key
#[derive(Clone, Copy, Debug, PartialEq, Eq, Hash, PartialOrd, Ord, Serialize, Deserialize)]
pub struct KeyState {
    /// expected value (1 or 2) if the most recent registration for this key was an expectation
    pub expect: Option<usize>,
    /// registered validator (the last one registered wins); None = none
    pub validator: Option<Kind>,
    /// the built-in default validator is still in place (PasetoParser::default(), exp)
    pub builtin: bool,
}

pub fn step(ks: &mut [KeyState; 3], op: &Op) {
    match op {
        Op::Check(k, v) | Op::ExtendCheck(k, v) => ks[*k].expect = Some(*v),
        Op::Validate(k, kind) => {
            // validate_claim takes a placeholder claim: the validator replaces any earlier expectation
            ks[*k].expect = None;
            ks[*k].validator = Some(*kind);
            ks[*k].builtin = false;
        }
        Op::ExtendValidate(k, kind) => {
            ks[*k].validator = Some(*kind);
            ks[*k].builtin = false;
        }
    }
}

pub fn init_keys(flavor: Flavor) -> [KeyState; 3] {
    let none = KeyState { expect: None, validator: None, builtin: false };
    let mut ks = [none; 3];
    if flavor == Flavor::PreludeDefault {
        ks[1].builtin = true; // KEYS[1] == "exp"
    }
    ks
}

#[derive(Clone, Debug, Serialize, Deserialize)]
pub struct PoolToken {
    pub label: String,
    pub token: String,
    /// Some(payload) = authentic under (key 0, no footer, no assertion); None = must not authenticate
    pub payload: Option<Value>,
    /// index into the key list handed to the parser
    pub key: usize,
}

pub struct Pool {
    pub tokens: Vec<PoolToken>,
    pub keys: Vec<Vec<u8>>,
}

/// authentic tokens for every combination of {absent, v1, v2} per key, plus unauthentic ones
pub fn build_pool(proto: Proto, nkeys: usize) -> Pool {
    let pool = domains::key_pool(proto);
    let (k0, k1) = (&pool[0], &pool[1]);
    let seed = if proto.is_local() { domains::seeds(proto)[2].clone() } else { vec![] };
    let mut tokens = Vec::new();
    let combos = 3usize.pow(nkeys as u32);
    for c in 0..combos {
        let mut obj = serde_json::Map::new();
        let mut label = Vec::new();
        let mut x = c;
        for k in 0..nkeys {
            let v = x % 3;
            x /= 3;
            if v > 0 {
                obj.insert(KEYS[k].to_string(), val(k, v));
            }
            label.push(format!("{}={}", KEYS[k], if v == 0 { "absent".to_string() } else { format!("v{}", v) }));
        }
        obj.insert("data".into(), json!("x"));
        let payload = Value::Object(obj);
        if let Out::Ok(t) = adapter::core_issue(proto, &k0.sk, &seed, &payload.to_string(), None, None) {
            tokens.push(PoolToken { label: label.join(","), token: t, payload: Some(payload), key: 0 });
        }
    }
    // a null-valued claim (present but null counts as missing)
    let nullp = json!({"a": null, "data": "x"});
    if let Out::Ok(t) = adapter::core_issue(proto, &k0.sk, &seed, &nullp.to_string(), None, None) {
        tokens.push(PoolToken { label: "a=null".into(), token: t, payload: Some(nullp), key: 0 });
    }
    // authentic tokens whose payload is valid JSON but not an object: every claim is absent
    for (label, text) in [("payload=[]", "[]"), ("payload=\"text\"", "\"text\""), ("payload=42", "42"), ("payload=null", "null"), ("payload=[{a:v1}]", "[{\"a\":\"v1 \u{00e9}\"}]")] {
        if let Out::Ok(t) = adapter::core_issue(proto, &k0.sk, &seed, text, None, None) {
            tokens.push(PoolToken { label: label.into(), token: t, payload: Some(serde_json::from_str(text).unwrap()), key: 0 });
        }
    }
    // authentic tokens that only the built-in default validators object to: expired, not yet valid
    if nkeys >= 2 {
        let mut expired = serde_json::Map::new();
        let mut early = serde_json::Map::new();
        for k in 0..nkeys {
            if KEYS[k] == "exp" {
                expired.insert("exp".into(), val(k, 3));
                early.insert("exp".into(), val(k, 1));
            } else {
                expired.insert(KEYS[k].to_string(), val(k, 1));
                early.insert(KEYS[k].to_string(), val(k, 1));
            }
        }
        early.insert("nbf".into(), json!("2997-01-01T00:00:00Z"));
        for (label, p) in [("exp=past(v3),others=v1", Value::Object(expired)), ("nbf=future,others=v1", Value::Object(early))] {
            if let Out::Ok(t) = adapter::core_issue(proto, &k0.sk, &seed, &p.to_string(), None, None) {
                tokens.push(PoolToken { label: label.into(), token: t, payload: Some(p), key: 0 });
            }
        }
    }
    // unauthentic: all claims at v1 so that every expectation / validator *would* be satisfied
    let mut full = serde_json::Map::new();
    for k in 0..nkeys {
        full.insert(KEYS[k].to_string(), val(k, 1));
    }
    let fullp = Value::Object(full).to_string();
    if let Out::Ok(t) = adapter::core_issue(proto, &k0.sk, &seed, &fullp, None, None) {
        // one bit of the decoded payload flipped (inside the tag / signature: last byte)
        let segs: Vec<&str> = t.split('.').collect();
        if let Some(mut d) = b64::decode_strict(segs[2]) {
            let n = d.len();
            d[n - 1] ^= 1;
            tokens.push(PoolToken { label: "unauthentic:bit-flipped".into(), token: format!("{}.{}.{}", segs[0], segs[1], b64::encode(&d)), payload: None, key: 0 });
            let mut d2 = b64::decode_strict(segs[2]).unwrap();
            let mid = proto.nonce_len() + 2;
            d2[mid] ^= 0x20;
            tokens.push(PoolToken { label: "unauthentic:content-bit-flipped".into(), token: format!("{}.{}.{}", segs[0], segs[1], b64::encode(&d2)), payload: None, key: 0 });
        }
        tokens.push(PoolToken { label: "unauthentic:wrong-key".into(), token: t.clone(), payload: None, key: 1 });
        let other_header = Proto::ALL.iter().find(|q| q.is_local() == proto.is_local() && **q != proto).unwrap().header();
        tokens.push(PoolToken { label: "unauthentic:wrong-header".into(), token: format!("{}{}", other_header, &t[proto.header().len()..]), payload: None, key: 0 });
    }
    if let Out::Ok(t) = adapter::core_issue(proto, &k0.sk, &seed, &fullp, Some("other footer"), None) {
        tokens.push(PoolToken { label: "unauthentic:wrong-footer".into(), token: t, payload: None, key: 0 });
    }
    if proto.has_assertion() {
        if let Out::Ok(t) = adapter::core_issue(proto, &k0.sk, &seed, &fullp, None, Some("other assertion")) {
            tokens.push(PoolToken { label: "unauthentic:wrong-assertion".into(), token: t, payload: None, key: 0 });
        }
    }
    Pool { tokens, keys: vec![k0.pk.clone(), k1.pk.clone()] }
}

#[derive(Clone, Debug, PartialEq, Eq, Serialize, Deserialize)]
pub struct Verdicts {
    pub c15: Option<(String, String)>,
    pub c16: Option<(String, String)>,
    pub broken: Option<String>,
}
impl Verdicts {
    pub fn ok() -> Self {
        Verdicts { c15: None, c16: None, broken: None }
    }
}

pub static REPLAYS: AtomicU64 = AtomicU64::new(0);
pub static PARSES: AtomicU64 = AtomicU64::new(0);

/// one logging validator per (key, kind): its verdict never changes, so a parser can be re-configured
/// between parses of one replay
pub fn slot_of(k: usize, kind: Kind) -> usize {
    k * 3
        + match kind {
            Kind::Accept => 0,
            Kind::Reject => 1,
            Kind::ValueDep => 2,
        }
}
fn kind_of_slot(slot: usize) -> Kind {
    match slot % 3 {
        0 => Kind::Accept,
        1 => Kind::Reject,
        _ => Kind::ValueDep,
    }
}

fn kind_verdict(k: usize, kind: Kind) -> Verdict {
    match kind {
        Kind::Accept => Verdict::Accept,
        Kind::Reject => Verdict::Reject,
        Kind::ValueDep => Verdict::AcceptIfEq(val(k, 1)),
    }
}
fn kind_accepts(k: usize, kind: Kind, actual: &Value) -> bool {
    match kind {
        Kind::Accept => true,
        Kind::Reject => false,
        Kind::ValueDep => *actual == val(k, 1),
    }
}

/// Replays the configuration `path` on a fresh parser. After every configuration step but the last a few
/// probe tokens are parsed (so that anything the parser remembers from earlier parses or earlier
/// configurations shows), after the last step every pool token is parsed, then the first one again - all
/// with that one parser object.
pub fn replay_and_judge(proto: Proto, flavor: Flavor, nkeys: usize, path: &[Op], pool: &Pool) -> Verdicts {
    REPLAYS.fetch_add(1, Ordering::Relaxed);
    adapter::freeze_default_clock();
    adapter::reset_verdicts();
    for k in 0..3 {
        for kind in [Kind::Accept, Kind::Reject, Kind::ValueDep] {
            adapter::set_verdict(slot_of(k, kind), kind_verdict(k, kind));
        }
    }
    // probe tokens: nothing set, everything at v1, everything at v2
    let all = |v: usize| -> String { (0..nkeys).map(|k| format!("{}={}", KEYS[k], if v == 0 { "absent".to_string() } else { format!("v{}", v) })).collect::<Vec<_>>().join(",") };
    let probes: Vec<usize> = [0usize, 1, 2].iter().filter_map(|v| pool.tokens.iter().position(|t| t.label == all(*v))).collect();
    let mut ks = init_keys(flavor);
    let mut ops: Vec<POp> = Vec::new();
    // for every op: None = configuration call, Some((token index, model state at that moment, is the final sweep))
    let mut plan: Vec<Option<(usize, [KeyState; 3], bool)>> = Vec::new();
    for (i, op) in path.iter().enumerate() {
        step(&mut ks, op);
        ops.push(match op {
            Op::Check(k, v) => POp::Check(ClaimSpec { key: KEYS[*k].into(), value: val(*k, *v), form: if KEYS[*k] == "exp" { Form::Auto } else { Form::TupleString } }),
            Op::Validate(k, kind) => POp::Validate(KEYS[*k].into(), slot_of(*k, *kind)),
            Op::ExtendValidate(k, kind) => POp::ExtendValidate(vec![(KEYS[*k].into(), slot_of(*k, *kind))]),
            Op::ExtendCheck(k, v) => POp::ExtendCheck(vec![ClaimSpec { key: KEYS[*k].into(), value: val(*k, *v), form: Form::TupleString }]),
        });
        plan.push(None);
        if i + 1 < path.len() {
            for ti in &probes {
                ops.push(POp::Parse(*ti, pool.tokens[*ti].key));
                plan.push(Some((*ti, ks, false)));
            }
        }
    }
    for i in 0..pool.tokens.len() {
        ops.push(POp::Parse(i, pool.tokens[i].key));
        plan.push(Some((i, ks, true)));
    }
    ops.push(POp::Parse(0, pool.tokens[0].key)); // the first token again, after all the others
    plan.push(Some((0, ks, true)));
    let toks: Vec<String> = pool.tokens.iter().map(|t| t.token.clone()).collect();
    let (layer, default) = match flavor {
        Flavor::Generic => (Layer::Generic, false),
        Flavor::PreludeNew => (Layer::Prelude, false),
        Flavor::PreludeDefault => (Layer::Prelude, true),
    };
    let events = adapter::parse_history(proto, layer, default, &pool.keys, &toks, &ops);
    let mut v = Verdicts::ok();
    if events.len() != ops.len() {
        v.broken = Some("parser produced fewer events than operations".into());
        return v;
    }
    let mut first_outcome: Option<(bool, Option<ErrClass>)> = None;
    let mut sweep_seen = 0usize;
    for (e, pl) in events.iter().zip(plan.iter()) {
        match pl {
            None => {
                if *e != PEvent::Applied {
                    v.broken = Some(format!("a configuration call produced {:?}", e));
                    return v;
                }
            }
            Some((ti, ks_then, final_sweep)) => {
                let PEvent::Parsed(out, calls) = e else {
                    v.broken = Some(format!("parse produced {:?}", e));
                    return v;
                };
                PARSES.fetch_add(1, Ordering::Relaxed);
                judge_parse(ks_then, nkeys, flavor == Flavor::PreludeDefault, &pool.tokens[*ti], out, calls, &mut v);
                if *final_sweep {
                    // history independence: the first token parsed again after all the others gives the same outcome
                    let summary = (out.is_ok(), out.err().cloned());
                    if sweep_seen == 0 {
                        first_outcome = Some(summary);
                    } else if sweep_seen == pool.tokens.len() && first_outcome.as_ref() != Some(&summary) && v.c15.is_none() {
                        v.c15 = Some(("outcome-depends-on-history".into(), format!("token [{}] gave {:?} first and {:?} after {} other parses with the same parser", pool.tokens[0].label, first_outcome, summary, pool.tokens.len() - 1)));
                    }
                    sweep_seen += 1;
                }
            }
        }
    }
    v
}

fn judge_parse(ks: &[KeyState; 3], nkeys: usize, default_flavor: bool, t: &PoolToken, out: &Out<Value>, calls: &[ValidatorCall], v: &mut Verdicts) {
    let c15 = |v: &mut Verdicts, k: &str, w: String| {
        if v.c15.is_none() {
            v.c15 = Some((k.to_string(), format!("token [{}]: {}", t.label, w)));
        }
    };
    let c16 = |v: &mut Verdicts, k: &str, w: String| {
        if v.c16.is_none() {
            v.c16 = Some((k.to_string(), format!("token [{}]: {}", t.label, w)));
        }
    };
    if let Out::Panic(l) = out {
        c15(v, "panic", format!("parse panicked at {}", l));
        c16(v, "panic", format!("parse panicked at {}", l));
        return;
    }
    let Some(payload) = &t.payload else {
        // unauthentic: no validator may have run, and it must be an error outside the claim class
        if !calls.is_empty() {
            c16(v, "validator-ran-on-unauthentic-token", format!("validator calls {:?} on a token that does not authenticate", calls));
        }
        match out {
            Out::Ok(_) => {
                c15(v, "unauthentic-accepted", "a token that does not authenticate was accepted".into());
                c16(v, "unauthentic-accepted", "a token that does not authenticate was accepted".into());
            }
            Out::Err(e) if e.is_claim() => c16(v, "claim-error-on-unauthentic-token", format!("a token that does not authenticate produced the claim error {:?}", e)),
            _ => {}
        }
        return;
    };
    // ---- what the model expects
    let mut unmet: Vec<(usize, bool)> = Vec::new(); // (key, missing?)
    let mut rejecting: Vec<usize> = Vec::new();
    let mut registered: Vec<usize> = Vec::new();
    let mut builtin_rejects = false;
    for k in 0..nkeys {
        let actual = payload.get(KEYS[k]).cloned().unwrap_or(Value::Null);
        if let Some(ev) = ks[k].expect {
            if actual.is_null() {
                unmet.push((k, true));
            } else if actual != val(k, ev) {
                unmet.push((k, false));
            }
        }
        if let Some(kind) = ks[k].validator {
            registered.push(k);
            if !kind_accepts(k, kind, &actual) {
                rejecting.push(k);
            }
        }
        if ks[k].builtin && !actual.is_null() {
            // the built-in exp validator: not a string, or not in the future -> rejects (frozen clock: 2026)
            match actual.as_str().and_then(crate::rfc3339::parse) {
                Some((_, t)) if t > adapter::default_t0().unix_timestamp_nanos() => {}
                _ => builtin_rejects = true,
            }
        }
    }
    // the built-in nbf validator of PasetoParser::default() is never replaced by this model's actions
    if default_flavor {
        if let Some(n) = payload.get("nbf") {
            match n.as_str().and_then(crate::rfc3339::parse) {
                Some((_, t)) if t < adapter::default_t0().unix_timestamp_nanos() => {}
                _ if n.is_null() => {}
                _ => builtin_rejects = true,
            }
        }
    }
    // ---- C16: the call log
    for c in calls {
        let ck = c.slot / 3;
        let ok_slot = ck < 3 && registered.contains(&ck) && c.key == KEYS[ck] && ks[ck].validator == Some(kind_of_slot(c.slot));
        if !ok_slot {
            c16(v, "unexpected-validator-call", format!("validator call {:?} does not belong to a registered validator (registered for {:?})", c, registered.iter().map(|k| KEYS[*k]).collect::<Vec<_>>()));
            continue;
        }
        let actual = payload.get(KEYS[ck]).cloned().unwrap_or(Value::Null);
        if c.value != actual {
            c16(v, "validator-saw-wrong-value", format!("validator for {:?} was given {} but the payload carries {}", c.key, c.value, actual));
        }
    }
    for k in &registered {
        // (the statement fixes "exactly once" for successful parses only)
        if out.is_ok() && calls.iter().filter(|c| c.slot / 3 == *k).count() > 1 {
            c16(v, "validator-ran-twice", format!("validator for {:?} ran more than once in one parse", KEYS[*k]));
        }
    }
    match out {
        Out::Ok(json) => {
            if !unmet.is_empty() {
                c15(v, "accepted-despite-unmet-expectation", format!("accepted although expected claim(s) {:?} are {} in the payload {}", unmet.iter().map(|(k, _)| KEYS[*k]).collect::<Vec<_>>(), if unmet[0].1 { "missing" } else { "different" }, payload));
            }
            if builtin_rejects {
                c16(v, "accepted-despite-default-validator", format!("accepted although the built-in default exp / nbf validator must reject the payload {}", payload));
                c15(v, "accepted-despite-default-validator", format!("accepted although the built-in default exp / nbf validator must reject the payload {}", payload));
            }
            if !rejecting.is_empty() {
                c16(v, "accepted-despite-rejecting-validator", format!("accepted although the validator for {:?} rejects the value", rejecting.iter().map(|k| KEYS[*k]).collect::<Vec<_>>()));
            }
            for k in &registered {
                if calls.iter().filter(|c| c.slot / 3 == *k).count() != 1 {
                    c16(v, "accepted-without-running-validator", format!("parse succeeded but the validator registered for {:?} ran {} times", KEYS[*k], calls.iter().filter(|c| c.slot / 3 == *k).count()));
                }
            }
            if json != payload {
                c15(v, "returned-different-payload", format!("returned {} for payload {}", json, payload));
            }
        }
        Out::Err(e) => {
            if unmet.is_empty() && rejecting.is_empty() && !builtin_rejects {
                let w = format!("rejected with {:?} although every expected claim is present and equal and every validator accepts (payload {})", e, payload);
                c15(v, "rejected-although-all-met", w.clone());
                if !registered.is_empty() {
                    c16(v, "rejected-although-all-accept", w);
                }
            } else if !e.is_claim() {
                if builtin_rejects && rejecting.is_empty() && unmet.is_empty() {
                    c16(v, "non-claim-error-for-default-validator", format!("the built-in default validator rejects but the error is {:?}, not a claim error", e));
                }
                if !rejecting.is_empty() && unmet.is_empty() {
                    c16(v, "non-claim-error-for-rejecting-validator", format!("a validator rejects but the error is {:?}, not a claim error", e));
                }
                if !unmet.is_empty() && rejecting.is_empty() {
                    c15(v, "non-claim-error-for-unmet-expectation", format!("an expectation is unmet but the error is {:?}, not a claim error", e));
                }
            } else if unmet.len() == 1 && rejecting.is_empty() && !builtin_rejects && unmet[0].1 {
                // exactly one offender and it is missing / null: the missing-claim error
                if !matches!(e, ErrClass::Claim(kind, arg) if kind == "Missing" && arg == KEYS[unmet[0].0]) {
                    c15(v, "missing-claim-not-reported-as-missing", format!("claim {:?} is missing but the error is {:?}", KEYS[unmet[0].0], e));
                }
            }
        }
        Out::Panic(_) => {}
    }
}

// ------------------------------------------------------------------------------------------------ stateright

#[derive(Clone, Debug)]
pub struct St {
    pub ks: [KeyState; 3],
    pub path: Vec<Op>,
    pub verdict: Verdicts,
}
impl Hash for St {
    fn hash<H: Hasher>(&self, h: &mut H) {
        self.ks.hash(h);
        (self.verdict.c15.is_none(), self.verdict.c16.is_none(), self.verdict.broken.is_none()).hash(h);
    }
}
impl PartialEq for St {
    fn eq(&self, o: &Self) -> bool {
        self.ks == o.ks && (self.verdict.c15.is_none(), self.verdict.c16.is_none(), self.verdict.broken.is_none()) == (o.verdict.c15.is_none(), o.verdict.c16.is_none(), o.verdict.broken.is_none())
    }
}

pub struct ParserModel {
    pub proto: Proto,
    pub flavor: Flavor,
    pub nkeys: usize,
    pub pool: std::sync::Arc<Pool>,
}

impl ParserModel {
    pub fn alphabet(&self) -> Vec<Op> {
        let mut a = Vec::new();
        for k in 0..self.nkeys {
            a.push(Op::Check(k, 1));
            a.push(Op::Check(k, 2));
            if KEYS[k] == "exp" {
                a.push(Op::Check(k, 3)); // the exact (past) exp the application issued
            }
            for kind in [Kind::Accept, Kind::Reject, Kind::ValueDep] {
                a.push(Op::Validate(k, kind));
            }
            if self.flavor == Flavor::Generic {
                for kind in [Kind::Accept, Kind::Reject, Kind::ValueDep] {
                    a.push(Op::ExtendValidate(k, kind));
                }
                if KEYS[k] != "exp" {
                    a.push(Op::ExtendCheck(k, 1));
                    a.push(Op::ExtendCheck(k, 2));
                }
            }
        }
        a
    }
}

impl Model for ParserModel {
    type State = St;
    type Action = Op;
    fn init_states(&self) -> Vec<St> {
        let path = vec![];
        let verdict = replay_and_judge(self.proto, self.flavor, self.nkeys, &path, &self.pool);
        vec![St { ks: init_keys(self.flavor), path, verdict }]
    }
    fn actions(&self, _s: &St, a: &mut Vec<Op>) {
        a.extend(self.alphabet());
    }
    fn next_state(&self, s: &St, a: Op) -> Option<St> {
        if s.verdict != Verdicts::ok() {
            return None;
        }
        let mut ks = s.ks;
        step(&mut ks, &a);
        let mut path = s.path.clone();
        path.push(a);
        let verdict = replay_and_judge(self.proto, self.flavor, self.nkeys, &path, &self.pool);
        Some(St { ks, path, verdict })
    }
    fn properties(&self) -> Vec<Property<Self>> {
        vec![
            Property::always("C15-conforms", |_, s: &St| s.verdict.c15.is_none()),
            Property::always("C16-conforms", |_, s: &St| s.verdict.c16.is_none()),
            Property::always("replayable", |_, s: &St| s.verdict.broken.is_none()),
        ]
    }
}
