//! Engine B: explicit-state search with stateright 0.31. The models only drive the search; every
//! transition replays the call history on the real object (see each model's `replay_and_judge`).
pub mod gbuilder;
pub mod parser;
pub mod pbuilder;

use stateright::{Checker, Model};
use std::hash::Hash;

pub struct BfsOutcome<M: Model> {
    pub unique_states: usize,
    pub generated_states: usize,
    pub max_depth: usize,
    pub discoveries: Vec<(&'static str, Vec<M::Action>, M::State)>,
}

/// Breadth-first search to closure (or to `max_depth`), 16 threads.
pub fn bfs<M>(model: M, max_depth: Option<usize>) -> BfsOutcome<M>
where
    M: Model + Send + Sync + 'static,
    M::State: Hash + Clone + PartialEq + Send + Sync + std::fmt::Debug + 'static,
    M::Action: Clone + PartialEq + Send + Sync + std::fmt::Debug + 'static,
{
    let jobs = std::env::var("VERIF_JOBS").ok().and_then(|s| s.parse().ok()).unwrap_or(16usize).max(1);
    let mut b = model.checker().threads(jobs);
    if let Some(d) = max_depth {
        b = b.target_max_depth(d);
    }
    let c = b.spawn_bfs().join();
    let mut discoveries = Vec::new();
    for (name, path) in c.discoveries() {
        let last = path.last_state().clone();
        discoveries.push((name, path.into_actions(), last));
    }
    discoveries.sort_by_key(|(n, a, _)| (a.len(), *n));
    BfsOutcome { unique_states: c.unique_state_count(), generated_states: c.state_count(), max_depth: c.max_depth(), discoveries }
}
