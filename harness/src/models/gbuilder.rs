//! Engine B model for C14: `GenericBuilder` as a map from claim key to JSON value. Every transition
//! replays the call history on the real builder, builds, parses with a validator-free `GenericParser`
//! and requires the returned object to equal the model map.

use crate::adapter::{self, BEvent, BOp, ClaimSpec, Form, Layer, Out, PEvent, POp, Proto};
use crate::domains;
use serde::{Deserialize, Serialize};
use serde_json::{json, Value};
use stateright::{Model, Property};
use std::collections::BTreeMap;
use std::hash::{Hash, Hasher};
use std::sync::atomic::{AtomicU64, Ordering};

pub const CUSTOM_KEYS: [&str; 8] = ["a", "q\"\\\n", "\u{1d11e}clef", "\u{043a}\u{043b}\u{044e}\u{0447}", "a b", " ", "\u{00a0}\t", "https://example.com/claims/a-namespaced-claim-name-longer-than-sixty-four-bytes/roles"];
pub const TYPED_KEYS: [&str; 7] = ["aud", "sub", "iss", "jti", "exp", "nbf", "iat"];

/// the value alphabet: (how it is handed to the constructor, the JSON it must come back as)
pub fn value_alphabet() -> Vec<(Value, Form)> {
    let deep = json!({"l1": {"l2": {"l3": {"l4": {"l5": [1, "x", null, true, 2.5]}}}}, "s": "\u{00fc}"});
    vec![
        (json!("gr\u{00fc}\u{00df} \u{1d11e} \u{4e2d}\u{6587} \"quoted\" \\ \n\t\u{0000}"), Form::TupleStr),
        (json!(""), Form::TupleStr),
        (json!(0), Form::TupleStr),
        (json!(-1), Form::TupleStr),
        (json!(true), Form::TupleStr),
        (Value::Null, Form::TupleStr),
        (json!(u64::MAX), Form::TupleStr),
        (json!(1.5), Form::TupleStr),
        (json!([]), Form::TupleStr),
        (json!([1, "x", [null]]), Form::TupleStr),
        (deep, Form::TupleStr),
        (Value::Null, Form::Native(6)), // a #[derive(Serialize)] struct
        (Value::Null, Form::Native(0)), // u64::MAX as a native integer
        (Value::Null, Form::Native(4)), // Option::None
        (Value::Null, Form::Native(9)), // BTreeMap<&str, Vec<i32>>
        (Value::Null, Form::Native(10)), // 0.1f32 (must come back as the JSON number 0.1)
        // an object whose single member is named like the claim it is the value of ("$KEY" is replaced by
        // the claim key when the claim is constructed): the builder wraps claims as {key: value} internally
        (json!({"$KEY": "inner"}), Form::TupleStr),
        (json!({"$KEY": {"$KEY": [1]}}), Form::TupleStr),
        // an application-defined claim type serialising as {"exp": <value>} under another key
        (json!("2999-01-01T00:00:00Z"), Form::ForeignOneField),
        // empty containers, alone and nested
        (json!({}), Form::TupleStr),
        (json!([{}, [], {"e": {}, "l": [], "n": null}]), Form::TupleStr),
        (Value::Null, Form::Native(12)), // reads mutable state when serialised; the state changes right after set_claim
        (Value::Null, Form::Native(13)), // builds and parses an inner token while it is being serialised
        // members named "" below the top level (the builder's empty-key rule is about claim keys only)
        (json!({"": 1, "a": {"": [], "b": [{"": null}, {"": {"": "deep"}}]}}), Form::TupleStr),
    ]
}

/// the concrete value for claim `key`: "$KEY" members are renamed to the key
pub fn concrete(v: &Value, key: &str) -> Value {
    match v {
        Value::Object(o) => Value::Object(o.iter().map(|(k, x)| (if k == "$KEY" { key.to_string() } else { k.clone() }, concrete(x, key))).collect()),
        Value::Array(a) => Value::Array(a.iter().map(|x| concrete(x, key)).collect()),
        other => other.clone(),
    }
}

pub fn typed_value(key: &str, v: u8) -> String {
    match key {
        "exp" | "nbf" | "iat" => format!("20{}9-12-31T23:59:59.5+0{}:30", 2 + v, v),
        _ => format!("{}-value-{} \u{00e9}", key, v),
    }
}

#[derive(Clone, Debug, PartialEq, Eq, Hash, Serialize, Deserialize)]
pub enum Op {
    /// set_claim(CustomClaim::try_from((CUSTOM_KEYS[k], value #v))) through the &str-tuple form
    Set(usize, usize),
    /// the same through the (String, T) form
    SetOwned(usize, usize),
    /// CustomClaim::try_from(CUSTOM_KEYS[k])  (value "")
    SetKeyOnly(usize),
    Remove(usize),
    /// typed registered claim TYPED_KEYS[k] with value #v
    SetTyped(usize, u8),
    RemoveTyped(usize),
}

pub static REPLAYS: AtomicU64 = AtomicU64::new(0);

pub fn expected_map(path: &[Op], values: &[(Value, Form)]) -> BTreeMap<String, Value> {
    let mut m = BTreeMap::new();
    for op in path {
        match op {
            Op::Set(k, v) | Op::SetOwned(k, v) => {
                let spec = ClaimSpec { key: CUSTOM_KEYS[*k].into(), value: concrete(&values[*v].0, CUSTOM_KEYS[*k]), form: values[*v].1 };
                m.insert(CUSTOM_KEYS[*k].to_string(), spec.expected_json());
            }
            Op::SetKeyOnly(k) => {
                m.insert(CUSTOM_KEYS[*k].to_string(), json!(""));
            }
            Op::Remove(k) => {
                m.remove(CUSTOM_KEYS[*k]);
            }
            Op::SetTyped(k, v) => {
                m.insert(TYPED_KEYS[*k].to_string(), json!(typed_value(TYPED_KEYS[*k], *v)));
            }
            Op::RemoveTyped(k) => {
                m.remove(TYPED_KEYS[*k]);
            }
        }
    }
    m
}

/// None = conforms; Some((kind, explanation))
pub fn replay_and_judge(proto: Proto, path: &[Op], values: &[(Value, Form)]) -> Option<(String, String)> {
    REPLAYS.fetch_add(1, Ordering::Relaxed);
    adapter::freeze_default_clock();
    let key = domains::key_pool(proto)[0].clone();
    let mut ops: Vec<BOp> = Vec::new();
    for op in path {
        ops.push(match op {
            Op::Set(k, v) => BOp::Claim(ClaimSpec { key: CUSTOM_KEYS[*k].into(), value: concrete(&values[*v].0, CUSTOM_KEYS[*k]), form: values[*v].1 }),
            Op::SetOwned(k, v) => {
                let f = match values[*v].1 {
                    Form::TupleStr => Form::TupleString,
                    other => other,
                };
                BOp::Claim(ClaimSpec { key: CUSTOM_KEYS[*k].into(), value: concrete(&values[*v].0, CUSTOM_KEYS[*k]), form: f })
            }
            Op::SetKeyOnly(k) => BOp::Claim(ClaimSpec { key: CUSTOM_KEYS[*k].into(), value: json!(""), form: Form::KeyOnly }),
            Op::Remove(k) => BOp::Remove(CUSTOM_KEYS[*k].into()),
            Op::SetTyped(k, v) => BOp::Claim(ClaimSpec::auto(TYPED_KEYS[*k], json!(typed_value(TYPED_KEYS[*k], *v)))),
            Op::RemoveTyped(k) => BOp::Remove(TYPED_KEYS[*k].into()),
        });
    }
    // a build after every call (anything the builder remembers from an earlier build must not leak into a
    // later one); the token of the last build is the one parsed and compared
    let mut with_builds: Vec<BOp> = Vec::with_capacity(ops.len() * 2 + 1);
    for op in ops.drain(..) {
        with_builds.push(op);
        with_builds.push(BOp::Build);
    }
    if with_builds.is_empty() {
        with_builds.push(BOp::Build);
    }
    let ops = with_builds;
    let script: Vec<Vec<u8>> = (0..ops.len()).map(|i| vec![(i as u8).wrapping_add(9); 32]).collect();
    let (events, _) = adapter::with_rng_script(script, || adapter::build_history(proto, Layer::Generic, &key.sk, &ops));
    for (op, ev) in ops.iter().zip(events.iter()) {
        match ev {
            BEvent::Applied | BEvent::Built(_) => {}
            other => return Some(("call-refused".into(), format!("{:?} produced {:?}", op, other))),
        }
    }
    let token = match events.last() {
        Some(BEvent::Built(Out::Ok(t))) => t.clone(),
        Some(BEvent::Built(other)) => return Some((format!("build-failed:{}", other.short()), format!("building failed: {}", other.short()))),
        _ => return Some(("no-build".into(), "no build event".into())),
    };
    let pe = adapter::parse_history(proto, Layer::Generic, false, &[key.pk.clone()], &[token], &[POp::Parse(0, 0)]);
    let got = match pe.last() {
        Some(PEvent::Parsed(Out::Ok(v), _)) => v.clone(),
        Some(PEvent::Parsed(other, _)) => return Some((format!("parse-failed:{}", other.short()), format!("the built token does not parse: {}", other.short()))),
        _ => return Some(("no-parse".into(), "no parse event".into())),
    };
    let want = Value::Object(expected_map(path, values).into_iter().collect());
    if got == want {
        return None;
    }
    // classify the difference
    let (go, wo) = (got.as_object(), want.as_object().unwrap());
    let Some(go) = go else { return Some(("payload-not-object".into(), format!("parsed payload is {}", got))) };
    for k in wo.keys() {
        if !go.contains_key(k) {
            return Some(("claim-missing".into(), format!("claim {:?} was set but is absent from the parsed payload {}", k, got)));
        }
    }
    for k in go.keys() {
        if !wo.contains_key(k) {
            return Some(("unexpected-member".into(), format!("parsed payload has member {:?} that was never set or was removed: {}", k, got)));
        }
    }
    for (k, w) in wo {
        if &go[k] != w {
            return Some(("value-differs".into(), format!("claim {:?}: parsed {} but the last value set was {}", k, go[k], w)));
        }
    }
    Some(("differs".into(), format!("parsed {} expected {}", got, want)))
}

#[derive(Clone, Debug)]
pub struct St {
    /// key index (custom: 0..5, typed: 100+k) -> value index
    pub map: BTreeMap<usize, usize>,
    pub path: Vec<Op>,
    pub verdict: Option<(String, String)>,
}
impl Hash for St {
    fn hash<H: Hasher>(&self, h: &mut H) {
        self.map.hash(h);
        self.verdict.is_none().hash(h);
    }
}
impl PartialEq for St {
    fn eq(&self, o: &Self) -> bool {
        self.map == o.map && self.verdict.is_none() == o.verdict.is_none()
    }
}

pub struct GenericBuilderModel {
    pub proto: Proto,
    pub values: Vec<(Value, Form)>,
    pub ncustom: usize,
    pub typed: bool,
}

impl GenericBuilderModel {
    pub fn alphabet(&self) -> Vec<Op> {
        let mut a = Vec::new();
        for k in 0..self.ncustom {
            for v in 0..self.values.len() {
                a.push(Op::Set(k, v));
                a.push(Op::SetOwned(k, v));
            }
            a.push(Op::SetKeyOnly(k));
            a.push(Op::Remove(k));
        }
        if self.typed {
            for k in 0..TYPED_KEYS.len() {
                a.push(Op::SetTyped(k, 0));
                a.push(Op::SetTyped(k, 1));
                a.push(Op::RemoveTyped(k));
            }
        }
        a
    }
    fn step(&self, map: &mut BTreeMap<usize, usize>, op: &Op) {
        // the value index of the empty string, so that the key-only form merges with Set(k, "")
        let empty_idx = self.values.iter().position(|(v, f)| *v == json!("") && *f == Form::TupleStr).unwrap_or(usize::MAX - 1);
        match op {
            Op::Set(k, v) | Op::SetOwned(k, v) => {
                map.insert(*k, *v);
            }
            Op::SetKeyOnly(k) => {
                map.insert(*k, empty_idx);
            }
            Op::Remove(k) => {
                map.remove(k);
            }
            Op::SetTyped(k, v) => {
                map.insert(100 + *k, *v as usize);
            }
            Op::RemoveTyped(k) => {
                map.remove(&(100 + *k));
            }
        }
    }
}

impl Model for GenericBuilderModel {
    type State = St;
    type Action = Op;
    fn init_states(&self) -> Vec<St> {
        vec![St { map: BTreeMap::new(), path: vec![], verdict: None }]
    }
    fn actions(&self, _s: &St, a: &mut Vec<Op>) {
        a.extend(self.alphabet());
    }
    fn next_state(&self, s: &St, a: Op) -> Option<St> {
        if s.verdict.is_some() {
            return None;
        }
        let mut map = s.map.clone();
        self.step(&mut map, &a);
        let mut path = s.path.clone();
        path.push(a);
        let verdict = replay_and_judge(self.proto, &path, &self.values);
        Some(St { map, path, verdict })
    }
    fn properties(&self) -> Vec<Property<Self>> {
        vec![Property::always("C14-conforms", |_, s: &St| s.verdict.is_none())]
    }
}
