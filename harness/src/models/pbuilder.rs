//! Engine B model for C13 and C17: a reference state machine (R3) of `PasetoBuilder`, explored with
//! stateright BFS. Every transition replays the call history on the *real* builder (frozen clock H2,
//! scripted RNG H1) and compares every build in it with the model's prediction; the verdict is stored in
//! the successor state and two `always` properties require it to be "conforms".

use crate::adapter::{self, BEvent, BOp, ClaimSpec, ErrClass, Layer, Out, Proto};
use crate::domains;
use crate::rfc3339;
use serde::{Deserialize, Serialize};
use serde_json::{json, Value};
use stateright::{Model, Property};
use std::hash::{Hash, Hasher};
use std::sync::atomic::{AtomicU64, Ordering};

pub const KEYS: [&str; 10] = ["exp", "nbf", "iat", "iss", "a", "sub", "aud", "jti", "A", ""]; // custom keys `a` and `A` differ in case only; "" is a legal custom key

#[derive(Clone, Debug, PartialEq, Eq, Hash, Serialize, Deserialize)]
pub enum Op {
    /// set_claim(KEYS[k], value #v)
    Set(usize, u8),
    Ack,
    /// set_footer (and set_implicit_assertion for v3/v4)
    Footer,
    Build,
}

/// value #v of key k: time claims get far-future / far-past RFC 3339 strings, others plain strings
pub fn val(k: usize, v: u8) -> String {
    match KEYS[k] {
        "exp" => format!("20{}0-01-01T00:00:00Z", 5 + v),
        "nbf" | "iat" => format!("201{}-01-01T00:00:00+00:00", v),
        _ => format!("val{}", v),
    }
}

#[derive(Clone, Debug, PartialEq, Eq, Hash, PartialOrd, Ord, Serialize, Deserialize)]
pub struct M {
    /// how often each key was supplied (0, 1, 2+)
    pub cnt: [u8; 10],
    /// which value came last
    pub last: [u8; 10],
    pub ack: bool,
    /// exp was first supplied after the acknowledgement (the stated latitude of C17)
    pub exp_after_ack: bool,
    pub footer: bool,
    /// builds so far (0, 1, 2+)
    pub builds: u8,
}

impl M {
    pub fn init() -> M {
        M { cnt: [0; 10], last: [0; 10], ack: false, exp_after_ack: false, footer: false, builds: 0 }
    }
    pub fn step(&mut self, op: &Op) {
        match op {
            Op::Set(k, v) => {
                if *k == 0 && self.ack && self.cnt[0] == 0 {
                    self.exp_after_ack = true;
                }
                self.cnt[*k] = (self.cnt[*k] + 1).min(2);
                self.last[*k] = *v;
            }
            Op::Ack => self.ack = true,
            Op::Footer => self.footer = true,
            Op::Build => self.builds = (self.builds + 1).min(2),
        }
    }
    pub fn dups(&self) -> Vec<&'static str> {
        (0..10).filter(|k| self.cnt[*k] >= 2).map(|k| KEYS[k]).collect()
    }
}

#[derive(Clone, Debug, PartialEq, Eq, Serialize, Deserialize)]
pub struct Verdicts {
    /// first C13 disagreement on this history: (kind, explanation)
    pub c13: Option<(String, String)>,
    pub c17: Option<(String, String)>,
    /// the real builder could not be driven (machinery)
    pub broken: Option<String>,
}
impl Verdicts {
    pub fn ok() -> Self {
        Verdicts { c13: None, c17: None, broken: None }
    }
}

const FOOTER: &str = "{\"kid\":\"model\"}";
const ASSERTION: &str = "{\"bound\":\"model\"}";

pub static REPLAYS: AtomicU64 = AtomicU64::new(0);

fn instant(s: &str) -> Option<i128> {
    rfc3339::parse(s).map(|(_, t)| t)
}

/// Replays `path` on a fresh real `PasetoBuilder::<V,P>::default()` created at frozen instant `t0_ns`,
/// and checks every build against the reference model.
pub fn replay_and_judge(proto: Proto, t0_ns: i128, path: &[Op]) -> Verdicts {
    REPLAYS.fetch_add(1, Ordering::Relaxed);
    adapter::set_clock(Some(time::OffsetDateTime::from_unix_timestamp_nanos(t0_ns).expect("t0")));
    let key = domains::key_pool(proto)[0].clone();
    let mut ops: Vec<BOp> = Vec::with_capacity(path.len() + 2);
    let mut op_index: Vec<usize> = Vec::new(); // index of the BOp that corresponds to path[i]
    for op in path {
        op_index.push(ops.len());
        match op {
            Op::Set(k, v) => ops.push(BOp::Claim(ClaimSpec::auto(KEYS[*k], json!(val(*k, *v))))),
            Op::Ack => ops.push(BOp::Ack),
            Op::Footer => {
                ops.push(BOp::Footer(FOOTER.into()));
                if proto.has_assertion() {
                    ops.push(BOp::Assertion(ASSERTION.into()));
                }
            }
            Op::Build => ops.push(BOp::Build),
        }
    }
    let script: Vec<Vec<u8>> = (0..path.len()).map(|i| vec![(i as u8).wrapping_mul(29).wrapping_add(3); 32]).collect();
    let (events, _) = adapter::with_rng_script(script, || adapter::build_history(proto, Layer::Prelude, &key.sk, &ops));
    let mut v = Verdicts::ok();
    if events.len() != ops.len() {
        v.broken = Some(format!("builder produced {} events for {} operations: {:?}", events.len(), ops.len(), events.last()));
        return v;
    }
    let mut m = M::init();
    let mut build_no = 0;
    for (i, op) in path.iter().enumerate() {
        m.step(op);
        let ev = &events[op_index[i]];
        match (op, ev) {
            (Op::Build, BEvent::Built(out)) => {
                build_no += 1;
                judge_build(proto, &key.pk, t0_ns, &m, out, build_no, &mut v);
            }
            (Op::Build, other) => v.broken = Some(format!("build produced {:?}", other)),
            (_, BEvent::Applied) => {}
            (_, other) => v.broken = Some(format!("{:?} produced {:?}", op, other)),
        }
    }
    v
}

fn judge_build(proto: Proto, pk: &[u8], t0_ns: i128, m: &M, out: &Out<String>, build_no: usize, v: &mut Verdicts) {
    let dups = m.dups();
    let nth = format!("build #{}", build_no);
    let c13 = |v: &mut Verdicts, k: &str, w: String| {
        if v.c13.is_none() {
            v.c13 = Some((k.to_string(), format!("{}: {}", nth, w)));
        }
    };
    let c17 = |v: &mut Verdicts, k: &str, w: String| {
        if v.c17.is_none() {
            v.c17 = Some((k.to_string(), format!("{}: {}", nth, w)));
        }
    };
    match out {
        Out::Panic(l) => {
            c13(v, "panic", format!("build panicked at {}", l));
            c17(v, "panic", format!("build panicked at {}", l));
        }
        Out::Err(ErrClass::Dup(k)) => {
            let latitude = m.exp_after_ack && k == "exp";
            if !dups.contains(&k.as_str()) && !latitude {
                c17(v, "spurious-duplicate-error", format!("duplicate-claim error names {:?} but the repeated keys are {:?}", k, dups));
            }
            // C13 speaks of successfully built tokens only
        }
        Out::Err(e) => {
            if dups.is_empty() {
                c17(v, "build-failed", format!("no key was repeated but build failed with {:?}", e));
            } else {
                c17(v, "wrong-error-for-duplicate", format!("keys {:?} were repeated but build failed with {:?} instead of the duplicate-claim error", dups, e));
            }
        }
        Out::Ok(token) => {
            if !dups.is_empty() {
                c17(v, "built-despite-duplicate", format!("keys {:?} were supplied more than once but a token was built", dups));
            }
            // read the payload back at the core layer (no parser, no validators)
            let (f, a) = if m.footer { (Some(FOOTER), if proto.has_assertion() { Some(ASSERTION) } else { None }) } else { (None, None) };
            let payload = match adapter::core_present(proto, pk, token, f, a) {
                Out::Ok(p) => p,
                other => {
                    let w = format!("the built token cannot be opened with its own key/footer/assertion: {}", other.short());
                    c13(v, "token-unreadable", w.clone());
                    c17(v, "token-unreadable", w);
                    return;
                }
            };
            let Ok(Value::Object(obj)) = serde_json::from_str::<Value>(&payload) else {
                c13(v, "payload-not-object", format!("payload is not a JSON object: {}", payload));
                c17(v, "payload-not-object", format!("payload is not a JSON object: {}", payload));
                return;
            };
            // ---- C13
            let iat = obj.get("iat").and_then(|x| x.as_str()).and_then(instant);
            let nbf = obj.get("nbf").and_then(|x| x.as_str()).and_then(instant);
            let iat_default = m.cnt[2] == 0;
            let nbf_default = m.cnt[1] == 0;
            if iat_default && iat != Some(t0_ns) {
                c13(v, "iat-not-creation-time", format!("default iat is {:?}, builder was created at {}", obj.get("iat"), t0_ns));
            }
            if nbf_default && nbf != Some(t0_ns) {
                c13(v, "nbf-not-creation-time", format!("default nbf is {:?}, builder was created at {}", obj.get("nbf"), t0_ns));
            }
            let exp = obj.get("exp");
            if m.ack {
                if exp.is_some() {
                    c13(v, "exp-present-despite-acknowledgement", format!("no-expiration was acknowledged but the token carries exp = {}", exp.unwrap()));
                }
            } else {
                match exp.and_then(|e| e.as_str()).and_then(instant) {
                    None => c13(v, "exp-missing-without-acknowledgement", format!("no acknowledgement, but the token carries no (valid) exp: payload {}", payload)),
                    Some(e) => {
                        if m.cnt[0] == 0 {
                            // "exactly one hour after iat": when the caller supplied its own iat the text can be
                            // read either way (one hour after that iat, or after the creation time): both pass
                            let hour = 3600 * 1_000_000_000i128;
                            let ok = if iat_default { iat.map_or(false, |b| e - b == hour) } else { e - t0_ns == hour || iat.map_or(false, |b| e - b == hour) };
                            if !ok {
                                c13(v, "exp-not-one-hour-after-iat", format!("default exp {:?} is not one hour after iat {:?} (creation time {})", obj.get("exp"), obj.get("iat"), t0_ns));
                            }
                        }
                    }
                }
            }
            // ---- C17 success clause: defaults overridden by the supplied values (minus exp if acknowledged)
            if dups.is_empty() {
                let mut want: std::collections::BTreeMap<String, Option<String>> = Default::default();
                for d in ["exp", "iat", "nbf"] {
                    want.insert(d.to_string(), None); // None = a default: checked by instant under C13
                }
                for k in 0..10 {
                    if m.cnt[k] > 0 && !KEYS[k].is_empty() {
                        // (a claim with the empty key is ignored by the payload builder)
                        want.insert(KEYS[k].to_string(), Some(val(k, m.last[k])));
                    }
                }
                if m.ack {
                    want.remove("exp");
                }
                if m.exp_after_ack {
                    // latitude: exp supplied after the acknowledgement may be refused or ignored
                    want.remove("exp");
                }
                // whether a claim with the empty key is emitted or dropped is not fixed by any property
                let empty = String::new();
                let mut got: std::collections::BTreeSet<&String> = obj.keys().collect();
                got.remove(&empty);
                let wantk: std::collections::BTreeSet<&String> = want.keys().collect();
                if got != wantk {
                    c17(v, "payload-members-differ", format!("payload members {:?}, expected {:?}", got, wantk));
                } else {
                    for (k, w) in &want {
                        if let Some(w) = w {
                            if obj[k] != json!(w) {
                                c17(v, "supplied-value-not-in-payload", format!("claim {} = {}, the caller supplied {:?}", k, obj[k], w));
                            }
                        }
                    }
                }
            }
        }
    }
}

// ------------------------------------------------------------------------------------------------ stateright

#[derive(Clone, Debug)]
pub struct St {
    pub m: M,
    pub path: Vec<Op>,
    pub verdict: Verdicts,
}
impl Hash for St {
    fn hash<H: Hasher>(&self, h: &mut H) {
        self.m.hash(h);
        self.verdict.c13.is_none().hash(h);
        self.verdict.c17.is_none().hash(h);
        self.verdict.broken.is_none().hash(h);
    }
}
impl PartialEq for St {
    fn eq(&self, o: &Self) -> bool {
        self.m == o.m && self.verdict.c13.is_none() == o.verdict.c13.is_none() && self.verdict.c17.is_none() == o.verdict.c17.is_none() && self.verdict.broken.is_none() == o.verdict.broken.is_none()
    }
}

pub struct BuilderModel {
    pub proto: Proto,
    pub t0_ns: i128,
    pub nkeys: usize,
}

impl BuilderModel {
    pub fn alphabet(&self) -> Vec<Op> {
        let mut a = Vec::new();
        for k in 0..self.nkeys {
            a.push(Op::Set(k, 0));
            if KEYS[k] == "exp" || KEYS[k] == "a" {
                a.push(Op::Set(k, 1));
            }
        }
        a.push(Op::Ack);
        a.push(Op::Footer);
        a.push(Op::Build);
        a
    }
}

impl Model for BuilderModel {
    type State = St;
    type Action = Op;
    fn init_states(&self) -> Vec<St> {
        vec![St { m: M::init(), path: vec![], verdict: Verdicts::ok() }]
    }
    fn actions(&self, _s: &St, a: &mut Vec<Op>) {
        a.extend(self.alphabet());
    }
    fn next_state(&self, s: &St, a: Op) -> Option<St> {
        if s.verdict != Verdicts::ok() {
            return None; // a disagreeing history is a leaf: its extensions tell nothing new
        }
        let mut m = s.m.clone();
        m.step(&a);
        let mut path = s.path.clone();
        path.push(a);
        let verdict = replay_and_judge(self.proto, self.t0_ns, &path);
        Some(St { m, path, verdict })
    }
    fn properties(&self) -> Vec<Property<Self>> {
        vec![
            Property::always("C13-conforms", |_, s: &St| s.verdict.c13.is_none()),
            Property::always("C17-conforms", |_, s: &St| s.verdict.c17.is_none()),
            Property::always("replayable", |_, s: &St| s.verdict.broken.is_none()),
        ]
    }
}
