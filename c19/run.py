#!/usr/bin/env python3
"""Engine C for C19: mixing versions or purposes is a compile-time error.

A finite grid of tiny client programs is generated, each derived from a compiling base program by exactly
one type substitution on one marked line; all of them are type-checked against /repo's working tree
(all features) by one `cargo check --bins --keep-going --message-format=json`; the reference model R5 is a
table: the program compiles iff token protocol == key protocol and the operation belongs to the protocol's
purpose (resp. the version supports implicit assertions, resp. the (version, size, half) triple is a
documented key conversion). A must-not-compile program must fail with a *type-system* error located on
its substituted line; failing for another reason is a machinery error, not a pass.
"""
import json, os, shutil, subprocess, sys, time

sys.path.insert(0, os.path.join(os.path.dirname(os.path.abspath(__file__)), "..", "lib"))
from vp_common import VERIF, REPO, load_known, write_evidence, report

PKG = os.path.join(VERIF, "target", "c19", "pkg")
TARGET = os.path.join(VERIF, "target", "c19", "target")
PROTOS = [(v, p) for p in ("Local", "Public") for v in (1, 2, 3, 4)]
TYPE_ERRORS = {"E0451", "E0560", "E0063", "E0308", "E0277", "E0599", "E0271", "E0061", "E0282", "E0283", "E0284", "E0631", "E0107", "E0369", "E0614", "E0618", "E0057", "E0060"}


def pname(x):
    return "v%d.%s" % (x[0], x[1].lower())


def ia(v):
    return v in (3, 4)


# ---------------------------------------------------------------- key / nonce set-up lines (always valid for their own protocol)
def issue_key(y, var="key"):
    v, p = y
    if p == "Local":
        return ["let %s = PasetoSymmetricKey::<V%d, Local>::from(Key::<32>::from([0u8; 32]));" % (var, v)]
    if v == 1:
        return ["let raw_%s: &[u8] = &[0u8; 8];" % var, "let %s = PasetoAsymmetricPrivateKey::<V1, Public>::from(raw_%s);" % (var, var)]
    if v == 3:
        return ["let raw_%s = Key::<48>::from([1u8; 48]);" % var, "let %s = PasetoAsymmetricPrivateKey::<V3, Public>::from(&raw_%s);" % (var, var)]
    return ["let raw_%s = Key::<64>::from([0u8; 64]);" % var, "let %s = PasetoAsymmetricPrivateKey::<V%d, Public>::from(&raw_%s);" % (var, v, var)]


def open_key(y, var="key"):
    v, p = y
    if p == "Local":
        return issue_key(y, var)
    if v == 1:
        return ["let raw_%s: &[u8] = &[0u8; 8];" % var, "let %s = PasetoAsymmetricPublicKey::<V1, Public>::from(raw_%s);" % (var, var)]
    if v == 3:
        return ["let raw_%s = Key::<49>::from([2u8; 49]);" % var, "let %s = PasetoAsymmetricPublicKey::<V3, Public>::try_from(&raw_%s).unwrap();" % (var, var)]
    return ["let raw_%s = Key::<32>::from([0u8; 32]);" % var, "let %s = PasetoAsymmetricPublicKey::<V%d, Public>::from(&raw_%s);" % (var, v, var)]


def nonce(yv, var="nonce"):
    n = 24 if yv == 2 else 32  # the documented nonce size of each version
    return ["let raw_%s = Key::<%d>::from([0u8; %d]);" % (var, n, n), "let %s = PasetoNonce::<V%d, Local>::from(&raw_%s);" % (var, yv, var)]


def program(use, setup, subst, after=()):
    lines = ["#![allow(unused)]", "use rusty_paseto::%s::*;" % use, "fn main() {"]
    lines += ["    " + l for l in setup]
    subst_line = len(lines) + 1
    lines.append("    " + subst + " // SUBST")
    lines += ["    " + l for l in after]
    lines.append("}")
    return "\n".join(lines) + "\n", subst_line


# ---------------------------------------------------------------- operations
def op_core_issue(x, key="key", method=None):
    v, p = x
    m = method or ("try_encrypt" if p == "Local" else "try_sign")
    args = "&%s, &nonce" % key if m == "try_encrypt" else "&%s" % key
    return "let _ = Paseto::<V%d, %s>::builder().set_payload(Payload::from(\"m\")).%s(%s);" % (v, p, m, args)


def op_core_open(x, key="key", method=None):
    v, p = x
    m = method or ("try_decrypt" if p == "Local" else "try_verify")
    extra = ", None::<ImplicitAssertion>" if ia(v) else ""
    return "let _ = Paseto::<V%d, %s>::%s(\"t\", &%s, None::<Footer>%s);" % (v, p, m, key, extra)


def op_generic_issue(x, key="key", method=None):
    v, p = x
    m = method or ("try_encrypt" if p == "Local" else "try_sign")
    return "let _ = GenericBuilder::<V%d, %s>::default().%s(&%s);" % (v, p, m, key)


def op_generic_open(x, key="key"):
    return "let _ = GenericParser::<V%d, %s>::default().parse(\"t\", &%s);" % (x[0], x[1], key)


def op_prelude_issue(x, key="key"):
    return "let _ = PasetoBuilder::<V%d, %s>::default().build(&%s);" % (x[0], x[1], key)


def op_prelude_open(x, key="key"):
    return "let _ = PasetoParser::<V%d, %s>::default().parse(\"t\", &%s);" % (x[0], x[1], key)


def generate():
    progs = []  # dict(name, src, subst_line, expect_compile, cell)

    def add(family, cell, use, setup, subst, expect):
        src, line = program(use, setup, subst)
        progs.append({"name": "p%04d" % len(progs), "family": family, "cell": cell, "src": src, "subst_line": line, "expect_compile": expect})

    # (1) (operation, token protocol X, key protocol Y)
    ops = [
        ("core-issue", "core", lambda x: op_core_issue(x), issue_key, True),
        ("core-open", "core", lambda x: op_core_open(x), open_key, False),
        ("generic-builder", "generic", lambda x: op_generic_issue(x), issue_key, False),
        ("generic-parser", "generic", lambda x: op_generic_open(x), open_key, False),
        ("prelude-builder", "prelude", lambda x: op_prelude_issue(x), issue_key, False),
        ("prelude-parser", "prelude", lambda x: op_prelude_open(x), open_key, False),
    ]
    for opname, use, opf, keyf, needs_nonce in ops:
        for x in PROTOS:
            for y in PROTOS:
                setup = keyf(y)
                if needs_nonce and x[1] == "Local":
                    setup = setup + nonce(x[0])
                add("1-key-of-other-protocol", "%s token=%s key=%s" % (opname, pname(x), pname(y)), use, setup, opf(x), x == y)
    # (1b) nonce of version Y handed to try_encrypt of version X
    for xv in (1, 2, 3, 4):
        for yv in (1, 2, 3, 4):
            x = (xv, "Local")
            add("1b-nonce-of-other-version", "core-issue token=%s nonce=v%d" % (pname(x), yv), "core", issue_key(x) + nonce(yv), op_core_issue(x), xv == yv)
    # (2) purpose misuse: the other purpose's operation, with the key that operation would want
    for x in PROTOS:
        v, p = x
        other = (v, "Public" if p == "Local" else "Local")
        wrong_issue = "try_sign" if p == "Local" else "try_encrypt"
        wrong_open = "try_verify" if p == "Local" else "try_decrypt"
        setup = issue_key(other) + (nonce(v) if wrong_issue == "try_encrypt" else [])
        add("2-purpose-misuse", "core %s on %s" % (wrong_issue, pname(x)), "core", setup, op_core_issue(x, method=wrong_issue), False)
        add("2-purpose-misuse", "core %s on %s" % (wrong_open, pname(x)), "core", open_key(other), op_core_open(x, method=wrong_open), False)
        add("2-purpose-misuse", "generic-builder %s on %s" % (wrong_issue, pname(x)), "generic", issue_key(other), op_generic_issue(x, method=wrong_issue), False)
    # (3) set_implicit_assertion
    holders = [
        ("core", "Paseto::<V%d, %s>::builder()"),
        ("generic", "GenericBuilder::<V%d, %s>::default()"),
        ("generic", "GenericParser::<V%d, %s>::default()"),
        ("prelude", "PasetoBuilder::<V%d, %s>::default()"),
        ("prelude", "PasetoParser::<V%d, %s>::default()"),
    ]
    for use, h in holders:
        for x in PROTOS:
            holder = h % x
            add("3-implicit-assertion", "%s on %s" % (holder.split("::")[0], pname(x)), use, ["let mut holder = %s;" % holder], "holder.set_implicit_assertion(ImplicitAssertion::from(\"a\"));", ia(x[0]))
    # (4) key construction
    for v in (1, 2, 3, 4):
        add("4-symmetric-key-purpose", "PasetoSymmetricKey<V%d, Public>" % v, "core", [], "let _ = PasetoSymmetricKey::<V%d, Public>::from(Key::<32>::from([0u8; 32]));" % v, False)
        add("4-symmetric-key-purpose", "PasetoSymmetricKey<V%d, Local>" % v, "core", [], "let _ = PasetoSymmetricKey::<V%d, Local>::from(Key::<32>::from([0u8; 32]));" % v, True)
    # ... by any other construction route a client might reach for (std construction / conversion traits)
    routes = [
        ("Default::default() annotated", "let _: PasetoSymmetricKey<V%d, Public> = Default::default();"),
        ("::default()", "let _ = PasetoSymmetricKey::<V%d, Public>::default();"),
        ("from [u8; 32]", "let _ = PasetoSymmetricKey::<V%d, Public>::from([0u8; 32]);"),
        ("from &[u8]", "let _ = PasetoSymmetricKey::<V%d, Public>::from(&[0u8; 32][..]);"),
        ("from &Key<32>", "let _ = PasetoSymmetricKey::<V%d, Public>::from(&Key::<32>::from([0u8; 32]));"),
        ("Key<32>.into()", "let _: PasetoSymmetricKey<V%d, Public> = Key::<32>::from([0u8; 32]).into();"),
        ("try_from &str", "let _ = PasetoSymmetricKey::<V%d, Public>::try_from(\"00\");"),
        ("str.parse()", "let _ = \"00\".parse::<PasetoSymmetricKey<V%d, Public>>();"),
        ("try_from &[u8]", "let _ = PasetoSymmetricKey::<V%d, Public>::try_from(&[0u8; 32][..]);"),
        ("try_from Vec<u8>", "let _ = PasetoSymmetricKey::<V%d, Public>::try_from(vec![0u8; 32]);"),
        ("from String", "let _ = PasetoSymmetricKey::<V%d, Public>::from(String::from(\"00\"));"),
        ("serde_json::from_str", "let _ = serde_json::from_str::<PasetoSymmetricKey<V%d, Public>>(\"\\\"00\\\"\");"),
        ("serde_json::from_value", "let _ = serde_json::from_value::<PasetoSymmetricKey<V%d, Public>>(serde_json::Value::Null);"),
        ("FromIterator", "let _: PasetoSymmetricKey<V%d, Public> = [0u8; 32].into_iter().collect();"),
    ]
    for v in (1, 2, 3, 4):
        for rname, line in routes:
            add("4-symmetric-key-purpose", "PasetoSymmetricKey<V%d, Public> by %s" % (v, rname), "core", [], line % v, False)
    # ... and by a struct literal (the wrappers' fields are private: key material can only get in through the typed
    # constructors), for every key wrapper and the nonce
    lit = [
        ("PasetoSymmetricKey<V%d, Public>", "let _ = PasetoSymmetricKey::<V%d, Public> { version: std::marker::PhantomData, purpose: std::marker::PhantomData, key: Key::<32>::from([0u8; 32]) };"),
        ("PasetoAsymmetricPublicKey<V%d, Public> from 31 bytes", "let _ = PasetoAsymmetricPublicKey::<V%d, Public> { version: std::marker::PhantomData, purpose: std::marker::PhantomData, key: &[7u8; 31] };"),
        ("PasetoAsymmetricPrivateKey<V%d, Public> from 31 bytes", "let _ = PasetoAsymmetricPrivateKey::<V%d, Public> { version: std::marker::PhantomData, purpose: std::marker::PhantomData, key: &[7u8; 31] };"),
        ("PasetoNonce<V%d, Local> from 5 bytes", "let _ = PasetoNonce::<V%d, Local> { version: std::marker::PhantomData, purpose: std::marker::PhantomData, key: &[7u8; 5] };"),
    ]
    for v in (1, 2, 3, 4):
        for lname, line in lit:
            add("4-struct-literal", lname % v, "core", [], line % v, False)
    documented = {(2, 64, "Private"), (4, 64, "Private"), (3, 48, "Private"), (2, 32, "Public"), (4, 32, "Public"), (3, 49, "Public")}
    for half in ("Private", "Public"):
        for v in (1, 2, 3, 4):
            for n in (32, 48, 49, 64):
                add("4-asymmetric-key-size", "PasetoAsymmetric%sKey<V%d> from Key<%d>" % (half, v, n), "core", ["let raw = Key::<%d>::from([2u8; %d]);" % (n, n)],
                    "let _ = PasetoAsymmetric%sKey::<V%d, Public>::try_from(&raw);" % (half, v), (v, n, half) in documented)
    # fixed-size arrays (not Key<N>) as key material: no asymmetric key type is constructible from them
    for half in ("Private", "Public"):
        for v in (1, 2, 3, 4):
            for n in (32, 48, 49, 64):
                add("4-asymmetric-key-from-array", "PasetoAsymmetric%sKey<V%d> from &[u8; %d]" % (half, v, n), "core", ["let raw = [2u8; %d];" % n],
                    "let _ = PasetoAsymmetric%sKey::<V%d, Public>::from(&raw);" % (half, v), False)
    # ... while the documented slice form still works where it is documented (controls)
    add("4-asymmetric-key-from-array", "PasetoAsymmetricPrivateKey<V2> from &[u8] slice", "core", ["let raw = [2u8; 64];"], "let _ = PasetoAsymmetricPrivateKey::<V2, Public>::from(&raw[..]);", True)
    add("4-asymmetric-key-from-array", "PasetoAsymmetricPublicKey<V1> from &[u8] slice", "core", ["let raw = [2u8; 64];"], "let _ = PasetoAsymmetricPublicKey::<V1, Public>::from(&raw[..]);", True)
    return progs


CARGO_TOML = """[package]
name = "pv_c19"
version = "0.0.0"
edition = "2021"
publish = false
autobins = true

[dependencies]
rusty_paseto = { path = "%s", default-features = false, features = ["batteries_included", "v1_local", "v2_local", "v3_local", "v4_local", "v1_public", "v2_public", "v3_public", "v4_public"] }
serde_json = "1.0"
serde = "1.0"

[profile.dev]
debug = 0
incremental = false

[workspace]
""" % REPO


def lock_file():
    # the crate's own lock file (git-ignored there) if present, else the copy kept with the harness
    own = os.path.join(REPO, "Cargo.lock")
    return own if os.path.exists(own) else os.path.join(VERIF, "harness", "Cargo.lock")


def write_pkg(progs):
    shutil.rmtree(PKG, ignore_errors=True)
    os.makedirs(os.path.join(PKG, "src", "bin"))
    open(os.path.join(PKG, "Cargo.toml"), "w").write(CARGO_TOML)
    shutil.copy(lock_file(), os.path.join(PKG, "Cargo.lock"))
    for p in progs:
        open(os.path.join(PKG, "src", "bin", p["name"] + ".rs"), "w").write(p["src"])


def cargo_check():
    env = dict(os.environ, CARGO_NET_OFFLINE="true", CARGO_TARGET_DIR=TARGET)
    env.pop("RUSTFLAGS", None)
    cmd = ["cargo", "check", "--offline", "--bins", "--keep-going", "--message-format=json", "--manifest-path", os.path.join(PKG, "Cargo.toml")]
    p = subprocess.run(cmd, env=env, stdout=subprocess.PIPE, stderr=subprocess.PIPE, text=True)
    compiled, errors, lib_errors = set(), {}, []
    for line in p.stdout.splitlines():
        if not line.startswith("{"):
            continue
        try:
            m = json.loads(line)
        except ValueError:
            continue
        tgt = m.get("target", {})
        if m.get("reason") == "compiler-artifact" and "bin" in tgt.get("kind", []):
            compiled.add(tgt["name"])
        elif m.get("reason") == "compiler-message" and m["message"].get("level") == "error":
            msg = m["message"]
            if "bin" in tgt.get("kind", []):
                code = (msg.get("code") or {}).get("code")
                lines = [s["line_start"] for s in msg.get("spans", []) if s.get("is_primary")]
                errors.setdefault(tgt["name"], []).append({"code": code, "lines": lines, "message": msg.get("message", "")[:200]})
            elif tgt.get("name") == "rusty_paseto":
                lib_errors.append(msg.get("message", ""))
    return compiled, errors, lib_errors, p


def judge(p, compiled, errors):
    """returns (verdict, kind, detail): verdict in ok / violation / machinery"""
    name = p["name"]
    errs = [e for e in errors.get(name, []) if e["code"] or "aborting" not in e["message"]]
    if p["expect_compile"]:
        if name in compiled and not errs:
            return "ok", "compiles", ""
        if errs:
            return "violation", "matching-types-rejected", "; ".join("%s@%s %s" % (e["code"], e["lines"], e["message"]) for e in errs[:2])
        return "machinery", "no-artifact-no-error", ""
    if name in compiled and not errs:
        return "violation", "mixing-compiles", "the program type-checks"
    if not errs:
        return "machinery", "no-artifact-no-error", ""
    coded = [e for e in errs if e["code"]]
    if not coded or any(e["code"] not in TYPE_ERRORS for e in coded):
        return "machinery", "non-type-error", "; ".join("%s@%s %s" % (e["code"], e["lines"], e["message"]) for e in errs[:3])
    if not any(p["subst_line"] in e["lines"] for e in coded):
        return "machinery", "error-not-on-substituted-line", "; ".join("%s@%s %s" % (e["code"], e["lines"], e["message"]) for e in errs[:3])
    return "ok", "rejected:" + "+".join(sorted({e["code"] for e in coded})), ""


def main():
    t0 = time.time()
    progs = generate()
    if len(sys.argv) >= 3 and sys.argv[1] == "--replay":
        rp = json.load(open(sys.argv[2]))
        progs = [p for p in progs if p["cell"] == rp["cell"] and p["family"] == rp["family"]]
        if not progs:
            print("MACHINERY-ERROR: replay cell not found in the grid")
            sys.exit(2)
        tier = "replay"
    else:
        tier = sys.argv[1] if len(sys.argv) > 1 else "quick"
    write_pkg(progs)
    compiled, errors, lib_errors, proc = cargo_check()
    if lib_errors or (not compiled and not errors):
        print("MACHINERY-ERROR C19: rusty_paseto itself does not type-check with all features (no verdict): %s" % (lib_errors[:1] or proc.stderr[-400:]))
        sys.exit(2)
    results, viols, mach = [], [], []
    hist = {}
    for p in progs:
        verdict, kind, detail = judge(p, compiled, errors)
        results.append((p, verdict, kind, detail))
        hist[kind] = hist.get(kind, 0) + 1
        if verdict == "machinery":
            mach.append((p, kind, detail))
        elif verdict == "violation":
            viols.append({
                "key": "C19|%s|%s|%s" % (p["family"], p["cell"], kind),
                "what": "%s [%s]: %s %s" % (p["family"], p["cell"], "must not compile but does" if kind == "mixing-compiles" else "must compile but is rejected", detail),
                "replay": {"family": p["family"], "cell": p["cell"], "program": p["src"], "expect_compile": p["expect_compile"], "substituted_line": p["subst_line"]},
            })
    if mach:
        p, kind, detail = mach[0]
        print("MACHINERY-ERROR C19: %d programs could not be judged, e.g. %s [%s]: %s %s\n%s" % (len(mach), p["family"], p["cell"], kind, detail, p["src"]))
        sys.exit(2)
    if tier == "replay":
        for v in viols:
            print("VIOLATION property=C19 replay=%s\n  what: %s" % (sys.argv[2], v["what"]))
        print(json.dumps([(p["cell"], verdict, kind) for p, verdict, kind, _ in results]))
        sys.exit(1 if viols else 0)
    pos = [r for r in results if r[0]["expect_compile"]]
    neg = [r for r in results if not r[0]["expect_compile"]]
    if not pos or not neg or not any(r[1] == "ok" for r in pos):
        print("MACHINERY-ERROR C19: no compiling control program (vacuous)")
        sys.exit(2)
    fam = {}
    for p in progs:
        fam[p["family"]] = fam.get(p["family"], 0) + 1
    cov = {
        "states": len(progs),
        "transitions": len(neg),
        "traces_validated_against_impl": len(progs),
        "programs": len(progs),
        "exhaustive": True,
        "space": "grid of generated client programs: (6 operations x 8 token protocols x 8 key protocols), nonce version x token version, purpose misuse at the core and generic-builder layers, set_implicit_assertion on 5 holder types x 8 protocols, symmetric-key purpose (From<Key<32>> and fourteen other construction routes incl. serde's Deserialize), asymmetric key from Key<N> for N in {32,48,49,64} x 4 versions x {private, public}",
        "programs_per_family": fam,
        "must_compile": len(pos),
        "must_not_compile": len(neg),
        "outcome_histogram": hist,
        "negative_programs_rejected_on_their_substituted_line": sum(1 for r in neg if r[1] == "ok"),
        "samples": [{"cell": progs[i]["cell"], "family": progs[i]["family"], "expect_compile": progs[i]["expect_compile"], "program": progs[i]["src"], "observed": results[i][2]} for i in (1, len(progs) // 2, len(progs) - 3)],
        "same_grid_in_both_tiers": True,
    }
    rc = report("C19", viols, load_known("C19"))
    write_evidence("C19", tier, cov, time.time() - t0, len(viols), ["rustc 1.95 is the type-checking oracle", "a negative program counts only if it fails with a type-system error code located on its substituted line"])
    print("C19 %s: %d programs (%d must compile, %d must not), %d violations, %.1fs" % (tier, len(progs), len(pos), len(neg), len(viols), time.time() - t0))
    sys.exit(rc)


if __name__ == "__main__":
    try:
        main()
    except SystemExit:
        raise
    except BaseException as e:  # an engine crash is a machinery exit (2), never a verdict
        import traceback
        traceback.print_exc()
        print("MACHINERY-ERROR: C19 engine crashed: %r" % (e,))
        sys.exit(2)
