#!/usr/bin/env python3
"""
crosscheck_openssl.py -- OPTIONAL authoring-time cross-check of prim.py against the openssl CLI.

Not run by any registered check (R1 must not depend on openssl at run time); it documents how
the primitives were validated against an independent implementation in both directions:

  HKDF-SHA384        openssl kdf HKDF
  AES-256-CTR        openssl enc -aes-256-ctr   (incl. an IV that wraps the 128-bit counter)
  ChaCha20           openssl enc -chacha20      (IV = LE32 counter || 12-byte nonce)
  Poly1305           openssl mac POLY1305
  Ed25519            openssl pkeyutl -sign -rawin (deterministic: byte identity), -verify
  ECDSA P-384        public key derivation + compression; openssl verifies ours; we verify
                     openssl's; with nonce-type:1 (RFC 6979, openssl >= 3.2) byte identity
  RSASSA-PSS         fixtures rsa.json == DER files; openssl verifies ours; we verify openssl's
                     (sha384, mgf1 sha384, saltlen 48)

Usage: python3 crosscheck_openssl.py        -> prints one line per check, exit 0 iff all OK
"""
import hashlib
import json
import os
import shutil
import subprocess
import sys
import tempfile

HERE = os.path.dirname(os.path.abspath(__file__))
sys.path.insert(0, HERE)
import prim as P  # noqa: E402

FIXTURES = os.path.join(os.path.dirname(HERE), "fixtures")
TMP = tempfile.mkdtemp(prefix=".crosscheck-tmp-", dir=HERE)   # removed again at exit
results = []


def path(name):
    return os.path.join(TMP, name)


def write(name, data):
    with open(path(name), "wb") as fh:
        fh.write(data)
    return path(name)


def ossl(*args, stdin=None, ok_codes=(0,)):
    r = subprocess.run(["openssl"] + list(args), input=stdin, stdout=subprocess.PIPE, stderr=subprocess.PIPE)
    if r.returncode not in ok_codes:
        raise RuntimeError("openssl %s failed: %s" % (" ".join(args), r.stderr.decode(errors="replace")))
    return r.stdout


def report(name, ok, extra=""):
    results.append(ok)
    print("%-58s %s %s" % (name, "OK" if ok else "FAIL", extra))


def attempt(name, fn):
    try:
        fn(name)
    except Exception as e:      # noqa: BLE001
        report(name, False, "(%s: %s)" % (type(e).__name__, e))


def det_bytes(label, n):
    out, c = b"", 0
    while len(out) < n:
        out += hashlib.sha512(label + c.to_bytes(4, "big")).digest()
        c += 1
    return out[:n]


# ---- DER helpers -----------------------------------------------------------------------
def der_len(n):
    if n < 0x80:
        return bytes([n])
    b = n.to_bytes((n.bit_length() + 7) // 8, "big")
    return bytes([0x80 | len(b)]) + b


def der_int(x):
    b = x.to_bytes(max(1, (x.bit_length() + 8) // 8), "big")   # leading 00 if top bit set
    return b"\x02" + der_len(len(b)) + b


def der_seq(*items):
    body = b"".join(items)
    return b"\x30" + der_len(len(body)) + body


def ecdsa_sig_to_der(sig96):
    return der_seq(der_int(int.from_bytes(sig96[:48], "big")), der_int(int.from_bytes(sig96[48:], "big")))


def ecdsa_sig_from_der(der):
    assert der[0] == 0x30
    i = 2 if der[1] < 0x80 else 2 + (der[1] & 0x7F)
    vals = []
    for _ in range(2):
        assert der[i] == 0x02
        ln = der[i + 1]
        vals.append(int.from_bytes(der[i + 2:i + 2 + ln], "big"))
        i += 2 + ln
    return vals[0].to_bytes(48, "big") + vals[1].to_bytes(48, "big")


def p384_private_der(d):
    # SEC1 ECPrivateKey { version 1, privateKey OCTET STRING(48), [0] secp384r1 }  (no public key)
    oid = bytes.fromhex("06052b81040022")
    return der_seq(b"\x02\x01\x01", b"\x04\x30" + d.to_bytes(48, "big"), b"\xa0" + der_len(len(oid)) + oid)


def ed25519_private_der(seed):
    # RFC 8410 PKCS#8: 302e020100300506032b657004220420 || seed
    return bytes.fromhex("302e020100300506032b657004220420") + seed


# ---- checks ------------------------------------------------------------------------------
def check_hkdf(name):
    for ikm, salt, info, ln in [(det_bytes(b"ikm", 32), det_bytes(b"salt", 16), b"paseto-encryption-key", 32),
                                (det_bytes(b"ikm2", 32), b"", b"paseto-auth-key-for-aead" + det_bytes(b"n", 32), 48),
                                (det_bytes(b"ikm3", 7), det_bytes(b"s", 64), b"", 130)]:
        args = ["kdf", "-binary", "-keylen", str(ln), "-kdfopt", "digest:SHA384", "-kdfopt", "hexkey:" + ikm.hex()]
        if salt:
            args += ["-kdfopt", "hexsalt:" + salt.hex()]
        if info:
            args += ["-kdfopt", "hexinfo:" + info.hex()]
        ref = ossl(*args, "HKDF")
        report("%s len=%d salt=%d info=%d" % (name, ln, len(salt), len(info)), ref == P.hkdf_sha384(ikm, salt, info, ln))


def check_aes_ctr(name):
    key = det_bytes(b"aeskey", 32)
    for iv, ln in [(det_bytes(b"iv", 16), 1000), (b"\xff" * 15 + b"\xfe", 100), (b"\x00" * 8 + b"\xff" * 8, 70), (bytes(16), 0), (bytes(16), 65537)]:
        data = det_bytes(b"aesdata", ln)
        ref = ossl("enc", "-aes-256-ctr", "-K", key.hex(), "-iv", iv.hex(), "-in", write("aes.in", data))
        report("%s iv=%s.. len=%d" % (name, iv.hex()[:8], ln), ref == P.aes256_ctr(key, iv, data))


def check_chacha(name):
    key = det_bytes(b"chachakey", 32)
    for counter, ln in [(0, 64), (1, 114), (7, 1000), (0, 65537)]:
        nonce = det_bytes(b"nonce%d" % counter, 12)
        data = det_bytes(b"chachadata", ln)
        iv = counter.to_bytes(4, "little") + nonce
        ref = ossl("enc", "-chacha20", "-K", key.hex(), "-iv", iv.hex(), "-in", write("cc.in", data))
        report("%s counter=%d len=%d" % (name, counter, ln), ref == P.chacha20_xor(key, counter, nonce, data))


def check_poly1305(name):
    for ln in (0, 1, 15, 16, 17, 63, 64, 1000):
        key = det_bytes(b"polykey%d" % ln, 32)
        data = det_bytes(b"polydata", ln)
        ref = ossl("mac", "-binary", "-macopt", "hexkey:" + key.hex(), "-in", write("poly.in", data), "POLY1305")
        report("%s len=%d" % (name, ln), ref == P.poly1305(key, data))
    # worst-case carries: r and s all ones, message all ones
    key, data = b"\xff" * 32, b"\xff" * 48
    ref = ossl("mac", "-binary", "-macopt", "hexkey:" + key.hex(), "-in", write("poly.in", data), "POLY1305")
    report("%s all-ones" % name, ref == P.poly1305(key, data))


def check_ed25519(name):
    for label in (b"ed-a", b"ed-b", b"ed-c"):
        seed = hashlib.sha256(label).digest()
        keyf = write("ed.der", ed25519_private_der(seed))
        pub_der = ossl("pkey", "-inform", "DER", "-in", keyf, "-pubout", "-outform", "DER")
        report("%s public %s" % (name, label.decode()), pub_der[-32:] == P.ed25519_public(seed))
        pubf = write("ed.pub.der", pub_der)
        for ln in (1, 32, 200):        # (openssl pkeyutl -rawin cannot read an empty file)
            msg = det_bytes(label, ln)
            msgf = write("ed.msg", msg)
            ref = ossl("pkeyutl", "-sign", "-inkey", keyf, "-keyform", "DER", "-rawin", "-in", msgf)
            ours = P.ed25519_sign(seed, msg)
            report("%s sign %s len=%d (byte identity)" % (name, label.decode(), ln), ref == ours)
            sigf = write("ed.sig", ours)
            out = ossl("pkeyutl", "-verify", "-pubin", "-inkey", pubf, "-keyform", "DER", "-rawin", "-in", msgf,
                       "-sigfile", sigf, ok_codes=(0, 1))
            report("%s openssl verifies ours %s len=%d" % (name, label.decode(), ln), b"Success" in out)
            report("%s we verify openssl's %s len=%d" % (name, label.decode(), ln),
                   P.ed25519_verify(pub_der[-32:], msg, ref) and not P.ed25519_verify(pub_der[-32:], msg + b"x", ref))


def check_p384(name):
    scalars = [1, 2, P.P384_N - 1,
               int("20347609607477aca8fbfbc5e6218455f3199669792ef8b466faa87bdc67798144c848dd03661eed5ac62461340cea96", 16),
               int.from_bytes(hashlib.sha384(b"p384-x").digest(), "big") % (P.P384_N - 1) + 1]
    for d in scalars:
        tag = "%x" % d
        tag = tag[:8] + ".." if len(tag) > 10 else tag
        keyf = write("ec.der", p384_private_der(d))
        pemf = path("ec.pem")
        ossl("ec", "-inform", "DER", "-in", keyf, "-out", pemf)
        pub = ossl("ec", "-in", pemf, "-pubout", "-conv_form", "compressed", "-outform", "DER")
        ours_pk = P.p384_public_compressed(d)
        report("%s public d=%s (compressed point)" % (name, tag), pub[-49:] == ours_pk)
        x, y = P.p384_decompress(ours_pk)
        pub_u = ossl("ec", "-in", pemf, "-pubout", "-conv_form", "uncompressed", "-outform", "DER")
        report("%s decompress d=%s" % (name, tag), pub_u[-97:] == b"\x04" + x.to_bytes(48, "big") + y.to_bytes(48, "big"))
        pubf = path("ec.pub.pem")
        ossl("ec", "-in", pemf, "-pubout", "-out", pubf)
        for ln in (0, 33):
            msg = det_bytes(b"ecmsg", ln)
            msgf = write("ec.msg", msg)
            dg = hashlib.sha384(msg).digest()
            dgf = write("ec.dg", dg)
            ours = P.p384_sign(d, dg)
            sigf = write("ec.sig", ecdsa_sig_to_der(ours))
            out = ossl("dgst", "-sha384", "-verify", pubf, "-signature", sigf, msgf, ok_codes=(0, 1))
            report("%s openssl dgst verifies ours d=%s len=%d" % (name, tag, ln), b"Verified OK" in out)
            out = ossl("pkeyutl", "-verify", "-pubin", "-inkey", pubf, "-in", dgf, "-sigfile", sigf, ok_codes=(0, 1))
            report("%s openssl pkeyutl verifies ours d=%s len=%d" % (name, tag, ln), b"Success" in out)
            theirs = ecdsa_sig_from_der(ossl("dgst", "-sha384", "-sign", pemf, msgf))
            report("%s we verify openssl's (random k) d=%s len=%d" % (name, tag, ln),
                   P.p384_verify(ours_pk, dg, theirs) and not P.p384_verify(ours_pk, hashlib.sha384(msg + b"x").digest(), theirs))
            try:
                det = ecdsa_sig_from_der(ossl("dgst", "-sha384", "-sigopt", "nonce-type:1", "-sign", pemf, msgf))
                report("%s RFC 6979 byte identity d=%s len=%d" % (name, tag, ln), det == ours)
            except RuntimeError as e:
                print("%-58s SKIP (this openssl has no nonce-type:1: %s)" % (name + " RFC 6979", str(e)[:60]))


def check_rsa(name):
    with open(os.path.join(FIXTURES, "rsa.json")) as fh:
        fixtures = json.load(fh)
    for kname in sorted(fixtures):
        k = {f: int(fixtures[kname][f], 16) for f in ("n", "e", "d", "p", "q")}
        pk8 = os.path.join(FIXTURES, kname + ".pk8")
        pubder = os.path.join(FIXTURES, kname + ".pub.der")
        modulus = ossl("pkey", "-inform", "DER", "-in", pk8, "-noout", "-text").decode()
        hexdump = "".join(ch for ch in modulus.split("publicExponent")[0].split("modulus:")[1] if ch in "0123456789abcdef")
        report("%s %s n matches .pk8" % (name, kname), int(hexdump, 16) == k["n"])
        priv = modulus.split("privateExponent:")[1].split("prime1:")[0]
        report("%s %s d matches .pk8" % (name, kname), int("".join(ch for ch in priv if ch in "0123456789abcdef"), 16) == k["d"])
        report("%s %s consistent (n=pq, ed=1, e=65537, 2048 bits)" % (name, kname),
               k["p"] * k["q"] == k["n"] and k["e"] == 65537 and k["n"].bit_length() == 2048
               and k["e"] * k["d"] % ((k["p"] - 1) * (k["q"] - 1) // __import__("math").gcd(k["p"] - 1, k["q"] - 1)) == 1)
        # RSAPublicKey (PKCS#1) DER = SEQ { INT n, INT e }
        report("%s %s .pub.der == SEQ{n,e}" % (name, kname), open(pubder, "rb").read() == der_seq(der_int(k["n"]), der_int(k["e"])))
        pemf = path("rsa.pem")
        ossl("pkey", "-inform", "DER", "-in", pk8, "-out", pemf)
        pubf = path("rsa.pub.pem")
        ossl("pkey", "-in", pemf, "-pubout", "-out", pubf)
        opts = ["-sigopt", "rsa_padding_mode:pss", "-sigopt", "rsa_pss_saltlen:48", "-sigopt", "rsa_mgf1_md:sha384"]
        for ln in (0, 100):
            msg = det_bytes(b"rsamsg" + kname.encode(), ln)
            msgf = write("rsa.msg", msg)
            ours = P.rsa_pss_sign(k["n"], k["d"], msg, det_bytes(b"salt", 48), k["p"], k["q"])
            sigf = write("rsa.sig", ours)
            out = ossl("dgst", "-sha384", *opts, "-verify", pubf, "-signature", sigf, msgf, ok_codes=(0, 1))
            report("%s %s openssl verifies ours len=%d" % (name, kname, ln), b"Verified OK" in out)
            theirs = ossl("dgst", "-sha384", *opts, "-sign", pemf, msgf)
            report("%s %s we verify openssl's len=%d" % (name, kname, ln),
                   P.rsa_pss_verify(k["n"], k["e"], msg, theirs) and not P.rsa_pss_verify(k["n"], k["e"], msg + b"x", theirs))
            # a different salt length must be rejected by our (sLen = 48 only) verifier
            other = ossl("dgst", "-sha384", "-sigopt", "rsa_padding_mode:pss", "-sigopt", "rsa_pss_saltlen:32",
                         "-sigopt", "rsa_mgf1_md:sha384", "-sign", pemf, msgf)
            report("%s %s we reject saltlen 32 len=%d" % (name, kname, ln), not P.rsa_pss_verify(k["n"], k["e"], msg, other))


if __name__ == "__main__":
    print(ossl("version").decode().strip())
    attempt("HKDF-SHA384", check_hkdf)
    attempt("AES-256-CTR", check_aes_ctr)
    attempt("ChaCha20", check_chacha)
    attempt("Poly1305", check_poly1305)
    attempt("Ed25519", check_ed25519)
    attempt("ECDSA-P384", check_p384)
    attempt("RSA-PSS", check_rsa)
    bad = results.count(False)
    shutil.rmtree(TMP, ignore_errors=True)
    print("CROSSCHECK %s: %d checks, %d failed" % ("OK" if not bad else "FAILED", len(results), bad))
    sys.exit(0 if not bad else 1)
