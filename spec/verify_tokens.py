#!/usr/bin/env python3
"""
verify_tokens.py -- does the reference model R1 verify these public tokens?

    python3 verify_tokens.py <in.json> <out.json>

Input: a JSON list of {"proto": "v1.public" | "v2.public" | "v3.public" | "v4.public",
                       "pk": hex of the public key (v2/v4: 32 bytes, v3: 49 bytes) or the RSA fixture name (v1),
                       "token": str, "footer": hex | null, "assertion": hex | null}
Output: a JSON list of the same length: {"valid": bool, "msg": hex | null, "why": str}
  valid = R1's Verify of the specification (signature checked with R1's own Ed25519 / ECDSA P-384 / RSA-PSS)
  succeeds under that key, footer and assertion; msg = the message it returns.

Used by the harness to decide whether a token whose signature bytes differ from the issued ones carries
another VALID signature of the same message (a re-encoding, which the property tolerates) or not.
"""
import json
import os
import sys

HERE = os.path.dirname(os.path.abspath(__file__))
sys.path.insert(0, HERE)
import paseto_spec as S  # noqa: E402
from check_cases import rsa_fixture  # noqa: E402


def one(rec):
    try:
        proto = rec["proto"]
        f = bytes.fromhex(rec["footer"]) if rec.get("footer") else b""
        i = bytes.fromhex(rec["assertion"]) if rec.get("assertion") else b""
        tok = rec["token"]
        if proto == "v1.public":
            m = S.v1_public_verify(rsa_fixture(rec["pk"]), tok, f)
        elif proto == "v2.public":
            m = S.v2_public_verify(bytes.fromhex(rec["pk"]), tok, f)
        elif proto == "v3.public":
            m = S.v3_public_verify(bytes.fromhex(rec["pk"]), tok, f, i)
        elif proto == "v4.public":
            m = S.v4_public_verify(bytes.fromhex(rec["pk"]), tok, f, i)
        else:
            return {"valid": False, "msg": None, "why": "not a public protocol"}
        return {"valid": True, "msg": bytes(m).hex(), "why": ""}
    except Exception as e:  # R1 raises on every failed step
        return {"valid": False, "msg": None, "why": "%s: %s" % (type(e).__name__, e)}


def main():
    recs = json.load(open(sys.argv[1]))
    json.dump([one(r) for r in recs], open(sys.argv[2], "w"))
    print("VERIFY-TOKENS cases=%d" % len(recs))


if __name__ == "__main__":
    main()
