#!/usr/bin/env python3
"""
keygen.py -- writes /verif/fixtures/keys.json: the fixed asymmetric key pairs used by the
harness, with the public keys derived by R1's own primitives (prim.py: RFC 8032 s5.1.5 and
SEC1 point compression), so that the library's key handling is compared against values that
do not come from the library.

  {"ed25519": [{"seed": hex32, "pk": hex32} x 8],
   "p384":    [{"d": hex48, "pk": hex49} x 7]}

Ed25519 seeds: 0^32, 01^32, the official vector seed, that seed with bit 0 of byte 0 flipped,
that seed with the top bit of byte 31 flipped, sha256("pvmc-ed-5"), sha256("pvmc-ed-6"),
sha256("pvmc-ed-7").
P-384 scalars: 1, n-1, the official vector scalar, and int(sha384(label)) mod (n-1) + 1 for the
labels "pvmc-p384-3", "pvmc-p384-4", "pvmc-p384-5", "pvmc-p384-lz-49" (the last one has a public key
whose x coordinate begins with a zero byte).  Both compression prefixes (02 and 03)
must occur among the public keys; if they did not, the last label would be changed
(suffix "'" appended until they do) -- with the labels above this is NOT necessary: the prefixes
come out as 03, 02, 02, 02, 02, 02 (d = 1 is G itself, whose y is odd, so 03 occurs; n-1 is -G).
"""
import hashlib
import json
import os
import sys

HERE = os.path.dirname(os.path.abspath(__file__))
sys.path.insert(0, HERE)
import prim as P  # noqa: E402

OUT = os.path.join(os.path.dirname(HERE), "fixtures", "keys.json")

OFFICIAL_ED_SEED = bytes.fromhex("b4cbfb43df4ce210727d953e4a713307fa19bb7d9f85041438d9e11b942a3774")
OFFICIAL_ED_PK = "1eb9dbbbbc047c03fd70604e0071f0987e16b28b757225c11f00415d0e20b1a2"
OFFICIAL_P384_D = int("20347609607477aca8fbfbc5e6218455f3199669792ef8b466faa87bdc67798144c848dd03661eed"
                      "5ac62461340cea96", 16)
OFFICIAL_P384_PK = ("02fbcb7c69ee1c60579be7a334134878d9c5c5bf35d552dab63c0140397ed14cef637d7720925c44"
                    "699ea30e72874c72fb")


def flip(b, byte, mask):
    b = bytearray(b)
    b[byte] ^= mask
    return bytes(b)


def p384_scalar_from_label(label):
    return int.from_bytes(hashlib.sha384(label).digest(), "big") % (P.P384_N - 1) + 1


def main():
    ed_seeds = [
        bytes(32),
        b"\x01" * 32,
        OFFICIAL_ED_SEED,
        flip(OFFICIAL_ED_SEED, 0, 0x01),      # bit 0 of byte 0 flipped
        flip(OFFICIAL_ED_SEED, 31, 0x80),     # top bit of byte 31 flipped
        hashlib.sha256(b"pvmc-ed-5").digest(),
        hashlib.sha256(b"pvmc-ed-6").digest(),
        hashlib.sha256(b"pvmc-ed-7").digest(),
    ]
    ed = [{"seed": s.hex(), "pk": P.ed25519_public(s).hex()} for s in ed_seeds]
    assert ed[2]["pk"] == OFFICIAL_ED_PK, "official Ed25519 public key not reproduced"
    assert len({e["pk"] for e in ed}) == 8

    last_label = b"pvmc-p384-5"
    while True:
        scalars = [1, P.P384_N - 1, OFFICIAL_P384_D,
                   p384_scalar_from_label(b"pvmc-p384-3"),
                   p384_scalar_from_label(b"pvmc-p384-4"),
                   p384_scalar_from_label(last_label),
                   # a key whose x coordinate starts with a zero byte (found by trying the labels
                   # pvmc-p384-lz-0, -1, ...: number 49 is the first): fixed-width encodings must keep it
                   p384_scalar_from_label(b"pvmc-p384-lz-49")]
        p384 = [{"d": "%096x" % d, "pk": P.p384_public_compressed(d).hex()} for d in scalars]
        prefixes = {k["pk"][:2] for k in p384}
        if prefixes == {"02", "03"}:
            break
        last_label += b"'"
    assert last_label == b"pvmc-p384-5", "label had to be changed: update the docstring"
    assert p384[2]["pk"] == OFFICIAL_P384_PK, "official P-384 public key not reproduced"
    assert len({k["pk"] for k in p384}) == 7
    assert p384[6]["pk"][2:4] == "00", "the leading-zero key lost its leading zero"
    # -G has the same x as G and the opposite parity
    assert p384[0]["pk"][2:] == p384[1]["pk"][2:] and p384[0]["pk"][:2] != p384[1]["pk"][:2]
    for k in p384:
        x, y = P.p384_decompress(bytes.fromhex(k["pk"]))
        assert P._p384_on_curve(x, y)

    with open(OUT, "w") as fh:
        json.dump({"ed25519": ed, "p384": p384}, fh, indent=1)
        fh.write("\n")
    print("wrote %s: %d ed25519, %d p384 (prefixes %s)" %
          (OUT, len(ed), len(p384), ",".join(k["pk"][:2] for k in p384)))


if __name__ == "__main__":
    main()
