#!/usr/bin/env python3
"""p384_recover.py <in.json> <out.json>  -- wrong keys that are *mathematically related* to a v3.public token.

From an ECDSA signature (r, s) over a digest z, public-key recovery yields the keys Q = r^-1 (s R - z G) for
the points R with x-coordinate r. PASETO v3.public binds the signer's compressed public key into the
pre-authentication encoding precisely so that no other key verifies the same token. For every input token
this script returns every recoverable key other than the signer's, computing z both as the specification
does (public key bound into the PAE) and as an implementation that forgot the binding would. None of them
may be accepted by a correct verifier.
in : [{"token", "pk" (hex, 49 bytes), "footer" (text or null), "assertion" (text or null)}, ...]
out: [{"candidates": [hex49, ...]}, ...]   (same order)
"""
import hashlib, json, os, sys

HERE = os.path.dirname(os.path.abspath(__file__))
sys.path.insert(0, HERE)
import paseto_spec as S  # noqa: E402
import prim as P         # noqa: E402


def recover(r, s, z):
    out = []
    n, p = P.P384_N, P.P384_P
    x = r
    if x >= p:
        return out
    rhs = (x * x * x - 3 * x + P.P384_B) % p
    y = pow(rhs, (p + 1) // 4, p)
    if y * y % p != rhs:
        return out
    rinv = pow(r, -1, n)
    for yy in (y, p - y):
        sR = P._p384_mul(s % n, (x, yy))
        zG = P._p384_base_mul((-z) % n)
        q = P._p384_to_affine(P._p384_jadd(sR, zG))
        if q is None:
            continue
        Q = P._p384_to_affine(P._p384_mul(rinv, q))
        if Q is None:
            continue
        out.append(bytes([2 + (Q[1] & 1)]) + Q[0].to_bytes(48, "big"))
    return out


def main():
    cases = json.load(open(sys.argv[1]))
    res = []
    for c in cases:
        cands = []
        try:
            pk = bytes.fromhex(c["pk"])
            f = (c.get("footer") or "").encode()
            i = (c.get("assertion") or "").encode()
            segs = c["token"].split(".")
            body = S.b64u_dec(segs[2])
            m, sig = body[:-96], body[-96:]
            r, s = int.from_bytes(sig[:48], "big"), int.from_bytes(sig[48:], "big")
            h = S.V3_PUBLIC.encode()
            for pieces in ([pk, h, m, f, i], [h, m, f, i]):
                z = int.from_bytes(hashlib.sha384(S.pae(pieces)).digest(), "big")
                for q in recover(r, s, z):
                    if q != pk and q.hex() not in cands:
                        cands.append(q.hex())
        except Exception as e:  # malformed case: no candidates
            cands = []
        res.append({"candidates": cands})
    json.dump(res, open(sys.argv[2], "w"))
    print("P384-RECOVER cases=%d candidates=%d" % (len(res), sum(len(r["candidates"]) for r in res)))


if __name__ == "__main__":
    main()
