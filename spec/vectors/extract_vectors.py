#!/usr/bin/env python3
"""
extract_vectors.py -- AUTHORING-TIME tool, not run by any check.

Reads the official PASETO test vectors that are embedded as Rust literals in
/repo/tests/version{1..4}_test_vectors.rs and writes them as pure data to
/verif/spec/vectors/v{1..4}.json.  Only literals (hex keys, nonces, JSON payloads, footers,
implicit assertions, expected tokens) are taken; no code of the crate is used.  Commented-out
lines (// ...) are ignored, cfg-gated tests are included regardless of the gate.

The extraction is self-validating: selftest.py recomputes every token from the extracted
inputs and compares byte for byte, so a mis-extraction shows up as a self-test failure.

Usage:  python3 extract_vectors.py [repo_tests_dir] [out_dir]
"""
import json
import os
import re
import sys

TESTS = sys.argv[1] if len(sys.argv) > 1 else "/repo/tests"
OUT = sys.argv[2] if len(sys.argv) > 2 else os.path.dirname(os.path.abspath(__file__))


def strip_line_comments(src):
    """Remove // comments, respecting double-quoted string literals."""
    out = []
    for line in src.split("\n"):
        res, in_str, j = [], False, 0
        while j < len(line):
            ch = line[j]
            if in_str:
                res.append(ch)
                if ch == "\\" and j + 1 < len(line):
                    res.append(line[j + 1]); j += 1
                elif ch == '"':
                    in_str = False
            else:
                if ch == '"':
                    in_str = True; res.append(ch)
                elif ch == "/" and line[j:j + 2] == "//":
                    break
                else:
                    res.append(ch)
            j += 1
        out.append("".join(res))
    return "\n".join(out)


def rust_unescape(s):
    return s.replace('\\"', '"').replace("\\\\", "\\")


STR = r'"((?:[^"\\]|\\.)*)"'


def json_macro(text):
    """json!({...}).to_string() as serde_json prints it: compact, keys sorted (serde_json's
    default Map is a BTreeMap; /repo does not enable preserve_order)."""
    return json.dumps(json.loads(text), separators=(",", ":"), sort_keys=True, ensure_ascii=False)


def text_value(block, names):
    """Value of `let <name> = json!(..)...` | `<Type>::from("..")` | `<Type>::default()`."""
    for name in names:
        m = re.search(r"let %s = json!\((\{.*?\})\)\s*\.to_string\(\)" % name, block, re.S)
        if m:
            return json_macro(m.group(1))
        m = re.search(r"let %s = \w+::from\(%s\)" % (name, STR), block)
        if m:
            return rust_unescape(m.group(1))
        m = re.search(r"let %s = \w+::default\(\)" % name, block)
        if m:
            return ""
    return None


def extract(version):
    path = os.path.join(TESTS, "version%d_test_vectors.rs" % version)
    src = strip_line_comments(open(path, encoding="utf-8").read())
    heads = list(re.finditer(r"fn (test_(\d)_([esf])_(\d+))\(\)", src))
    vectors, absent = [], []
    for idx, hm in enumerate(heads):
        block = src[hm.end():heads[idx + 1].start() if idx + 1 < len(heads) else len(src)]
        before = src[heads[idx - 1].end() if idx else 0:hm.start()]
        cfgs = re.findall(r"#\[cfg\((.*)\)\]", before)
        name = "%s-%s-%s" % (hm.group(2), hm.group(3).upper(), hm.group(4))
        kind = hm.group(3)
        if 'panic!("non-compileable test")' in block:
            absent.append({"name": name, "reason": "no data in the Rust file (test body is a "
                           "placeholder: 'prevented at compile time')"})
            continue
        rec = {"name": name, "rust_fn": hm.group(1), "cfg": cfgs[-1] if cfgs else None,
               "expect_fail": kind == "f"}
        m = re.search(r"PasetoSymmetricKey::<V\d, Local>::from\(Key::<32>::try_from\(\s*%s" % STR, block)
        sym = m.group(1) if m else None
        m = re.search(r"let nonce = Key::<\d+>::try_from\(%s\)" % STR, block)
        rec["nonce"] = m.group(1) if m else None
        m = re.search(r"let private_key = Key::<\d+>::try_from\(\s*%s" % STR, block)
        priv = m.group(1) if m else None
        if priv is None and "v1_public_test_vectors_private_key.pk8" in block:
            priv = "rsa0"      # /verif/fixtures/rsa0.* is this very key
        m = re.search(r"let public_key = Key::<\d+>::try_from\(\s*%s" % STR, block)
        rec["public_key"] = m.group(1) if m else None
        rec["purpose"] = "local" if sym is not None else "public"
        rec["key"] = sym if sym is not None else priv
        m = re.search(r"let payload = json!\((\{.*?\})\)\s*\.to_string\(\)", block, re.S)
        rec["payload"] = json_macro(m.group(1)) if m else None
        footer = text_value(block, ["footer"])
        rec["footer"] = footer if footer is not None else ""
        ia = text_value(block, ["implicit_assertion", "assertion"])
        rec["implicit_assertion"] = ia if ia is not None else ""
        m = (re.search(r"let test_token\s*=\s*%s" % STR, block)
             or re.search(r"assert_(?:eq|ne)!\(token(?:\.to_string\(\))?,\s*%s" % STR, block))
        rec["token"] = m.group(1) if m else None
        vectors.append(rec)
    return {"version": version,
            "source": "literals of /repo/tests/version%d_test_vectors.rs (official PASETO test "
                      "vectors as embedded there)" % version,
            "vectors": vectors, "absent": absent}


if __name__ == "__main__":
    for v in (1, 2, 3, 4):
        data = extract(v)
        with open(os.path.join(OUT, "v%d.json" % v), "w", encoding="utf-8") as fh:
            json.dump(data, fh, indent=1, ensure_ascii=False)
            fh.write("\n")
        print("v%d: %d vectors with data, %d without" % (v, len(data["vectors"]), len(data["absent"])))
