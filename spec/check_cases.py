#!/usr/bin/env python3
"""
check_cases.py -- compare tokens made by the library under test with the reference model R1.

    python3 check_cases.py <in.jsonl> <out.jsonl> [--procs 16]

Input: one JSON object per line
    {"id": int, "proto": "v1.local" | ... | "v4.public",
     "key": hex, "pk": hex|null, "seed": hex|null,
     "msg": hex, "footer": hex|null, "assertion": hex|null, "footer_set": bool, "token": str}
  local  : key = 32-byte symmetric key, seed = the nonce seed handed to the library
           (v1: b with n = HMAC-SHA384(key=b, m)[:32]; v2: b with n = BLAKE2b(m, key=b, 24);
            v3/v4: the 32-byte nonce itself)
  v2/v4.public : key = 32-byte Ed25519 seed, pk = 32-byte public key
  v3.public    : key = 48-byte scalar, pk = 49-byte compressed point
  v1.public    : key = name of the RSA fixture in /verif/fixtures/rsa.json ("rsa0", ...), pk = null
  footer / assertion null = none set (treated as empty); footer_set tells whether the caller set
  a footer at all (possibly the empty string).  v1/v2 have no implicit assertion: the field is
  ignored for them.

Output: one line per input line, in any order
    {"id": ..., "ok": bool, "why": str, "ref_token": str}
  local : ok iff token == R1's token byte for byte AND R1's decrypt of token returns msg.
          ref_token = R1's token.
  public: ok iff the token text is exactly format_token(header, msg || sig, footer) for the
          signature bytes found in it (canonical unpadded base64url, message in clear before the
          signature, footer segment present iff the footer is non-empty) AND R1's verify under
          pk / footer / assertion returns msg AND pk is what R1 derives from key;
          v2/v4 (deterministic Ed25519) additionally: byte identity with R1's own token.
          ref_token = a token signed by R1 for the same inputs (v2/v4: RFC 8032; v3: RFC 6979;
          v1: PSS salt = sha384("pvmc-salt" || str(id))), to be fed back to the library's verifier.
  ref_token is "" when R1 could not build one (malformed case record); ok is then false.

Never crashes on a malformed token or record: reports ok=false with the reason.
Prints  SPEC-CHECK cases=<n> ok=<k> bad=<n-k> wall=<s>  and exits 0; exit 2 only if the input
cannot be read / the output cannot be written.
"""
import hashlib
import json
import multiprocessing
import os
import sys
import time

HERE = os.path.dirname(os.path.abspath(__file__))
sys.path.insert(0, HERE)
import prim as P           # noqa: E402
import paseto_spec as S    # noqa: E402

FIXTURES = os.path.join(os.path.dirname(HERE), "fixtures")

LOCAL = {
    # proto: (header, encrypt, decrypt, has_assertion, nonce_len_in_body, tag_len)
    "v1.local": (S.V1_LOCAL, S.v1_local_encrypt, S.v1_local_decrypt, False, 32, 48),
    "v2.local": (S.V2_LOCAL, S.v2_local_encrypt, S.v2_local_decrypt, False, 24, 16),
    "v3.local": (S.V3_LOCAL, S.v3_local_encrypt, S.v3_local_decrypt, True, 32, 48),
    "v4.local": (S.V4_LOCAL, S.v4_local_encrypt, S.v4_local_decrypt, True, 32, 32),
}
PUBLIC = {
    # proto: (header, sign, verify, has_assertion, signature_len)
    "v1.public": (S.V1_PUBLIC, S.v1_public_sign, S.v1_public_verify, False, 256),
    "v2.public": (S.V2_PUBLIC, S.v2_public_sign, S.v2_public_verify, False, 64),
    "v3.public": (S.V3_PUBLIC, S.v3_public_sign, S.v3_public_verify, True, 96),
    "v4.public": (S.V4_PUBLIC, S.v4_public_sign, S.v4_public_verify, True, 64),
}

_RSA = None


def rsa_fixture(name):
    global _RSA
    if _RSA is None:
        with open(os.path.join(FIXTURES, "rsa.json")) as fh:
            raw = json.load(fh)
        _RSA = {k: {f: int(v[f], 16) for f in ("n", "e", "d", "p", "q")} for k, v in raw.items()}
    if name not in _RSA:
        raise ValueError("unknown RSA fixture %r" % (name,))
    return _RSA[name]


def unhex(rec, field, optional=False):
    v = rec.get(field)
    if v is None:
        if optional:
            return b""
        raise ValueError("case record: field %r is missing/null" % field)
    if not isinstance(v, str):
        raise ValueError("case record: field %r is not a hex string" % field)
    try:
        return bytes.fromhex(v)
    except ValueError:
        raise ValueError("case record: field %r is not valid hex" % field)


def lenient_b64(s):
    """Decode for diagnostics only (never for the verdict)."""
    import base64
    try:
        return base64.urlsafe_b64decode(s.rstrip("=") + "=" * (-len(s.rstrip("=")) % 4))
    except Exception:      # noqa: BLE001
        return None


def describe_local_diff(proto, token, ref, footer, footer_set):
    """Human-readable location of the first difference between the library's and R1's token."""
    header, _, _, _, nlen, tlen = LOCAL[proto]
    if not token.startswith(header):
        return "header is not %r" % header
    tsegs, rsegs = token[len(header):].split("."), ref[len(header):].split(".")
    if len(tsegs) != len(rsegs):
        if len(tsegs) == 2 and tsegs[1] == "" and len(footer) == 0:
            return ("empty footer segment emitted (trailing '.') for an empty footer (footer_set=%s); "
                    "the spec appends '.'+footer only if the footer is non-empty" % footer_set)
        return "token has %d segment(s) after the header, R1's has %d (footer %d bytes, footer_set=%s)" % (
            len(tsegs), len(rsegs), len(footer), footer_set)
    if len(tsegs) == 2 and tsegs[1] != rsegs[1]:
        return "footer segment differs from base64url(footer)"
    tb, rb = lenient_b64(tsegs[0]), lenient_b64(rsegs[0])
    if tb is None:
        return "payload segment is not base64url"
    if tb == rb:
        return "payload bytes equal but base64url text differs (padding / non-canonical encoding)"
    if len(tb) != len(rb):
        return "payload is %d bytes, R1's is %d bytes" % (len(tb), len(rb))
    if tb[:nlen] != rb[:nlen]:
        return "nonce differs (library %s.., R1 %s..): nonce derivation from the seed" % (tb[:nlen].hex()[:16], rb[:nlen].hex()[:16])
    if tb[nlen:-tlen] != rb[nlen:-tlen]:
        return "nonce equal, ciphertext differs: key derivation / cipher"
    return "nonce and ciphertext equal, tag differs: auth key derivation / PAE / MAC"


def check_local(rec, proto):
    header, encrypt, decrypt, has_i, _, _ = LOCAL[proto]
    key = unhex(rec, "key")
    seed = unhex(rec, "seed")
    msg = unhex(rec, "msg")
    footer = unhex(rec, "footer", optional=True)
    extra = (unhex(rec, "assertion", optional=True),) if has_i else ()
    token = rec.get("token")
    ref = encrypt(key, seed, msg, footer, *extra)          # ValueError here = bad case record
    why = []
    if not isinstance(token, str):
        return False, "token is not a string: %r" % (token,), ref
    if token != ref:
        why.append("token != R1: " + describe_local_diff(proto, token, ref, footer, bool(rec.get("footer_set"))))
    try:
        got = decrypt(key, token, footer, *extra)
        if got != msg:
            why.append("R1 decrypt(token) returned a different message (%d bytes, expected %d)" % (len(got), len(msg)))
    except ValueError as e:
        why.append("R1 decrypt(token) failed: %s" % e)
    return (not why), "; ".join(why), ref


def check_public(rec, proto):
    header, sign, verify, has_i, siglen = PUBLIC[proto]
    msg = unhex(rec, "msg")
    footer = unhex(rec, "footer", optional=True)
    extra = (unhex(rec, "assertion", optional=True),) if has_i else ()
    token = rec.get("token")
    why = []

    # --- keys, and R1's own token for the same inputs ------------------------------------
    if proto == "v1.public":
        rsa = rsa_fixture(rec.get("key"))
        sk = vk = rsa
        salt = hashlib.sha384(b"pvmc-salt" + str(rec.get("id")).encode()).digest()
        ref = sign(rsa, msg, footer, salt=salt)
    else:
        sk = unhex(rec, "key")
        if proto == "v3.public":
            derived = P.p384_public_compressed(sk)
        else:
            if len(sk) != 32:
                raise ValueError("case record: Ed25519 seed must be 32 bytes")
            derived = P.ed25519_public(sk)
        if rec.get("pk") is None:
            vk = derived
        else:
            vk = unhex(rec, "pk")
            if vk != derived:
                why.append("pk differs from R1's derivation from key (R1: %s)" % derived.hex())
        ref = sign(sk, msg, footer, *extra)

    if not isinstance(token, str):
        return False, "token is not a string: %r" % (token,), ref

    # --- textual shape: exactly format_token(header, msg || sig, footer) -------------------
    shape_ok = False
    if not token.startswith(header):
        why.append("header is not %r" % header)
    else:
        segs = token[len(header):].split(".")
        try:
            body = S.b64u_dec(segs[0])
        except ValueError as e:
            body = None
            why.append("payload segment: %s" % e)
        if body is not None:
            if len(body) < siglen:
                why.append("payload (%d bytes) shorter than a signature (%d)" % (len(body), siglen))
            elif body[:-siglen] != msg:
                why.append("payload does not start with the message bytes in clear")
            else:
                expect = S.format_token(header, msg + body[-siglen:], footer)
                if token == expect:
                    shape_ok = True
                elif len(segs) == 2 and segs[1] == "" and len(footer) == 0:
                    why.append("empty footer segment emitted (trailing '.') for an empty footer (footer_set=%s)"
                               % bool(rec.get("footer_set")))
                elif len(segs) == 1 and len(footer) > 0:
                    why.append("footer segment missing although the footer is non-empty")
                else:
                    why.append("token text is not header||b64u(msg||sig)[.b64u(footer)] (%d segments, footer %d bytes)"
                               % (len(segs), len(footer)))

    # --- R1's verifier ------------------------------------------------------------------------
    try:
        got = verify(vk, token, footer, *extra)
        if got != msg:
            why.append("R1 verify(token) returned a different message")
    except ValueError as e:
        why.append("R1 verify(token) failed: %s" % e)

    # --- deterministic schemes: byte identity ------------------------------------------------
    if proto in ("v2.public", "v4.public") and token != ref:
        why.append("token != R1's Ed25519 (RFC 8032, deterministic) token")

    return (shape_ok and not why), "; ".join(why), ref


def check_record(rec):
    """Returns the output object for one parsed case record."""
    rid = rec.get("id") if isinstance(rec, dict) else None
    out = {"id": rid, "ok": False, "why": "", "ref_token": ""}
    try:
        if not isinstance(rec, dict):
            raise ValueError("case record is not a JSON object")
        proto = rec.get("proto")
        if proto in LOCAL:
            ok, why, ref = check_local(rec, proto)
        elif proto in PUBLIC:
            ok, why, ref = check_public(rec, proto)
        else:
            raise ValueError("unknown proto %r" % (proto,))
        out["ok"], out["why"], out["ref_token"] = bool(ok), why, ref
    except ValueError as e:
        out["why"] = "bad case record: %s" % e
    except Exception as e:                      # noqa: BLE001  (never crash; report)
        out["why"] = "internal error in R1: %s: %s" % (type(e).__name__, e)
    return out


def check_line(numbered_line):
    lineno, line = numbered_line
    try:
        rec = json.loads(line)
    except ValueError as e:
        return {"id": None, "line": lineno, "ok": False, "why": "line %d is not JSON: %s" % (lineno, e), "ref_token": ""}
    return check_record(rec)


def check_chunk(chunk):
    outs = [check_line(x) for x in chunk]
    return [json.dumps(o, separators=(",", ":")) for o in outs], sum(1 for o in outs if o["ok"])


def main(argv):
    args = [a for a in argv[1:]]
    procs = 16
    if "--procs" in args:
        i = args.index("--procs")
        try:
            procs = max(1, int(args[i + 1]))
        except (IndexError, ValueError):
            print("usage: check_cases.py <in.jsonl> <out.jsonl> [--procs 16]", file=sys.stderr)
            return 2
        del args[i:i + 2]
    if len(args) != 2:
        print("usage: check_cases.py <in.jsonl> <out.jsonl> [--procs 16]", file=sys.stderr)
        return 2
    t0 = time.time()
    try:
        with open(args[0], "r", encoding="utf-8") as fh:
            lines = [(n, ln) for n, ln in enumerate(fh, 1) if ln.strip()]
    except (OSError, UnicodeError) as e:
        print("SPEC-CHECK cannot read %s: %s" % (args[0], e), file=sys.stderr)
        return 2
    n = len(lines)
    # small chunks + imap_unordered: case costs differ by three orders of magnitude
    # (a 64 KiB message or an RSA signature vs a 20-byte v4.local token)
    csize = max(1, min(64, n // (procs * 8) if procs > 1 else n))
    chunks = [lines[i:i + csize] for i in range(0, n, csize)]
    n_ok = 0
    try:
        with open(args[1], "w", encoding="utf-8") as out:
            if procs == 1 or n < 32:
                results = map(check_chunk, chunks)
                for texts, k in results:
                    n_ok += k
                    out.write("".join(t + "\n" for t in texts))
            else:
                with multiprocessing.Pool(procs) as pool:
                    for texts, k in pool.imap_unordered(check_chunk, chunks):
                        n_ok += k
                        out.write("".join(t + "\n" for t in texts))
    except OSError as e:
        print("SPEC-CHECK cannot write %s: %s" % (args[1], e), file=sys.stderr)
        return 2
    print("SPEC-CHECK cases=%d ok=%d bad=%d wall=%.2f" % (n, n_ok, n - n_ok, time.time() - t0))
    return 0


if __name__ == "__main__":
    sys.exit(main(sys.argv))
