#!/usr/bin/env python3
"""hybrid_tokens.py <out.json>  -- adversarial inputs for C07 that only another implementation produces.

For every protocol Y and every *other* protocol's header X, build a token with Y's algorithm, Y's key and
Y's payload layout, but with X's header both as the token's textual header and as the header piece of the
pre-authentication encoding (a self-consistent token of a non-existent protocol "X header, Y algorithm").
Y's entry points must refuse it: the header names X. (An implementation that derives the PAE header from
the token text instead of from the protocol it implements would accept it.)
Keys are the first entry of each pool the Rust harness uses (fixtures/keys.json, fixtures/rsa.json).
"""
import hashlib, json, os, sys

HERE = os.path.dirname(os.path.abspath(__file__))
sys.path.insert(0, HERE)
import paseto_spec as S  # noqa: E402
import prim as P         # noqa: E402

FIX = os.path.join(os.path.dirname(HERE), "fixtures")
keys = json.load(open(os.path.join(FIX, "keys.json")))
rsa = {k: {f: int(v, 16) for f, v in d.items()} for k, d in json.load(open(os.path.join(FIX, "rsa.json"))).items()}

SYM = bytes.fromhex("707172737475767778797a7b7c7d7e7f808182838485868788898a8b8c8d8e8f")
NONCE = bytes.fromhex("26f7553354482a1d91d4784627854b8da6b8042a7966523c2b404e8dbbe7f7f2")
ED_SEED = bytes.fromhex(keys["ed25519"][0]["seed"])
P384_D = bytes.fromhex(keys["p384"][0]["d"])
MSG = '{"data":"hybrid é"}'.encode()

ALGOS = {
    "v1.local": ("V1_LOCAL", lambda f: S.v1_local_encrypt(SYM, NONCE, MSG, f)),
    "v2.local": ("V2_LOCAL", lambda f: S.v2_local_encrypt(SYM, NONCE[:24], MSG, f)),
    "v3.local": ("V3_LOCAL", lambda f: S.v3_local_encrypt(SYM, NONCE, MSG, f, b"")),
    "v4.local": ("V4_LOCAL", lambda f: S.v4_local_encrypt(SYM, NONCE, MSG, f, b"")),
    "v1.public": ("V1_PUBLIC", lambda f: S.v1_public_sign(rsa["rsa0"], MSG, f, salt=hashlib.sha384(b"hybrid").digest())),
    "v2.public": ("V2_PUBLIC", lambda f: S.v2_public_sign(ED_SEED, MSG, f)),
    "v3.public": ("V3_PUBLIC", lambda f: S.v3_public_sign(P384_D, MSG, f, b"")),
    "v4.public": ("V4_PUBLIC", lambda f: S.v4_public_sign(ED_SEED, MSG, f, b"")),
}
HEADERS = {name: name + "." for name in ALGOS}


def main():
    out = []
    for algo, (const, make) in ALGOS.items():
        own = getattr(S, const)
        # control: the genuine token of Y (header Y)
        for footer in (b"", b"f"):
            out.append({"algo": algo, "header": own, "footer": footer.decode() or None, "token": make(footer), "msg": MSG.decode(), "genuine": True})
        for other, hdr in HEADERS.items():
            if other == algo:
                continue
            setattr(S, const, hdr)
            try:
                for footer in (b"", b"f"):
                    out.append({"algo": algo, "header": hdr, "footer": footer.decode() or None, "token": make(footer), "msg": MSG.decode(), "genuine": False})
            finally:
                setattr(S, const, own)
    json.dump(out, open(sys.argv[1], "w"))
    print("HYBRID-TOKENS %d" % len(out))


if __name__ == "__main__":
    main()
