"""
prim.py -- cryptographic primitives for the PASETO reference model R1.

Pure Python over ints/bytes.  Only the standard library is used: hashlib (SHA-2,
BLAKE2b), hmac, struct.  Nothing here shares code with the Rust crate under test
or with any of its dependencies.

Every primitive is pinned by known-answer tests in selftest.py (FIPS-197, RFC 8439,
draft-irtf-cfrg-xchacha, RFC 8032, RFC 6979) and was cross-checked against the
openssl CLI at authoring time (crosscheck_openssl.py, optional).

Contents
  hkdf_sha384                                   RFC 5869
  aes256_expand_key / aes256_encrypt_block / aes256_ctr     FIPS-197, SP 800-38A
  hchacha20 / chacha20_block / chacha20_xor / xchacha20_xor RFC 8439, draft-irtf-cfrg-xchacha
  poly1305                                      RFC 8439 s2.5
  xchacha20poly1305_encrypt / _decrypt          RFC 8439 s2.8 + XChaCha extension (= libsodium
                                                crypto_aead_xchacha20poly1305_ietf)
  ed25519_public / ed25519_sign / ed25519_verify            RFC 8032 s5.1 (pure Ed25519)
  p384_* (ECDSA, SEC1 compression, RFC 6979)    FIPS 186-4, SEC1, RFC 6979
  rsa_pss_sign / rsa_pss_verify                 RFC 8017 s8.1, s9.1 (SHA-384, MGF1-SHA384, sLen 48)
"""

import hashlib
import hmac
import struct
from functools import lru_cache

# =====================================================================================
# HKDF-SHA384 (RFC 5869)
# =====================================================================================

def hkdf_sha384(ikm, salt, info, length):
    """RFC 5869 HKDF with HMAC-SHA384.  Empty/None salt = HashLen (48) zero bytes (s2.2)."""
    hash_len = 48
    if not salt:
        salt = b"\x00" * hash_len
    if length > 255 * hash_len:
        raise ValueError("hkdf: length too large")
    # s2.2 Extract: PRK = HMAC-Hash(salt, IKM)
    prk = hmac.new(salt, ikm, hashlib.sha384).digest()
    # s2.3 Expand: T(i) = HMAC-Hash(PRK, T(i-1) | info | i)
    okm = b""
    t = b""
    i = 0
    while len(okm) < length:
        i += 1
        t = hmac.new(prk, t + info + bytes([i]), hashlib.sha384).digest()
        okm += t
    return okm[:length]


# =====================================================================================
# AES-256 (FIPS-197), encryption direction only (CTR needs nothing else)
# =====================================================================================

def _aes_make_sbox():
    # S-box computed from its definition (multiplicative inverse in GF(2^8) followed by
    # the affine transformation), FIPS-197 s5.1.1.  p runs over all non-zero field
    # elements as powers of 3; q is kept equal to p^-1.
    sbox = [0] * 256
    p = q = 1
    while True:
        # p := p * 3
        p = p ^ ((p << 1) & 0xFF) ^ (0x1B if p & 0x80 else 0)
        # q := q / 3
        q ^= q << 1
        q ^= q << 2
        q ^= q << 4
        q &= 0xFF
        if q & 0x80:
            q ^= 0x09
        # affine transformation
        x = q ^ ((q << 1 | q >> 7) & 0xFF) ^ ((q << 2 | q >> 6) & 0xFF) \
              ^ ((q << 3 | q >> 5) & 0xFF) ^ ((q << 4 | q >> 4) & 0xFF)
        sbox[p] = (x ^ 0x63) & 0xFF
        if p == 1:
            break
    sbox[0] = 0x63
    return sbox


_SBOX = _aes_make_sbox()


def _xtime(a):
    """Multiplication by x (i.e. {02}) in GF(2^8) mod x^8+x^4+x^3+x+1."""
    return ((a << 1) ^ 0x1B) & 0xFF if a & 0x80 else a << 1


def _ror8(w):
    return ((w >> 8) | (w << 24)) & 0xFFFFFFFF


# T-tables: T0[x] = MixColumns column for SubBytes(x) in row 0 = (02.s, s, s, 03.s),
# T1..T3 are byte rotations of it (SubBytes+ShiftRows+MixColumns fused, standard).
_T0 = []
for _x in range(256):
    _s = _SBOX[_x]
    _s2 = _xtime(_s)
    _s3 = _s2 ^ _s
    _T0.append((_s2 << 24) | (_s << 16) | (_s << 8) | _s3)
_T1 = [_ror8(w) for w in _T0]
_T2 = [_ror8(w) for w in _T1]
_T3 = [_ror8(w) for w in _T2]


def _subword(t):
    return (_SBOX[t >> 24] << 24) | (_SBOX[(t >> 16) & 255] << 16) | \
           (_SBOX[(t >> 8) & 255] << 8) | _SBOX[t & 255]


def aes256_expand_key(key):
    """FIPS-197 s5.2 KeyExpansion for Nk=8, Nr=14: returns 60 32-bit words."""
    if len(key) != 32:
        raise ValueError("aes256: key must be 32 bytes")
    w = [int.from_bytes(key[i:i + 4], "big") for i in range(0, 32, 4)]
    rcon = 1
    for i in range(8, 60):
        t = w[i - 1]
        if i % 8 == 0:
            t = ((t << 8) | (t >> 24)) & 0xFFFFFFFF     # RotWord
            t = _subword(t) ^ (rcon << 24)               # SubWord, Rcon
            rcon = _xtime(rcon)
        elif i % 8 == 4:
            t = _subword(t)                              # extra SubWord for Nk > 6
        w.append(w[i - 8] ^ t)
    return w


def _aes256_encrypt_words(w, s0, s1, s2, s3):
    """Encrypt one block given as four big-endian words; returns four words."""
    T0, T1, T2, T3, S = _T0, _T1, _T2, _T3, _SBOX
    s0 ^= w[0]; s1 ^= w[1]; s2 ^= w[2]; s3 ^= w[3]            # AddRoundKey (round 0)
    for r in range(4, 56, 4):                                  # rounds 1..13
        t0 = T0[s0 >> 24] ^ T1[(s1 >> 16) & 255] ^ T2[(s2 >> 8) & 255] ^ T3[s3 & 255] ^ w[r]
        t1 = T0[s1 >> 24] ^ T1[(s2 >> 16) & 255] ^ T2[(s3 >> 8) & 255] ^ T3[s0 & 255] ^ w[r + 1]
        t2 = T0[s2 >> 24] ^ T1[(s3 >> 16) & 255] ^ T2[(s0 >> 8) & 255] ^ T3[s1 & 255] ^ w[r + 2]
        t3 = T0[s3 >> 24] ^ T1[(s0 >> 16) & 255] ^ T2[(s1 >> 8) & 255] ^ T3[s2 & 255] ^ w[r + 3]
        s0, s1, s2, s3 = t0, t1, t2, t3
    # final round 14: SubBytes, ShiftRows, AddRoundKey (no MixColumns)
    o0 = ((S[s0 >> 24] << 24) | (S[(s1 >> 16) & 255] << 16) | (S[(s2 >> 8) & 255] << 8) | S[s3 & 255]) ^ w[56]
    o1 = ((S[s1 >> 24] << 24) | (S[(s2 >> 16) & 255] << 16) | (S[(s3 >> 8) & 255] << 8) | S[s0 & 255]) ^ w[57]
    o2 = ((S[s2 >> 24] << 24) | (S[(s3 >> 16) & 255] << 16) | (S[(s0 >> 8) & 255] << 8) | S[s1 & 255]) ^ w[58]
    o3 = ((S[s3 >> 24] << 24) | (S[(s0 >> 16) & 255] << 16) | (S[(s1 >> 8) & 255] << 8) | S[s2 & 255]) ^ w[59]
    return o0, o1, o2, o3


def aes256_encrypt_block(key, block):
    """AES-256 encryption of one 16-byte block (FIPS-197 Cipher)."""
    if len(block) != 16:
        raise ValueError("aes256: block must be 16 bytes")
    w = aes256_expand_key(key)
    return struct.pack(">4L", *_aes256_encrypt_words(w, *struct.unpack(">4L", block)))


def _xor_bytes(a, b):
    """XOR of two equal-length byte strings."""
    n = len(a)
    return (int.from_bytes(a, "little") ^ int.from_bytes(b, "little")).to_bytes(n, "little")


def aes256_ctr(key, iv, data):
    """AES-256-CTR (SP 800-38A s6.5).  The whole 16-byte IV is the initial counter block
    and is incremented as one 128-bit big-endian integer (mod 2^128), exactly as
    OpenSSL's aes-256-ctr does.  Encryption and decryption are the same operation."""
    if len(iv) != 16:
        raise ValueError("aes256_ctr: iv must be 16 bytes")
    w = aes256_expand_key(key)
    ctr = int.from_bytes(iv, "big")
    nblocks = (len(data) + 15) // 16
    words = []
    for _ in range(nblocks):
        words.extend(_aes256_encrypt_words(
            w, ctr >> 96, (ctr >> 64) & 0xFFFFFFFF, (ctr >> 32) & 0xFFFFFFFF, ctr & 0xFFFFFFFF))
        ctr = (ctr + 1) & ((1 << 128) - 1)
    keystream = struct.pack(">%dL" % (4 * nblocks), *words)
    return _xor_bytes(bytes(data), keystream[:len(data)])


# =====================================================================================
# ChaCha20 / HChaCha20 / XChaCha20 (RFC 8439, draft-irtf-cfrg-xchacha-03)
# =====================================================================================

_CHACHA_CONST = [0x61707865, 0x3320646E, 0x79622D32, 0x6B206574]   # "expand 32-byte k"


def _rotl32(x, n):
    return ((x << n) & 0xFFFFFFFF) | (x >> (32 - n))


def _quarter_round(s, a, b, c, d):
    # RFC 8439 s2.1
    s[a] = (s[a] + s[b]) & 0xFFFFFFFF; s[d] = _rotl32(s[d] ^ s[a], 16)
    s[c] = (s[c] + s[d]) & 0xFFFFFFFF; s[b] = _rotl32(s[b] ^ s[c], 12)
    s[a] = (s[a] + s[b]) & 0xFFFFFFFF; s[d] = _rotl32(s[d] ^ s[a], 8)
    s[c] = (s[c] + s[d]) & 0xFFFFFFFF; s[b] = _rotl32(s[b] ^ s[c], 7)


def _chacha_20_rounds(s):
    # RFC 8439 s2.3: 10 iterations of (4 column rounds, 4 diagonal rounds)
    qr = _quarter_round
    for _ in range(10):
        qr(s, 0, 4, 8, 12); qr(s, 1, 5, 9, 13); qr(s, 2, 6, 10, 14); qr(s, 3, 7, 11, 15)
        qr(s, 0, 5, 10, 15); qr(s, 1, 6, 11, 12); qr(s, 2, 7, 8, 13); qr(s, 3, 4, 9, 14)


def chacha20_block(key, counter, nonce12):
    """RFC 8439 s2.3 block function: 64 bytes of keystream."""
    if len(key) != 32 or len(nonce12) != 12:
        raise ValueError("chacha20: bad key/nonce length")
    init = _CHACHA_CONST + list(struct.unpack("<8L", key)) + [counter & 0xFFFFFFFF] + \
        list(struct.unpack("<3L", nonce12))
    s = init[:]
    _chacha_20_rounds(s)
    return struct.pack("<16L", *[(a + b) & 0xFFFFFFFF for a, b in zip(s, init)])


def chacha20_xor(key, counter, nonce12, data):
    """RFC 8439 s2.4: XOR data with the keystream starting at block `counter`
    (32-bit block counter, IETF variant)."""
    if len(key) != 32 or len(nonce12) != 12:
        raise ValueError("chacha20: bad key/nonce length")
    data = bytes(data)
    nblocks = (len(data) + 63) // 64
    if counter + nblocks > 1 << 32:
        raise ValueError("chacha20: counter overflow")
    k = list(struct.unpack("<8L", key))
    n = list(struct.unpack("<3L", nonce12))
    out = []
    for j in range(nblocks):
        init = _CHACHA_CONST + k + [counter + j] + n
        s = init[:]
        _chacha_20_rounds(s)
        out.extend([(a + b) & 0xFFFFFFFF for a, b in zip(s, init)])
    keystream = struct.pack("<%dL" % (16 * nblocks), *out)
    return _xor_bytes(data, keystream[:len(data)])


def hchacha20(key, nonce16):
    """draft-irtf-cfrg-xchacha s2.2: ChaCha20 rounds on (const, key, nonce16) without the
    final addition; output words 0..3 and 12..15."""
    if len(key) != 32 or len(nonce16) != 16:
        raise ValueError("hchacha20: bad key/nonce length")
    s = _CHACHA_CONST + list(struct.unpack("<8L", key)) + list(struct.unpack("<4L", nonce16))
    _chacha_20_rounds(s)
    return struct.pack("<8L", *(s[0:4] + s[12:16]))


def xchacha20_xor(key, nonce24, data, counter=0):
    """draft-irtf-cfrg-xchacha s2.3: subkey = HChaCha20(key, nonce[0:16]);
    ChaCha20 with nonce = 00 00 00 00 || nonce[16:24]."""
    if len(nonce24) != 24:
        raise ValueError("xchacha20: nonce must be 24 bytes")
    subkey = hchacha20(key, nonce24[:16])
    return chacha20_xor(subkey, counter, b"\x00\x00\x00\x00" + nonce24[16:24], data)


# =====================================================================================
# Poly1305 (RFC 8439 s2.5) and the AEAD construction (s2.8) with XChaCha20
# =====================================================================================

def poly1305(key, msg):
    """RFC 8439 s2.5.1.  key = r (16 bytes, clamped here) || s (16 bytes)."""
    if len(key) != 32:
        raise ValueError("poly1305: key must be 32 bytes")
    r = int.from_bytes(key[:16], "little") & 0x0FFFFFFC0FFFFFFC0FFFFFFC0FFFFFFF
    s = int.from_bytes(key[16:], "little")
    p = (1 << 130) - 5
    acc = 0
    msg = bytes(msg)
    for i in range(0, len(msg), 16):
        block = msg[i:i + 16]
        n = int.from_bytes(block, "little") + (1 << (8 * len(block)))   # append the 0x01 byte
        acc = ((acc + n) * r) % p
    acc = (acc + s) & ((1 << 128) - 1)
    return acc.to_bytes(16, "little")


def _pad16(x):
    return b"\x00" * (-len(x) % 16)


def _aead_mac_data(aad, ct):
    # RFC 8439 s2.8: aad || pad16(aad) || ct || pad16(ct) || le64(len aad) || le64(len ct)
    return aad + _pad16(aad) + ct + _pad16(ct) + struct.pack("<Q", len(aad)) + struct.pack("<Q", len(ct))


def _xchacha_aead_keys(key, nonce24):
    if len(key) != 32 or len(nonce24) != 24:
        raise ValueError("xchacha20poly1305: bad key/nonce length")
    subkey = hchacha20(key, nonce24[:16])
    nonce12 = b"\x00\x00\x00\x00" + nonce24[16:24]
    # RFC 8439 s2.6: one-time Poly1305 key = first 32 bytes of the block with counter 0
    otk = chacha20_block(subkey, 0, nonce12)[:32]
    return subkey, nonce12, otk


def xchacha20poly1305_encrypt(key, nonce24, plaintext, aad):
    """XChaCha20-Poly1305-IETF AEAD: returns ciphertext || tag(16)."""
    subkey, nonce12, otk = _xchacha_aead_keys(key, nonce24)
    ct = chacha20_xor(subkey, 1, nonce12, plaintext)          # encryption starts at counter 1
    tag = poly1305(otk, _aead_mac_data(bytes(aad), ct))
    return ct + tag


def xchacha20poly1305_decrypt(key, nonce24, ciphertext_and_tag, aad):
    """Inverse of xchacha20poly1305_encrypt; raises ValueError on authentication failure."""
    if len(ciphertext_and_tag) < 16:
        raise ValueError("xchacha20poly1305: ciphertext too short")
    subkey, nonce12, otk = _xchacha_aead_keys(key, nonce24)
    ct, tag = bytes(ciphertext_and_tag[:-16]), bytes(ciphertext_and_tag[-16:])
    expect = poly1305(otk, _aead_mac_data(bytes(aad), ct))
    if not hmac.compare_digest(expect, tag):
        raise ValueError("xchacha20poly1305: invalid tag")
    return chacha20_xor(subkey, 1, nonce12, ct)


# =====================================================================================
# Ed25519 (RFC 8032 s5.1, "pure" Ed25519, SHA-512)
# =====================================================================================

_ED_P = 2 ** 255 - 19
_ED_L = 2 ** 252 + 27742317777372353535851937790883648493
_ED_D = (-121665 * pow(121666, -1, _ED_P)) % _ED_P
_ED_SQRT_M1 = pow(2, (_ED_P - 1) // 4, _ED_P)

# Points are in extended homogeneous coordinates (X, Y, Z, T), x = X/Z, y = Y/Z, xy = T/Z.
_ED_IDENT = (0, 1, 1, 0)


def _ed_add(P, Q):
    # RFC 8032 s5.1.4 (complete addition law for a = -1)
    X1, Y1, Z1, T1 = P
    X2, Y2, Z2, T2 = Q
    p = _ED_P
    A = (Y1 - X1) * (Y2 - X2) % p
    B = (Y1 + X1) * (Y2 + X2) % p
    C = T1 * 2 * _ED_D * T2 % p
    D = Z1 * 2 * Z2 % p
    E = B - A
    F = D - C
    G = D + C
    H = B + A
    return (E * F % p, G * H % p, F * G % p, E * H % p)


def _ed_double(P):
    # RFC 8032 s5.1.4 doubling formulas
    X1, Y1, Z1, _ = P
    p = _ED_P
    A = X1 * X1 % p
    B = Y1 * Y1 % p
    C = 2 * Z1 * Z1 % p
    H = A + B
    E = H - (X1 + Y1) * (X1 + Y1) % p
    G = A - B
    F = C + G
    return (E * F % p, G * H % p, F * G % p, E * H % p)


def _ed_equal(P, Q):
    # x1/z1 == x2/z2 and y1/z1 == y2/z2
    if (P[0] * Q[2] - Q[0] * P[2]) % _ED_P != 0:
        return False
    if (P[1] * Q[2] - Q[1] * P[2]) % _ED_P != 0:
        return False
    return True


def _ed_recover_x(y, sign):
    # RFC 8032 s5.1.3 decoding
    p = _ED_P
    if y >= p:
        return None
    x2 = (y * y - 1) * pow(_ED_D * y * y + 1, -1, p) % p
    if x2 == 0:
        return None if sign else 0
    x = pow(x2, (p + 3) // 8, p)
    if (x * x - x2) % p != 0:
        x = x * _ED_SQRT_M1 % p
    if (x * x - x2) % p != 0:
        return None
    if (x & 1) != sign:
        x = p - x
    return x


_ED_BY = 4 * pow(5, -1, _ED_P) % _ED_P
_ED_BX = _ed_recover_x(_ED_BY, 0)
_ED_B = (_ED_BX, _ED_BY, 1, _ED_BX * _ED_BY % _ED_P)


def _ed_compress(P):
    zinv = pow(P[2], -1, _ED_P)
    x = P[0] * zinv % _ED_P
    y = P[1] * zinv % _ED_P
    return (y | ((x & 1) << 255)).to_bytes(32, "little")


def _ed_decompress(s):
    if len(s) != 32:
        return None
    y = int.from_bytes(s, "little")
    sign = y >> 255
    y &= (1 << 255) - 1
    x = _ed_recover_x(y, sign)
    if x is None:
        return None
    return (x, y, 1, x * y % _ED_P)


def _ed_mul(k, P):
    """Variable-base scalar multiplication, plain left-to-right double-and-add."""
    Q = _ED_IDENT
    for i in reversed(range(k.bit_length())):
        Q = _ed_double(Q)
        if (k >> i) & 1:
            Q = _ed_add(Q, P)
    return Q


# Fixed-base table: _ED_B_POW[i] = 2^i * B, so k*B is a sum over the set bits of k.
_ED_B_POW = []
_q = _ED_B
for _i in range(256):
    _ED_B_POW.append(_q)
    _q = _ed_double(_q)


def _ed_base_mul(k):
    Q = _ED_IDENT
    i = 0
    while k:
        if k & 1:
            Q = _ed_add(Q, _ED_B_POW[i])
        k >>= 1
        i += 1
    return Q


@lru_cache(maxsize=256)
def _ed_expand(seed):
    # RFC 8032 s5.1.5: h = SHA-512(seed); a = clamp(h[0:32]); prefix = h[32:64]; A = a*B
    if len(seed) != 32:
        raise ValueError("ed25519: seed must be 32 bytes")
    h = hashlib.sha512(seed).digest()
    a = int.from_bytes(h[:32], "little")
    a &= (1 << 254) - 8
    a |= 1 << 254
    A = _ed_compress(_ed_base_mul(a))
    return a, h[32:], A


def ed25519_public(seed):
    """RFC 8032 s5.1.5: 32-byte public key for a 32-byte private key (seed)."""
    return _ed_expand(bytes(seed))[2]


def ed25519_sign(seed, msg):
    """RFC 8032 s5.1.6: 64-byte signature R || S."""
    a, prefix, A = _ed_expand(bytes(seed))
    msg = bytes(msg)
    r = int.from_bytes(hashlib.sha512(prefix + msg).digest(), "little") % _ED_L
    Rs = _ed_compress(_ed_base_mul(r))
    k = int.from_bytes(hashlib.sha512(Rs + A + msg).digest(), "little") % _ED_L
    S = (r + k * a) % _ED_L
    return Rs + S.to_bytes(32, "little")


@lru_cache(maxsize=256)
def _ed_decompress_cached(pk):
    return _ed_decompress(pk)


def ed25519_verify(pk, msg, sig):
    """RFC 8032 s5.1.7.  Returns True/False.  Rejects S >= L (non-canonical S), undecodable
    A or R; uses the cofactorless equation [S]B = R + [k]A."""
    pk, msg, sig = bytes(pk), bytes(msg), bytes(sig)
    if len(pk) != 32 or len(sig) != 64:
        return False
    A = _ed_decompress_cached(pk)
    if A is None:
        return False
    Rs = sig[:32]
    R = _ed_decompress(Rs)
    if R is None:
        return False
    S = int.from_bytes(sig[32:], "little")
    if S >= _ED_L:
        return False
    k = int.from_bytes(hashlib.sha512(Rs + pk + msg).digest(), "little") % _ED_L
    return _ed_equal(_ed_base_mul(S), _ed_add(R, _ed_mul(k, A)))


# =====================================================================================
# NIST P-384 (secp384r1): ECDSA with SHA-384 digests, SEC1 point compression, RFC 6979
# =====================================================================================

P384_P = 2 ** 384 - 2 ** 128 - 2 ** 96 + 2 ** 32 - 1
P384_N = 0xFFFFFFFFFFFFFFFFFFFFFFFFFFFFFFFFFFFFFFFFFFFFFFFFC7634D81F4372DDF581A0DB248B0A77AECEC196ACCC52973
P384_B = 0xB3312FA7E23EE7E4988E056BE3F82D19181D9C6EFE8141120314088F5013875AC656398D8A2ED19D2A85C8EDD3EC2AEF
P384_GX = 0xAA87CA22BE8B05378EB1C71EF320AD746E1D3B628BA79B9859F741E082542A385502F25DBF55296C3A545E3872760AB7
P384_GY = 0x3617DE4A96262C6F5D9E98BF9292DC29F8F41DBD289A147CE9DA3113B5F0B8C00A60B1CE1D7E819D7A431D7C90EA0E5F
# curve: y^2 = x^3 - 3x + b  (a = -3)

_P384_INF = (0, 1, 0)      # Jacobian point at infinity (Z = 0)


def _p384_on_curve(x, y):
    p = P384_P
    return 0 <= x < p and 0 <= y < p and (y * y - (x * x * x - 3 * x + P384_B)) % p == 0


def _p384_jdouble(P):
    # Jacobian doubling for a = -3:  M = 3(X - Z^2)(X + Z^2)
    X, Y, Z = P
    p = P384_P
    if Z == 0 or Y == 0:
        return _P384_INF
    YY = Y * Y % p
    S = 4 * X * YY % p
    ZZ = Z * Z % p
    M = 3 * (X - ZZ) * (X + ZZ) % p
    X3 = (M * M - 2 * S) % p
    Y3 = (M * (S - X3) - 8 * YY * YY) % p
    Z3 = 2 * Y * Z % p
    return (X3, Y3, Z3)


def _p384_jadd(P, Q):
    # General Jacobian addition, with the exceptional cases handled explicitly.
    if P[2] == 0:
        return Q
    if Q[2] == 0:
        return P
    X1, Y1, Z1 = P
    X2, Y2, Z2 = Q
    p = P384_P
    Z1Z1 = Z1 * Z1 % p
    Z2Z2 = Z2 * Z2 % p
    U1 = X1 * Z2Z2 % p
    U2 = X2 * Z1Z1 % p
    S1 = Y1 * Z2 * Z2Z2 % p
    S2 = Y2 * Z1 * Z1Z1 % p
    if U1 == U2:
        if S1 != S2:
            return _P384_INF          # P = -Q
        return _p384_jdouble(P)       # P = Q
    H = (U2 - U1) % p
    R = (S2 - S1) % p
    HH = H * H % p
    HHH = H * HH % p
    V = U1 * HH % p
    X3 = (R * R - HHH - 2 * V) % p
    Y3 = (R * (V - X3) - S1 * HHH) % p
    Z3 = H * Z1 * Z2 % p
    return (X3, Y3, Z3)


def _p384_to_affine(P):
    if P[2] == 0:
        return None
    p = P384_P
    zi = pow(P[2], -1, p)
    zi2 = zi * zi % p
    return (P[0] * zi2 % p, P[1] * zi2 * zi % p)


def _p384_mul(k, affine_point):
    """Variable-base scalar multiplication, left-to-right double-and-add (Jacobian result)."""
    P = (affine_point[0], affine_point[1], 1)
    Q = _P384_INF
    for i in reversed(range(k.bit_length())):
        Q = _p384_jdouble(Q)
        if (k >> i) & 1:
            Q = _p384_jadd(Q, P)
    return Q


# Fixed-base table: _P384_G_POW[i] = 2^i * G (Jacobian)
_P384_G_POW = []
_q = (P384_GX, P384_GY, 1)
for _i in range(384):
    _P384_G_POW.append(_q)
    _q = _p384_jdouble(_q)


def _p384_base_mul(k):
    Q = _P384_INF
    i = 0
    while k:
        if k & 1:
            Q = _p384_jadd(Q, _P384_G_POW[i])
        k >>= 1
        i += 1
    return Q


def _p384_scalar(d):
    if isinstance(d, (bytes, bytearray)):
        if len(d) != 48:
            raise ValueError("p384: secret scalar must be 48 bytes")
        d = int.from_bytes(d, "big")
    if not (1 <= d < P384_N):
        raise ValueError("p384: secret scalar out of range [1, n-1]")
    return d


@lru_cache(maxsize=256)
def _p384_public_affine(d):
    return _p384_to_affine(_p384_base_mul(d))


def p384_public_compressed(d):
    """SEC1 s2.3.3 compressed public key for secret scalar d (int or 48 bytes big-endian):
    02 (y even) / 03 (y odd) || X (48 bytes big-endian)."""
    x, y = _p384_public_affine(_p384_scalar(d))
    return bytes([2 + (y & 1)]) + x.to_bytes(48, "big")


@lru_cache(maxsize=256)
def p384_decompress(pk49):
    """SEC1 s2.3.4: 49-byte compressed point -> affine (x, y).  Raises ValueError."""
    pk49 = bytes(pk49)
    if len(pk49) != 49 or pk49[0] not in (2, 3):
        raise ValueError("p384: compressed public key must be 49 bytes starting with 02/03")
    p = P384_P
    x = int.from_bytes(pk49[1:], "big")
    if x >= p:
        raise ValueError("p384: x out of range")
    rhs = (x * x * x - 3 * x + P384_B) % p
    y = pow(rhs, (p + 1) // 4, p)            # p = 3 (mod 4)
    if y * y % p != rhs:
        raise ValueError("p384: point not on curve")
    if (y & 1) != (pk49[0] & 1):
        y = p - y
    return (x, y)


def _rfc6979_k_p384(d, digest48):
    """RFC 6979 s3.2 with HMAC-SHA384 for q = n (qlen = 384 = hlen, so bits2int is the
    plain big-endian conversion).  Yields successive candidates k."""
    q = P384_N
    x = d.to_bytes(48, "big")                                     # int2octets(x)
    h1 = (int.from_bytes(digest48, "big") % q).to_bytes(48, "big")  # bits2octets(h1)
    V = b"\x01" * 48                                              # step b
    K = b"\x00" * 48                                              # step c
    K = hmac.new(K, V + b"\x00" + x + h1, hashlib.sha384).digest()  # step d
    V = hmac.new(K, V, hashlib.sha384).digest()                   # step e
    K = hmac.new(K, V + b"\x01" + x + h1, hashlib.sha384).digest()  # step f
    V = hmac.new(K, V, hashlib.sha384).digest()                   # step g
    while True:                                                   # step h
        T = b""
        while len(T) < 48:
            V = hmac.new(K, V, hashlib.sha384).digest()
            T += V
        k = int.from_bytes(T[:48], "big")
        if 1 <= k < q:
            yield k
        K = hmac.new(K, V + b"\x00", hashlib.sha384).digest()
        V = hmac.new(K, V, hashlib.sha384).digest()


def p384_sign(d, digest48, k=None):
    """ECDSA signature over a 48-byte (SHA-384) digest.  Nonce per RFC 6979 unless an
    explicit k is given (for cross-checks only).  Returns r || s, 48+48 bytes big-endian."""
    d = _p384_scalar(d)
    digest48 = bytes(digest48)
    if len(digest48) != 48:
        raise ValueError("p384_sign: digest must be 48 bytes")
    n = P384_N
    e = int.from_bytes(digest48, "big")       # 384-bit digest, 384-bit order: no truncation
    candidates = iter([k]) if k is not None else _rfc6979_k_p384(d, digest48)
    for kk in candidates:
        if not (1 <= kk < n):
            raise ValueError("p384_sign: k out of range")
        x1, _ = _p384_to_affine(_p384_base_mul(kk))
        r = x1 % n
        if r == 0:
            continue
        s = pow(kk, -1, n) * (e + r * d) % n
        if s == 0:
            continue
        return r.to_bytes(48, "big") + s.to_bytes(48, "big")
    raise ValueError("p384_sign: given k yields r = 0 or s = 0")


def p384_verify(pk49, digest48, sig96):
    """ECDSA verification (FIPS 186-4 s6.4).  Returns True/False.  Any s in [1, n-1] is
    accepted (no low-S rule: the PASETO specification does not ask for one)."""
    try:
        Q = p384_decompress(bytes(pk49))
    except ValueError:
        return False
    digest48, sig96 = bytes(digest48), bytes(sig96)
    if len(digest48) != 48 or len(sig96) != 96:
        return False
    n = P384_N
    r = int.from_bytes(sig96[:48], "big")
    s = int.from_bytes(sig96[48:], "big")
    if not (1 <= r < n and 1 <= s < n):
        return False
    e = int.from_bytes(digest48, "big")
    w = pow(s, -1, n)
    u1 = e * w % n
    u2 = r * w % n
    R = _p384_to_affine(_p384_jadd(_p384_base_mul(u1), _p384_mul(u2, Q)))
    if R is None:
        return False
    return R[0] % n == r


# =====================================================================================
# RSASSA-PSS (RFC 8017) with SHA-384, MGF1-SHA384, salt length 48
# =====================================================================================

_PSS_HLEN = 48
_PSS_SLEN = 48


def mgf1_sha384(seed, length):
    """RFC 8017 B.2.1."""
    out = b""
    counter = 0
    while len(out) < length:
        out += hashlib.sha384(seed + struct.pack(">L", counter)).digest()
        counter += 1
    return out[:length]


def _emsa_pss_encode(msg, em_bits, salt):
    # RFC 8017 s9.1.1
    h_len, s_len = _PSS_HLEN, len(salt)
    em_len = (em_bits + 7) // 8
    m_hash = hashlib.sha384(msg).digest()                       # step 2
    if em_len < h_len + s_len + 2:                              # step 3
        raise ValueError("pss: encoding error")
    m_prime = b"\x00" * 8 + m_hash + salt                       # step 5
    h = hashlib.sha384(m_prime).digest()                        # step 6
    ps = b"\x00" * (em_len - s_len - h_len - 2)                 # step 7
    db = ps + b"\x01" + salt                                    # step 8
    db_mask = mgf1_sha384(h, em_len - h_len - 1)                # step 9
    masked_db = bytearray(_xor_bytes(db, db_mask))              # step 10
    masked_db[0] &= 0xFF >> (8 * em_len - em_bits)              # step 11
    return bytes(masked_db) + h + b"\xbc"                       # step 12


def _emsa_pss_verify(msg, em, em_bits):
    # RFC 8017 s9.1.2 with sLen fixed to 48
    h_len, s_len = _PSS_HLEN, _PSS_SLEN
    em_len = (em_bits + 7) // 8
    if len(em) != em_len:
        return False
    m_hash = hashlib.sha384(msg).digest()                       # step 2
    if em_len < h_len + s_len + 2:                              # step 3
        return False
    if em[-1] != 0xBC:                                          # step 4
        return False
    masked_db, h = em[:em_len - h_len - 1], em[em_len - h_len - 1:-1]   # step 5
    top_bits = 8 * em_len - em_bits
    if masked_db[0] & (0xFF << (8 - top_bits)) & 0xFF:          # step 6
        return False
    db_mask = mgf1_sha384(h, em_len - h_len - 1)                # step 7
    db = bytearray(_xor_bytes(masked_db, db_mask))              # step 8
    db[0] &= 0xFF >> top_bits                                   # step 9
    ps_len = em_len - h_len - s_len - 2
    if any(db[:ps_len]) or db[ps_len] != 0x01:                  # step 10
        return False
    salt = bytes(db[-s_len:])                                   # step 11
    m_prime = b"\x00" * 8 + m_hash + salt                       # step 12
    h_prime = hashlib.sha384(m_prime).digest()                  # step 13
    return hmac.compare_digest(h, h_prime)                      # step 14


def rsa_pss_sign(n, d, msg, salt48, p=None, q=None):
    """RFC 8017 s8.1.1 RSASSA-PSS-SIGN.  n must be a 2048-bit modulus; returns 256 bytes.
    If the prime factors p, q are given the private operation uses the CRT (same result)."""
    salt48 = bytes(salt48)
    if len(salt48) != _PSS_SLEN:
        raise ValueError("pss: salt must be 48 bytes")
    mod_bits = n.bit_length()
    if mod_bits != 2048:
        raise ValueError("pss: modulus must be 2048 bits")
    k = (mod_bits + 7) // 8
    em = _emsa_pss_encode(bytes(msg), mod_bits - 1, salt48)      # step 1
    m = int.from_bytes(em, "big")                                # step 2a (OS2IP)
    if m >= n:
        raise ValueError("pss: message representative out of range")
    if p is not None and q is not None:                          # step 2b (RSASP1)
        if p * q != n:
            raise ValueError("pss: p*q != n")
        s1 = pow(m % p, d % (p - 1), p)
        s2 = pow(m % q, d % (q - 1), q)
        h = (s1 - s2) * pow(q, -1, p) % p
        s = s2 + q * h
    else:
        s = pow(m, d, n)
    return s.to_bytes(k, "big")                                  # step 2c (I2OSP)


def rsa_pss_verify(n, e, msg, sig256):
    """RFC 8017 s8.1.2 RSASSA-PSS-VERIFY (SHA-384, MGF1-SHA384, sLen = 48).  True/False."""
    sig256 = bytes(sig256)
    mod_bits = n.bit_length()
    k = (mod_bits + 7) // 8
    if mod_bits != 2048 or len(sig256) != k:                     # step 1
        return False
    s = int.from_bytes(sig256, "big")                            # step 2a
    if s >= n:                                                   # step 2b (RSAVP1 range check)
        return False
    m = pow(s, e, n)
    em_len = (mod_bits - 1 + 7) // 8
    if m >> (8 * em_len):                                        # step 2c (I2OSP must fit)
        return False
    em = m.to_bytes(em_len, "big")
    return _emsa_pss_verify(bytes(msg), em, mod_bits - 1)        # step 3
