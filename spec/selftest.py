#!/usr/bin/env python3
"""
selftest.py -- pins the reference model R1 to known answers.

 1. Known-answer tests of the primitives in prim.py (FIPS-197 / SP 800-38A, RFC 8439,
    draft-irtf-cfrg-xchacha, RFC 8032, RFC 6979, plus RSA-PSS self-consistency).
 2. Every official PASETO vector in vectors/v{1..4}.json:
      local  (E): recompute the token, compare byte for byte; decrypt it; a wrong footer, a wrong
                  implicit assertion and a flipped byte must be rejected.
      public (S): v2/v4 (deterministic Ed25519): recompute byte for byte and verify.
                  v1/v3: verify the official token when the data has one (v3 has, v1 has not:
                  the Rust test file carries no v1.public token literals), and sign + verify
                  with R1 itself.  v3: R1's RFC 6979 signature also equals the official one.
      fail   (F): the operation must raise ValueError.

Prints `SPEC-SELFTEST-OK <n vectors>` and exits 0, or prints the failures and exits 1.
"""
import hashlib
import json
import os
import sys
import time

HERE = os.path.dirname(os.path.abspath(__file__))
sys.path.insert(0, HERE)
import prim as P           # noqa: E402
import paseto_spec as S    # noqa: E402

FIXTURES = os.path.join(os.path.dirname(HERE), "fixtures")
H = bytes.fromhex
failures = []
notes = []


def check(cond, what):
    if not cond:
        failures.append(what)


def raises(fn, *a, **kw):
    try:
        fn(*a, **kw)
    except ValueError:
        return True
    return False


# -------------------------------------------------------------------------------------
# 1. primitives
# -------------------------------------------------------------------------------------
def primitive_kats():
    # FIPS-197 C.3
    check(P.aes256_encrypt_block(bytes(range(32)), H("00112233445566778899aabbccddeeff")).hex()
          == "8ea2b7ca516745bfeafc49904b496089", "AES-256 FIPS-197 C.3")
    # SP 800-38A F.5.5 (CTR-AES256.Encrypt), all four blocks
    k = H("603deb1015ca71be2b73aef0857d77811f352c073b6108d72d9810a30914dff4")
    pt = H("6bc1bee22e409f96e93d7e117393172aae2d8a571e03ac9c9eb76fac45af8e51"
           "30c81c46a35ce411e5fbc1191a0a52eff69f2445df4f9b17ad2b417be66c3710")
    ct = P.aes256_ctr(k, H("f0f1f2f3f4f5f6f7f8f9fafbfcfdfeff"), pt)
    check(ct.hex() == "601ec313775789a5b7a7f504bbf3d228f443e3ca4d62b59aca84e990cacaf5c5"
                      "2b0930daa23de94ce87017ba2d84988ddfc9c58db67aada613c2dd08457941a6",
          "AES-256-CTR SP 800-38A F.5.5")
    # counter carry across the whole 128-bit block (as OpenSSL): ff..ff + 1 = 00..00
    ks = P.aes256_ctr(k, b"\xff" * 16, bytes(32))
    check(ks[16:] == P.aes256_encrypt_block(k, bytes(16)), "AES-256-CTR 128-bit counter wrap")
    # RFC 8439 s2.3.2, s2.4.2, s2.5.2
    key = bytes(range(32))
    check(P.chacha20_block(key, 1, H("000000090000004a00000000")).hex() ==
          "10f1e7e4d13b5915500fdd1fa32071c4c7d1f4c733c068030422aa9ac3d46c4e"
          "d2826446079faa0914c2d705d98b02a2b5129cd1de164eb9cbd083e8a2503c4e", "ChaCha20 block RFC 8439 2.3.2")
    sunscreen = (b"Ladies and Gentlemen of the class of '99: If I could offer you only one tip "
                 b"for the future, sunscreen would be it.")
    c = P.chacha20_xor(key, 1, H("000000000000004a00000000"), sunscreen)
    check(c.hex() == "6e2e359a2568f98041ba0728dd0d6981e97e7aec1d4360c20a27afccfd9fae0b"
                     "f91b65c5524733ab8f593dabcd62b3571639d624e65152ab8f530c359f0861d8"
                     "07ca0dbf500d6a6156a38e088a22b65e52bc514d16ccf806818ce91ab7793736"
                     "5af90bbf74a35be6b40b8eedf2785e42874d", "ChaCha20 encrypt RFC 8439 2.4.2")
    check(P.poly1305(H("85d6be7857556d337f4452fe42d506a80103808afb0db2fd4abff6af4149f51b"),
                     b"Cryptographic Forum Research Group").hex() == "a8061dc1305136c6c22b8baf0c0127a9",
          "Poly1305 RFC 8439 2.5.2")
    # draft-irtf-cfrg-xchacha s2.2.1 and A.3.1
    check(P.hchacha20(key, H("000000090000004a0000000031415927")).hex() ==
          "82413b4227b27bfed30e42508a877d73a0f9e4d58a74a853c12ec41326d3ecdc", "HChaCha20 draft 2.2.1")
    k2, n2, aad = bytes(range(0x80, 0xA0)), bytes(range(0x40, 0x58)), H("50515253c0c1c2c3c4c5c6c7")
    c = P.xchacha20poly1305_encrypt(k2, n2, sunscreen, aad)
    check(c[:32].hex() == "bd6d179d3e83d43b9576579493c0e939572a1700252bfaccbed2902c21396cbb"
          and c[-16:].hex() == "c0875924c1c7987947deafd8780acf49", "XChaCha20-Poly1305 draft A.3.1")
    check(P.xchacha20poly1305_decrypt(k2, n2, c, aad) == sunscreen, "XChaCha20-Poly1305 decrypt")
    check(raises(P.xchacha20poly1305_decrypt, k2, n2, c, aad + b"x"), "XChaCha20-Poly1305 rejects bad aad")
    # RFC 8032 s7.1 tests 1-3
    for sk, pk, m, sig in [
        ("9d61b19deffd5a60ba844af492ec2cc44449c5697b326919703bac031cae7f60",
         "d75a980182b10ab7d54bfed3c964073a0ee172f3daa62325af021a68f707511a", "",
         "e5564300c360ac729086e2cc806e828a84877f1eb8e5d974d873e06522490155"
         "5fb8821590a33bacc61e39701cf9b46bd25bf5f0595bbe24655141438e7a100b"),
        ("4ccd089b28ff96da9db6c346ec114e0f5b8a319f35aba624da8cf6ed4fb8a6fb",
         "3d4017c3e843895a92b70aa74d1b7ebc9c982ccf2ec4968cc0cd55f12af4660c", "72",
         "92a009a9f0d4cab8720e820b5f642540a2b27b5416503f8fb3762223ebdb69da"
         "085ac1e43e15996e458f3613d0f11d8c387b2eaeb4302aeeb00d291612bb0c00"),
        ("c5aa8df43f9f837bedb7442f31dcb7b166d38535076f094b85ce3a2e0b4458f7",
         "fc51cd8e6218a1a38da47ed00230f0580816ed13ba3303ac5deb911548908025", "af82",
         "6291d657deec24024827e69c3abe01a30ce548a284743a445e3680d7db5ac3ac"
         "18ff9b538d16f290ae67f760984dc6594a7c15e9716ed28dc027beceea1ec40a")]:
        check(P.ed25519_public(H(sk)).hex() == pk, "Ed25519 RFC 8032 public " + pk[:8])
        check(P.ed25519_sign(H(sk), H(m)).hex() == sig, "Ed25519 RFC 8032 sign " + pk[:8])
        check(P.ed25519_verify(H(pk), H(m), H(sig)), "Ed25519 RFC 8032 verify " + pk[:8])
        check(not P.ed25519_verify(H(pk), H(m) + b"x", H(sig)), "Ed25519 rejects other message")
        # non-canonical S (S + L) must be rejected
        s_nc = (int.from_bytes(H(sig)[32:], "little") + P._ED_L).to_bytes(32, "little")
        check(not P.ed25519_verify(H(pk), H(m), H(sig)[:32] + s_nc), "Ed25519 rejects S >= L")
    # RFC 6979 A.2.6 (P-384, SHA-384, "sample" and "test")
    x = int("6B9D3DAD2E1B8C1C05B19875B6659F4DE23C3B667BF297BA9AA47740787137D8"
            "96D5724E4C70A825F872C9EA60D2EDF5", 16)
    pk = P.p384_public_compressed(x)
    check(pk.hex() == "02ec3a4e415b4e19a4568618029f427fa5da9a8bc4ae92e02e06aae5286b300c"
                      "64def8f0ea9055866064a254515480bc13", "P-384 RFC 6979 A.2.6 public key")
    dg = hashlib.sha384(b"sample").digest()
    sig = P.p384_sign(x, dg)
    check(sig.hex().upper() ==
          "94EDBB92A5ECB8AAD4736E56C691916B3F88140666CE9FA73D64C4EA95AD133C81A648152E44ACF96E36DD1E80FABE46"
          "99EF4AEB15F178CEA1FE40DB2603138F130E740A19624526203B6351D0A3A94FA329C145786E679E7B82C71A38628AC8",
          "ECDSA P-384 RFC 6979 A.2.6 'sample'")
    check(P.p384_verify(pk, dg, sig), "ECDSA P-384 verify own signature")
    check(not P.p384_verify(pk, hashlib.sha384(b"sampl").digest(), sig), "ECDSA P-384 rejects other digest")
    check(not P.p384_verify(pk, dg, sig[:48] + bytes(48)), "ECDSA P-384 rejects s = 0")
    n_s = (P.P384_N - int.from_bytes(sig[48:], "big")).to_bytes(48, "big")
    check(P.p384_verify(pk, dg, sig[:48] + n_s), "ECDSA P-384 accepts (r, n-s) (no low-S rule in the spec)")
    # RSA-PSS self-consistency (openssl interop is in crosscheck_openssl.py)
    rsa = load_rsa("rsa0")
    s1 = P.rsa_pss_sign(rsa["n"], rsa["d"], b"abc", bytes(range(48)))
    s2 = P.rsa_pss_sign(rsa["n"], rsa["d"], b"abc", bytes(range(48)), rsa["p"], rsa["q"])
    check(s1 == s2 and len(s1) == 256, "RSA-PSS CRT == plain")
    check(P.rsa_pss_verify(rsa["n"], rsa["e"], b"abc", s1), "RSA-PSS verify own signature")
    check(not P.rsa_pss_verify(rsa["n"], rsa["e"], b"abd", s1), "RSA-PSS rejects other message")
    check(pow(int.from_bytes(s1, "big"), rsa["e"], rsa["n"]).bit_length() <= 2047, "RSA-PSS emBits")
    # HKDF: RFC 5869 has no SHA-384 vector; HKDF-SHA384 is pinned by the v1/v3 local vectors below.
    # PAE: Common.md examples
    check(S.pae([]) == H("0000000000000000"), "PAE([])")
    check(S.pae([b""]) == H("01000000000000000000000000000000"), "PAE([''])")
    check(S.pae([b"test"]) == H("01000000000000000400000000000000") + b"test", "PAE(['test'])")
    # strict base64url
    check(S.b64u_dec("AA") == b"\x00" and S.b64u_dec("") == b"", "b64u_dec canonical")
    for bad in ("AB", "AA==", "AA=", "A", "A+/A", "AA A", "AAAAA", "AA\n"):
        check(raises(S.b64u_dec, bad), "b64u_dec must reject %r" % bad)
    check(S.format_token("h.", b"\x00", b"") == "h.AA" and S.format_token("h.", b"\x00", b"\x00") == "h.AA.AA",
          "format_token footer rule")


_RSA = {}


def load_rsa(name):
    if name not in _RSA:
        with open(os.path.join(FIXTURES, "rsa.json")) as fh:
            raw = json.load(fh)
        for k, v in raw.items():
            _RSA[k] = {f: int(v[f], 16) for f in ("n", "e", "d", "p", "q")}
    return _RSA[name]


# -------------------------------------------------------------------------------------
# 2. official vectors
# -------------------------------------------------------------------------------------
LOCAL_ENC = {1: S.v1_local_encrypt, 2: S.v2_local_encrypt, 3: S.v3_local_encrypt, 4: S.v4_local_encrypt}
LOCAL_DEC = {1: S.v1_local_decrypt, 2: S.v2_local_decrypt, 3: S.v3_local_decrypt, 4: S.v4_local_decrypt}
PUB_SIGN = {1: S.v1_public_sign, 2: S.v2_public_sign, 3: S.v3_public_sign, 4: S.v4_public_sign}
PUB_VERIFY = {1: S.v1_public_verify, 2: S.v2_public_verify, 3: S.v3_public_verify, 4: S.v4_public_verify}


def flip_char(token, header):
    """Replace one base64url character in the middle of the payload by a different one."""
    pos = len(header) + (len(token.split(".")[2]) // 2)
    ch = "A" if token[pos] != "A" else "B"
    return token[:pos] + ch + token[pos + 1:]


def run_vector(ver, v):
    name = v["name"]
    f = v["footer"].encode()
    i = v["implicit_assertion"].encode()
    ia = (i,) if ver >= 3 else ()           # v1/v2 have no implicit assertion
    m = v["payload"].encode() if v["payload"] is not None else None
    tok = v["token"]

    if v["expect_fail"]:
        if v["purpose"] == "local":
            check(raises(LOCAL_DEC[ver], H(v["key"]), tok, f, *ia), name + ": decrypt must fail")
        else:
            # the Rust file only carries the secret key for this vector: derive the public key
            pk = H(v["public_key"]) if v["public_key"] else P.p384_public_compressed(H(v["key"]))
            check(raises(PUB_VERIFY[ver], pk, tok, f, *ia), name + ": verify must fail")
        return

    if v["purpose"] == "local":
        key, seed = H(v["key"]), H(v["nonce"])
        got = LOCAL_ENC[ver](key, seed, m, f, *ia)
        check(got == tok, "%s: token mismatch\n   got  %s\n   want %s" % (name, got, tok))
        try:
            check(LOCAL_DEC[ver](key, tok, f, *ia) == m, name + ": decrypt returned another message")
        except ValueError as e:
            check(False, "%s: decrypt raised %s" % (name, e))
        check(raises(LOCAL_DEC[ver], key, tok, f + b"x", *ia), name + ": wrong footer accepted")
        check(raises(LOCAL_DEC[ver], key[:-1] + bytes([key[-1] ^ 1]), tok, f, *ia), name + ": wrong key accepted")
        check(raises(LOCAL_DEC[ver], key, flip_char(tok, "vN.local."), f, *ia), name + ": tampered token accepted")
        if ver >= 3:
            check(raises(LOCAL_DEC[ver], key, tok, f, i + b"x"), name + ": wrong implicit assertion accepted")
        return

    # public, expected to succeed
    if ver in (2, 4):
        secret, pk = H(v["key"]), H(v["public_key"])
        seed = secret[:32]                     # the file gives the 64-byte libsodium form seed || pk
        check(secret[32:] == pk and P.ed25519_public(seed) == pk, name + ": Ed25519 public key derivation")
        got = PUB_SIGN[ver](seed, m, f, *ia)
        check(got == tok, "%s: token mismatch\n   got  %s\n   want %s" % (name, got, tok))
        sk_arg = seed
    elif ver == 3:
        sk_arg, pk = H(v["key"]), H(v["public_key"])
        check(P.p384_public_compressed(sk_arg) == pk, name + ": P-384 public key derivation")
        got = PUB_SIGN[ver](sk_arg, m, f, *ia)
        # The specification only recommends RFC 6979, so byte identity is not demanded by it;
        # but the official v3 vectors were in fact made with RFC 6979 nonces and R1 reproduces
        # them byte for byte (observed at authoring time), so this is pinned as well.
        check(got == tok, "%s: RFC 6979 token differs from the official token\n   got  %s\n   want %s"
              % (name, got, tok))
        notes.append("%s: R1's RFC 6979 token %s the official token" %
                     (name, "EQUALS" if got == tok else "differs from"))
    else:
        rsa = load_rsa(v["key"])
        sk_arg, pk = rsa, rsa
        salt = hashlib.sha384(b"selftest-salt" + name.encode()).digest()
        got = S.v1_public_sign(rsa, m, f, salt=salt)
        check(got == S.v1_public_sign(rsa, m, f, salt=salt), name + ": PSS with fixed salt is deterministic")
        check(got != S.v1_public_sign(rsa, m, f), name + ": PSS with random salt differs")
    # verify the official token (when the data has one) and R1's own
    for label, t in (("official", tok), ("own", got)):
        if t is None:
            notes.append("%s: no official token literal in the Rust file; sign+verify with R1 only" % name)
            continue
        try:
            check(PUB_VERIFY[ver](pk, t, f, *ia) == m, "%s: verify(%s) returned another message" % (name, label))
        except ValueError as e:
            check(False, "%s: verify(%s) raised %s" % (name, label, e))
        check(raises(PUB_VERIFY[ver], pk, t, f + b"x", *ia), "%s: %s token verified under a wrong footer" % (name, label))
        if ver >= 3:
            check(raises(PUB_VERIFY[ver], pk, t, f, i + b"x"), "%s: %s token verified under a wrong assertion" % (name, label))
        # flip a character inside the cleartext message part
        pos = len("vN.public.") + 4
        bad = t[:pos] + ("A" if t[pos] != "A" else "B") + t[pos + 1:]
        check(raises(PUB_VERIFY[ver], pk, bad, f, *ia), "%s: tampered %s token verified" % (name, label))


def main():
    t0 = time.time()
    primitive_kats()
    n = 0
    per_version = {}
    for ver in (1, 2, 3, 4):
        with open(os.path.join(HERE, "vectors", "v%d.json" % ver), encoding="utf-8") as fh:
            data = json.load(fh)
        for v in data["vectors"]:
            try:
                run_vector(ver, v)
            except Exception as e:      # a crash of the reference is a failure, not a pass
                failures.append("%s: unexpected %s: %s" % (v["name"], type(e).__name__, e))
            n += 1
        per_version[ver] = len(data["vectors"])
    wall = time.time() - t0
    if "-v" in sys.argv:
        for line in notes:
            print("note:", line)
        print("vectors per version:", per_version, "wall %.2fs" % wall)
    if failures:
        print("SPEC-SELFTEST-FAILED %d problem(s)" % len(failures))
        for fmsg in failures:
            print(" -", fmsg)
        sys.exit(1)
    print("SPEC-SELFTEST-OK %d vectors" % n)
    sys.exit(0)


if __name__ == "__main__":
    main()
