#!/usr/bin/env python3
"""foreign_tokens.py <out.json>  -- authentic tokens only ANOTHER implementation mints: the message is not UTF-8.

The library's builders take &str, so every token the harness can make with the library carries valid UTF-8.
A peer that holds the key can sign / encrypt any byte string. The library cannot return such a message as a
String: every accepting entry point must answer with an error (and must not hand a validator, or return, a
text that was never signed - e.g. the lossy decoding with U+FFFD).
Keys: the first entry of each pool of the Rust harness (fixtures/keys.json, fixtures/rsa.json), as in
hybrid_tokens.py. Each record: {"proto", "token", "msg_hex", "footer"}; plus one valid-UTF-8 control per protocol.
"""
import hashlib, json, os, sys

HERE = os.path.dirname(os.path.abspath(__file__))
sys.path.insert(0, HERE)
import paseto_spec as S  # noqa: E402

FIX = os.path.join(os.path.dirname(HERE), "fixtures")
keys = json.load(open(os.path.join(FIX, "keys.json")))
rsa = {k: {f: int(v, 16) for f, v in d.items()} for k, d in json.load(open(os.path.join(FIX, "rsa.json"))).items()}
SYM = bytes.fromhex("707172737475767778797a7b7c7d7e7f808182838485868788898a8b8c8d8e8f")
NONCE = bytes.fromhex("26f7553354482a1d91d4784627854b8da6b8042a7966523c2b404e8dbbe7f7f2")
ED_SEED = bytes.fromhex(keys["ed25519"][0]["seed"])
P384_D = bytes.fromhex(keys["p384"][0]["d"])

MAKE = {
    "v1.local": lambda m, f: S.v1_local_encrypt(SYM, NONCE, m, f),
    "v2.local": lambda m, f: S.v2_local_encrypt(SYM, NONCE[:24], m, f),
    "v3.local": lambda m, f: S.v3_local_encrypt(SYM, NONCE, m, f, b""),
    "v4.local": lambda m, f: S.v4_local_encrypt(SYM, NONCE, m, f, b""),
    "v1.public": lambda m, f: S.v1_public_sign(rsa["rsa0"], m, f, salt=hashlib.sha384(b"foreign").digest()),
    "v2.public": lambda m, f: S.v2_public_sign(ED_SEED, m, f),
    "v3.public": lambda m, f: S.v3_public_sign(P384_D, m, f, b""),
    "v4.public": lambda m, f: S.v4_public_sign(ED_SEED, m, f, b""),
}
MESSAGES = [
    (True, '{"role":"admin","data":"x é"}'.encode()),
    (False, b'{"role":"adm\xffn","data":"x"}'),
    (False, b'{"role":"adm\xfen","data":"x"}'),
    (False, b'{"role":"admin","data":"x"}\xff'),
    (False, b'\xff{"role":"admin","data":"x"}'),
    (False, b'{"role":"adm\xc3","data":"x"}'),            # truncated two-byte sequence
    (False, b'{"role":"adm\xed\xa0\x80n","data":"x"}'),   # an encoded surrogate
    (False, b'{"role":"adm\xc0\xafn","data":"x"}'),       # overlong '/'
    (False, b'{"r\xffle":"admin","data":"x"}'),           # in a member name
    (False, b'\xff\xfe\xfd'),
]


def main():
    out = []
    for proto, make in MAKE.items():
        for utf8, m in MESSAGES:
            for f in (b"", b"f"):
                out.append({"proto": proto, "token": make(m, f), "msg_hex": m.hex(), "footer": f.decode() or None, "valid_utf8": utf8})
    json.dump(out, open(sys.argv[1], "w"))
    print("FOREIGN-TOKENS %d" % len(out))


if __name__ == "__main__":
    main()
