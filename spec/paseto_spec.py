"""
paseto_spec.py -- reference model R1: the PASETO specification, transcribed step by step.

Sources transcribed (paseto-standard/paseto-spec, docs/01-Protocol-Versions):
    Common.md    (PAE, base64url, token format)
    Version1.md  (v1.local: AES-256-CTR + HMAC-SHA384 via HKDF-SHA384;  v1.public: RSASSA-PSS)
    Version2.md  (v2.local: XChaCha20-Poly1305;                          v2.public: Ed25519)
    Version3.md  (v3.local: AES-256-CTR + HMAC-SHA384 via HKDF-SHA384;  v3.public: ECDSA P-384)
    Version4.md  (v4.local: XChaCha20 + BLAKE2b-MAC;                     v4.public: Ed25519)

The numbered "Step N" comments follow the numbered lists of the Encrypt / Decrypt / Sign /
Verify sections of the respective VersionN.md.  Inputs and outputs are bytes, tokens are str.
All failures (bad header, bad footer, bad encoding, bad MAC/signature) raise ValueError.

This module depends only on prim.py (pure Python) and the standard library; it shares no
code with the crate under test.

Judgement calls (places where the prose of the spec leaves room), all on the *accepting* side
only -- the producing side (`format_token`) is fully determined:
  * A token whose footer segment is present but empty ("vN.purpose.payload.") is parsed as
    having the empty footer, like the reference implementation does (explode on '.').  More
    than one extra segment is rejected.  `format_token` never produces such a token.
  * base64url decoding is strict (Common.md: "without = padding"; non-canonical trailing bits
    and characters outside the URL-safe alphabet are rejected), cf. official vectors 3-F-4/3-F-5.
  * The expected footer is compared (in constant time) before any cryptographic work,
    as in the "If f is not empty, ... verify that the value appended to the token matches"
    step.  An expected footer of b"" matches only a token without (or with an empty) footer.
"""

import base64
import hashlib
import hmac
import os
import struct
import sys

sys.path.insert(0, os.path.dirname(os.path.abspath(__file__)))   # prim.py lives next to this file
import prim  # noqa: E402

# =====================================================================================
# Common.md
# =====================================================================================

def le64(n):
    """Common.md, PAE: LE64() encodes a 64-bit unsigned little-endian integer, with the
    most significant bit cleared (for interoperability with languages without unsigned ints)."""
    if n < 0 or n >= 1 << 64:
        raise ValueError("le64: out of range")
    return struct.pack("<Q", n & 0x7FFFFFFFFFFFFFFF)


def pae(pieces):
    """Common.md, PAE(): LE64(count) || for each piece: LE64(len(piece)) || piece."""
    out = le64(len(pieces))
    for piece in pieces:
        piece = bytes(piece)
        out += le64(len(piece))
        out += piece
    return out


_B64U_ALPHABET = frozenset("ABCDEFGHIJKLMNOPQRSTUVWXYZabcdefghijklmnopqrstuvwxyz0123456789-_")


def b64u(b):
    """Common.md: base64url (RFC 4648 s5) without '=' padding."""
    return base64.urlsafe_b64encode(bytes(b)).rstrip(b"=").decode("ascii")


def b64u_dec(s):
    """Strict inverse of b64u: rejects padding, characters outside the URL-safe alphabet,
    impossible lengths (1 mod 4) and non-canonical trailing bits."""
    if not isinstance(s, str):
        raise ValueError("base64url: not a string")
    for ch in s:
        if ch not in _B64U_ALPHABET:
            raise ValueError("base64url: character outside the unpadded URL-safe alphabet")
    if len(s) % 4 == 1:
        raise ValueError("base64url: impossible length")
    raw = base64.urlsafe_b64decode(s + "=" * (-len(s) % 4))
    if b64u(raw) != s:
        raise ValueError("base64url: non-canonical encoding (trailing bits set)")
    return raw


def format_token(header, body, footer):
    """Common.md token format: header || b64u(body), and -- if and only if the footer is
    non-empty -- "." || b64u(footer).  (VersionN.md, last step of Encrypt/Sign:
    "If f is empty: h || base64url(...);  otherwise h || base64url(...) || . || base64url(f)")"""
    token = header + b64u(body)
    if len(footer) > 0:
        token += "." + b64u(footer)
    return token


def parse_token(header, token, f):
    """Shared first steps of every Decrypt/Verify:
       - verify that the message begins with the expected header, otherwise throw;
       - split off the optional footer, decode it and verify it equals the expected footer f
         (constant-time compare);
       - base64url-decode the payload.
    Returns the decoded payload bytes."""
    if not isinstance(token, str):
        raise ValueError("token: not a string")
    if not token.startswith(header):
        raise ValueError("token: header is not " + header)
    rest = token[len(header):]
    segments = rest.split(".")
    if len(segments) == 1:
        token_footer = b""
    elif len(segments) == 2:
        token_footer = b64u_dec(segments[1])
    else:
        raise ValueError("token: too many segments")
    if not hmac.compare_digest(token_footer, bytes(f)):
        raise ValueError("token: footer mismatch")
    if segments[0] == "":
        raise ValueError("token: empty payload")
    return b64u_dec(segments[0])


def _check_len(name, value, length):
    if len(value) != length:
        raise ValueError("%s must be %d bytes, got %d" % (name, length, len(value)))


# =====================================================================================
# Version1.md
# =====================================================================================

V1_LOCAL = "v1.local."
V1_PUBLIC = "v1.public."


def v1_get_nonce(m, n):
    """Version1.md GetNonce(m, n): the leftmost 32 bytes of HMAC-SHA384 of the message m
    with the (random) value n as the key."""
    return hmac.new(n, m, hashlib.sha384).digest()[:32]


def _v1_split_keys(key, n):
    # Encrypt step 4 / Decrypt step 5:
    #   Ek = hkdf_sha384(len = 32, ikm = k, info = "paseto-encryption-key",    salt = n[0:16])
    #   Ak = hkdf_sha384(len = 32, ikm = k, info = "paseto-auth-key-for-aead", salt = n[0:16])
    ek = prim.hkdf_sha384(key, n[:16], b"paseto-encryption-key", 32)
    ak = prim.hkdf_sha384(key, n[:16], b"paseto-auth-key-for-aead", 32)
    return ek, ak


def v1_local_encrypt(key, seed, m, f=b""):
    """Version1.md Encrypt.  `seed` stands for the 32 random bytes b of step 2/3."""
    key, seed, m, f = bytes(key), bytes(seed), bytes(m), bytes(f)
    _check_len("v1.local key", key, 32)
    _check_len("v1.local nonce seed", seed, 32)
    h = V1_LOCAL.encode()                                   # Step 1
    b = seed                                                # Step 2: 32 random bytes
    n = v1_get_nonce(m, b)                                  # Step 3: n = GetNonce(m, b)
    ek, ak = _v1_split_keys(key, n)                         # Step 4
    c = prim.aes256_ctr(ek, n[16:32], m)                    # Step 5: aes256ctr(m, Ek, n[16:])
    pre_auth = pae([h, n, c, f])                            # Step 6
    t = hmac.new(ak, pre_auth, hashlib.sha384).digest()     # Step 7
    return format_token(V1_LOCAL, n + c + t, f)             # Step 8


def v1_local_decrypt(key, token, f=b""):
    """Version1.md Decrypt."""
    key, f = bytes(key), bytes(f)
    _check_len("v1.local key", key, 32)
    h = V1_LOCAL.encode()
    body = parse_token(V1_LOCAL, token, f)                  # Steps 1-3
    if len(body) < 32 + 48:
        raise ValueError("v1.local: payload too short")
    n, c, t = body[:32], body[32:-48], body[-48:]           # Step 4
    ek, ak = _v1_split_keys(key, n)                         # Step 5
    pre_auth = pae([h, n, c, f])                            # Step 6
    t2 = hmac.new(ak, pre_auth, hashlib.sha384).digest()    # Step 7
    if not hmac.compare_digest(t, t2):                      # Step 8
        raise ValueError("v1.local: invalid MAC")
    return prim.aes256_ctr(ek, n[16:32], c)                 # Step 9


def v1_public_sign(rsa, m, f=b"", salt=None):
    """Version1.md Sign.  rsa = {"n": int, "d": int [, "p": int, "q": int]}.
    RSASSA-PSS, SHA-384, MGF1-SHA384, 48-byte salt (random unless given), e = 65537."""
    m, f = bytes(m), bytes(f)
    if salt is None:
        salt = os.urandom(48)
    h = V1_PUBLIC.encode()                                  # Step 1
    m2 = pae([h, m, f])                                     # Step 2
    sig = prim.rsa_pss_sign(rsa["n"], rsa["d"], m2, salt, rsa.get("p"), rsa.get("q"))  # Step 3
    return format_token(V1_PUBLIC, m + sig, f)              # Step 4


def v1_public_verify(rsa, token, f=b""):
    """Version1.md Verify.  rsa = {"n": int, "e": int}.  Returns m."""
    f = bytes(f)
    h = V1_PUBLIC.encode()
    body = parse_token(V1_PUBLIC, token, f)                 # Steps 1-2
    if len(body) < 256:
        raise ValueError("v1.public: payload too short")
    m, s = body[:-256], body[-256:]                         # Step 3: s = rightmost 256 bytes
    m2 = pae([h, m, f])                                     # Step 4
    if not prim.rsa_pss_verify(rsa["n"], rsa["e"], m2, s):  # Step 5
        raise ValueError("v1.public: invalid signature")
    return m                                                # Step 6


# =====================================================================================
# Version2.md
# =====================================================================================

V2_LOCAL = "v2.local."
V2_PUBLIC = "v2.public."


def v2_local_encrypt(key, seed, m, f=b""):
    """Version2.md Encrypt.  `seed` stands for the 24 random bytes b of step 2 (any length
    1..64 is accepted here because it is only used as a BLAKE2b key)."""
    key, seed, m, f = bytes(key), bytes(seed), bytes(m), bytes(f)
    _check_len("v2.local key", key, 32)
    if not (1 <= len(seed) <= 64):
        raise ValueError("v2.local nonce seed must be 1..64 bytes")
    h = V2_LOCAL.encode()                                   # Step 1
    b = seed                                                # Step 2: 24 random bytes
    n = hashlib.blake2b(m, key=b, digest_size=24).digest()  # Step 3: BLAKE2b(msg=m, key=b, 24 bytes)
    pre_auth = pae([h, n, f])                               # Step 4
    c = prim.xchacha20poly1305_encrypt(key, n, m, pre_auth)  # Step 5: aad = preAuth, nonce = n
    return format_token(V2_LOCAL, n + c, f)                 # Step 6


def v2_local_decrypt(key, token, f=b""):
    """Version2.md Decrypt."""
    key, f = bytes(key), bytes(f)
    _check_len("v2.local key", key, 32)
    h = V2_LOCAL.encode()
    body = parse_token(V2_LOCAL, token, f)                  # Steps 1-3
    if len(body) < 24 + 16:
        raise ValueError("v2.local: payload too short")
    n, c = body[:24], body[24:]                             # Step 4
    pre_auth = pae([h, n, f])                               # Step 5
    return prim.xchacha20poly1305_decrypt(key, n, c, pre_auth)  # Steps 6-7 (raises on bad tag)


def v2_public_sign(seed, m, f=b""):
    """Version2.md Sign.  seed = the 32-byte Ed25519 secret key seed."""
    seed, m, f = bytes(seed), bytes(m), bytes(f)
    _check_len("v2.public secret seed", seed, 32)
    h = V2_PUBLIC.encode()                                  # Step 1
    m2 = pae([h, m, f])                                     # Step 2
    sig = prim.ed25519_sign(seed, m2)                       # Step 3
    return format_token(V2_PUBLIC, m + sig, f)              # Step 4


def v2_public_verify(pk, token, f=b""):
    """Version2.md Verify.  Returns m."""
    pk, f = bytes(pk), bytes(f)
    _check_len("v2.public public key", pk, 32)
    h = V2_PUBLIC.encode()
    body = parse_token(V2_PUBLIC, token, f)                 # Steps 1-2
    if len(body) < 64:
        raise ValueError("v2.public: payload too short")
    m, s = body[:-64], body[-64:]                           # Step 3: s = rightmost 64 bytes
    m2 = pae([h, m, f])                                     # Step 4
    if not prim.ed25519_verify(pk, m2, s):                  # Step 5
        raise ValueError("v2.public: invalid signature")
    return m                                                # Step 6


# =====================================================================================
# Version3.md
# =====================================================================================

V3_LOCAL = "v3.local."
V3_PUBLIC = "v3.public."


def _v3_split_keys(key, n):
    # Encrypt step 4 / Decrypt step 5 (no salt; the nonce is part of the info string):
    #   tmp = hkdf_sha384(len = 48, ikm = k, info = "paseto-encryption-key" || n, salt = NULL)
    #   Ek = tmp[0:32]; n2 = tmp[32:]
    #   Ak  = hkdf_sha384(len = 48, ikm = k, info = "paseto-auth-key-for-aead" || n, salt = NULL)
    tmp = prim.hkdf_sha384(key, b"", b"paseto-encryption-key" + n, 48)
    ek, n2 = tmp[:32], tmp[32:]
    ak = prim.hkdf_sha384(key, b"", b"paseto-auth-key-for-aead" + n, 48)
    return ek, n2, ak


def v3_local_encrypt(key, nonce, m, f=b"", i=b""):
    """Version3.md Encrypt.  `nonce` stands for the 32 random bytes n of step 3."""
    key, nonce, m, f, i = bytes(key), bytes(nonce), bytes(m), bytes(f), bytes(i)
    _check_len("v3.local key", key, 32)                     # Step 1 (key is for v3.local)
    _check_len("v3.local nonce", nonce, 32)
    h = V3_LOCAL.encode()                                   # Step 2
    n = nonce                                               # Step 3
    ek, n2, ak = _v3_split_keys(key, n)                     # Step 4
    c = prim.aes256_ctr(ek, n2, m)                          # Step 5
    pre_auth = pae([h, n, c, f, i])                         # Step 6
    t = hmac.new(ak, pre_auth, hashlib.sha384).digest()     # Step 7
    return format_token(V3_LOCAL, n + c + t, f)             # Step 8


def v3_local_decrypt(key, token, f=b"", i=b""):
    """Version3.md Decrypt."""
    key, f, i = bytes(key), bytes(f), bytes(i)
    _check_len("v3.local key", key, 32)                     # Step 1
    h = V3_LOCAL.encode()
    body = parse_token(V3_LOCAL, token, f)                  # Steps 2-3
    if len(body) < 32 + 48:
        raise ValueError("v3.local: payload too short")
    n, c, t = body[:32], body[32:-48], body[-48:]           # Step 4
    ek, n2, ak = _v3_split_keys(key, n)                     # Step 5
    pre_auth = pae([h, n, c, f, i])                         # Step 6
    t2 = hmac.new(ak, pre_auth, hashlib.sha384).digest()    # Step 7
    if not hmac.compare_digest(t, t2):                      # Step 8
        raise ValueError("v3.local: invalid MAC")
    return prim.aes256_ctr(ek, n2, c)                       # Step 9


def v3_public_sign(d, m, f=b"", i=b""):
    """Version3.md Sign.  d = 48-byte big-endian P-384 secret scalar.  ECDSA over P-384 with
    SHA-384, deterministic nonce per RFC 6979; the signature is r || s (96 bytes)."""
    d, m, f, i = bytes(d), bytes(m), bytes(f), bytes(i)
    _check_len("v3.public secret scalar", d, 48)            # Step 1
    pk = prim.p384_public_compressed(d)                     # Step 3: pk = compressed public key
    h = V3_PUBLIC.encode()                                  # Step 2
    m2 = pae([pk, h, m, f, i])                              # Step 3
    digest = hashlib.sha384(m2).digest()
    sig = prim.p384_sign(d, digest)                         # Step 4
    _check_len("v3.public signature", sig, 96)
    return format_token(V3_PUBLIC, m + sig, f)              # Step 5


def v3_public_verify(pk, token, f=b"", i=b""):
    """Version3.md Verify.  pk = 49-byte compressed point.  Returns m."""
    pk, f, i = bytes(pk), bytes(f), bytes(i)
    _check_len("v3.public public key", pk, 49)              # Step 1
    prim.p384_decompress(pk)                                # (must be a valid curve point)
    h = V3_PUBLIC.encode()
    body = parse_token(V3_PUBLIC, token, f)                 # Steps 2-3
    if len(body) < 96:
        raise ValueError("v3.public: payload too short")
    m, s = body[:-96], body[-96:]                           # Step 4: s = rightmost 96 bytes
    m2 = pae([pk, h, m, f, i])                              # Step 5
    digest = hashlib.sha384(m2).digest()
    if not prim.p384_verify(pk, digest, s):                 # Step 6
        raise ValueError("v3.public: invalid signature")
    return m                                                # Step 7


# =====================================================================================
# Version4.md
# =====================================================================================

V4_LOCAL = "v4.local."
V4_PUBLIC = "v4.public."


def _v4_split_keys(key, n):
    # Encrypt step 4 / Decrypt step 5:
    #   tmp = crypto_generichash(msg = "paseto-encryption-key" || n, key = key, length = 56)
    #   Ek = tmp[0:32]; n2 = tmp[32:]
    #   Ak  = crypto_generichash(msg = "paseto-auth-key-for-aead" || n, key = key, length = 32)
    tmp = hashlib.blake2b(b"paseto-encryption-key" + n, key=key, digest_size=56).digest()
    ek, n2 = tmp[:32], tmp[32:]
    ak = hashlib.blake2b(b"paseto-auth-key-for-aead" + n, key=key, digest_size=32).digest()
    return ek, n2, ak


def v4_local_encrypt(key, nonce, m, f=b"", i=b""):
    """Version4.md Encrypt.  `nonce` stands for the 32 random bytes n of step 3."""
    key, nonce, m, f, i = bytes(key), bytes(nonce), bytes(m), bytes(f), bytes(i)
    _check_len("v4.local key", key, 32)                     # Step 1
    _check_len("v4.local nonce", nonce, 32)
    h = V4_LOCAL.encode()                                   # Step 2
    n = nonce                                               # Step 3
    ek, n2, ak = _v4_split_keys(key, n)                     # Step 4
    c = prim.xchacha20_xor(ek, n2, m)                       # Step 5: crypto_stream_xchacha20_xor
    pre_auth = pae([h, n, c, f, i])                         # Step 6
    t = hashlib.blake2b(pre_auth, key=ak, digest_size=32).digest()   # Step 7
    return format_token(V4_LOCAL, n + c + t, f)             # Step 8


def v4_local_decrypt(key, token, f=b"", i=b""):
    """Version4.md Decrypt."""
    key, f, i = bytes(key), bytes(f), bytes(i)
    _check_len("v4.local key", key, 32)                     # Step 1
    h = V4_LOCAL.encode()
    body = parse_token(V4_LOCAL, token, f)                  # Steps 2-3
    if len(body) < 32 + 32:
        raise ValueError("v4.local: payload too short")
    n, c, t = body[:32], body[32:-32], body[-32:]           # Step 4
    ek, n2, ak = _v4_split_keys(key, n)                     # Step 5
    pre_auth = pae([h, n, c, f, i])                         # Step 6
    t2 = hashlib.blake2b(pre_auth, key=ak, digest_size=32).digest()  # Step 7
    if not hmac.compare_digest(t, t2):                      # Step 8
        raise ValueError("v4.local: invalid MAC")
    return prim.xchacha20_xor(ek, n2, c)                    # Step 9


def v4_public_sign(seed, m, f=b"", i=b""):
    """Version4.md Sign.  seed = the 32-byte Ed25519 secret key seed."""
    seed, m, f, i = bytes(seed), bytes(m), bytes(f), bytes(i)
    _check_len("v4.public secret seed", seed, 32)           # Step 1
    h = V4_PUBLIC.encode()                                  # Step 2
    m2 = pae([h, m, f, i])                                  # Step 3
    sig = prim.ed25519_sign(seed, m2)                       # Step 4
    return format_token(V4_PUBLIC, m + sig, f)              # Step 5


def v4_public_verify(pk, token, f=b"", i=b""):
    """Version4.md Verify.  Returns m."""
    pk, f, i = bytes(pk), bytes(f), bytes(i)
    _check_len("v4.public public key", pk, 32)              # Step 1
    h = V4_PUBLIC.encode()
    body = parse_token(V4_PUBLIC, token, f)                 # Steps 2-3
    if len(body) < 64:
        raise ValueError("v4.public: payload too short")
    m, s = body[:-64], body[-64:]                           # Step 4: s = rightmost 64 bytes
    m2 = pae([h, m, f, i])                                  # Step 5
    if not prim.ed25519_verify(pk, m2, s):                  # Step 6
        raise ValueError("v4.public: invalid signature")
    return m                                                # Step 7
