#!/usr/bin/env python3
"""find_ctr_wrap.py  -- authoring-time search (results committed in fixtures/ctr_wrap.json).

AES-256-CTR in v1.local / v3.local uses a 128-bit big-endian counter. An implementation that increments only
the low 32 (or 64) bits of the IV agrees with the specification unless the low part wraps inside the message.
This script searches, for the official test key, nonce seeds whose derived CTR IV has its low 32 bits within
64 blocks of 2^32, so that a message of 1 025 bytes crosses the wrap. `--verify` re-derives the IVs of the
committed fixture with R1 (run by the C08 check before it uses them).
"""
import hashlib, hmac, json, multiprocessing, os, sys

HERE = os.path.dirname(os.path.abspath(__file__))
sys.path.insert(0, HERE)
import paseto_spec as S  # noqa: E402
import prim as P         # noqa: E402

KEY = bytes.fromhex("707172737475767778797a7b7c7d7e7f808182838485868788898a8b8c8d8e8f")
FIX = os.path.join(os.path.dirname(HERE), "fixtures", "ctr_wrap.json")
THRESH = 0xFFFFFFC0


def v3_iv(nonce):
    tmp = P.hkdf_sha384(KEY, b"", b"paseto-encryption-key" + nonce, 48)
    return tmp[32:]


def v1_iv(seed, msg):
    return hmac.new(seed, msg, hashlib.sha384).digest()[16:32]


def msg1025():
    unit = '{"data":"this is a signed message","exp":"2022-01-01T00:00:00+00:00"}'
    s = ""
    while len(s) + 1 <= 1025:
        for ch in unit:
            if len(s) + 1 > 1025:
                break
            s += ch
    return s.encode()


def search_v3(args):
    start, step = args
    i = start
    while True:
        n = i.to_bytes(32, "big")
        iv = v3_iv(n)
        if int.from_bytes(iv[12:], "big") >= THRESH:
            return n.hex()
        i += step


def search_v1(args):
    start, step = args
    m = msg1025()
    i = start
    while True:
        seed = i.to_bytes(32, "big")
        if int.from_bytes(v1_iv(seed, m)[12:], "big") >= THRESH:
            return seed.hex()
        i += step


def verify():
    d = json.load(open(FIX))
    ok = True
    for e in d["v3.local"]:
        iv = v3_iv(bytes.fromhex(e["nonce"]))
        ok &= int.from_bytes(iv[12:], "big") >= THRESH and iv.hex() == e["iv"]
    for e in d["v1.local"]:
        iv = v1_iv(bytes.fromhex(e["seed"]), msg1025())
        ok &= int.from_bytes(iv[12:], "big") >= THRESH and iv.hex() == e["iv"]
    print("CTR-WRAP-FIXTURE-OK" if ok else "CTR-WRAP-FIXTURE-BAD")
    sys.exit(0 if ok else 1)


def main():
    if len(sys.argv) > 1 and sys.argv[1] == "--verify":
        verify()
    procs = 16
    out = {"key": KEY.hex(), "threshold_low32": hex(THRESH), "v3.local": [], "v1.local": []}
    with multiprocessing.Pool(procs) as pool:
        # the first hit of any worker
        for fn, name in ((search_v3, "v3.local"), (search_v1, "v1.local")):
            it = pool.imap_unordered(fn, [(k, procs) for k in range(procs)])
            hit = next(it)
            pool.terminate()
            pool = multiprocessing.Pool(procs)
            if name == "v3.local":
                out[name].append({"nonce": hit, "iv": v3_iv(bytes.fromhex(hit)).hex()})
            else:
                out[name].append({"seed": hit, "iv": v1_iv(bytes.fromhex(hit), msg1025()).hex(), "message": "domains::message(1025, 0)"})
    # the value reported by an independent party for v3.local (checked here, kept if it qualifies)
    cand = bytes(29) + bytes.fromhex("169471")
    if int.from_bytes(v3_iv(cand)[12:], "big") >= THRESH:
        out["v3.local"].append({"nonce": cand.hex(), "iv": v3_iv(cand).hex()})
    json.dump(out, open(FIX, "w"), indent=1)
    print(json.dumps(out, indent=1))


if __name__ == "__main__":
    main()
