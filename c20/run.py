#!/usr/bin/env python3
"""Engine C for C20: exhaustive walk of the feature-subset lattice of rusty_paseto.

state       = one feature configuration (subset of the 8 protocol features x layer, + default, + none)
transition  = lattice edge S -> S u {f} (both endpoints explored)
per state   : cargo build + run of /verif/smoke (features forwarded 1:1, which builds /repo's lib from
              the current working tree with exactly that feature set), expected = every enabled
              (protocol, layer) block ran and round-tripped.
No sampling: quick = all singletons, all pairs, the full set (x 3 layers) + default + none; thorough = all 767.
"""
import itertools, json, os, subprocess, sys, time, threading, queue, shutil

sys.path.insert(0, os.path.join(os.path.dirname(os.path.abspath(__file__)), "..", "lib"))
from vp_common import VERIF, REPO, load_known, write_evidence, report

PROTOS = ["v1_local", "v2_local", "v3_local", "v4_local", "v1_public", "v2_public", "v3_public", "v4_public"]
LAYERS = ["core", "generic", "batteries_included"]
LAYER_BLOCKS = {"core": ["core"], "generic": ["core", "generic"], "batteries_included": ["core", "generic", "batteries_included"]}
WORKERS = int(os.environ.get("VERIF_JOBS", "16"))
SMOKE = os.path.join(VERIF, "smoke")
TROOT = os.path.join(VERIF, "target", "c20")


def configs(tier):
    out = []
    if tier == "quick":
        subsets = [(p,) for p in PROTOS] + list(itertools.combinations(PROTOS, 2)) + [tuple(PROTOS)]
    else:
        subsets = [c for r in range(1, 9) for c in itertools.combinations(PROTOS, r)]
    for s in subsets:
        for l in LAYERS:
            out.append({"name": "+".join(s) + "|" + l, "features": list(s) + [l], "protos": list(s), "layer": l})
    out.append({"name": "<default>", "features": ["crate_default"], "protos": ["v4_local", "v4_public"], "layer": "batteries_included"})
    out.append({"name": "<none>", "features": [], "protos": [], "layer": None})
    return out


def expected_blocks(cfg):
    if cfg["layer"] is None:
        return set()
    return {"%s %s" % (p, b) for p in cfg["protos"] for b in LAYER_BLOCKS[cfg["layer"]]}


def cargo_cmd(cfg, release=False):
    cmd = ["cargo", "run", "--offline", "-q", "-j", "2", "--manifest-path", os.path.join(SMOKE, "Cargo.toml"),
           "--no-default-features", "--message-format=json"] + (["--release"] if release else [])
    if cfg["features"]:
        cmd += ["--features", ",".join(cfg["features"])]
    return cmd


def wants_release(cfg):
    """the dev profile is run for every configuration; the release profile (debug assertions compiled out)
    additionally for the singletons, the full set, default and none"""
    return len(cfg["protos"]) in (0, 1, 8) or cfg["name"] == "<default>"


def run_one(cfg, wid):
    r = run_profile(cfg, wid, False)
    if r["verdict"] == "ok" and wants_release(cfg):
        r2 = run_profile(cfg, wid, True)
        r["release_too"] = True
        r["wall_s"] = round(r["wall_s"] + r2["wall_s"], 2)
        if r2["verdict"] != "ok":
            r2["kind"] = "release:" + r2.get("kind", "?")
            r2["wall_s"] = r["wall_s"]
            r2["release_too"] = True
            return r2
    return r


def run_profile(cfg, wid, release):
    env = dict(os.environ, CARGO_NET_OFFLINE="true", CARGO_TARGET_DIR=os.path.join(TROOT, "w%d" % wid))
    env.pop("RUSTFLAGS", None)  # the hooks guard is OFF here: C20 is about the crate as shipped
    t0 = time.time()
    p = subprocess.run(cargo_cmd(cfg, release), env=env, stdout=subprocess.PIPE, stderr=subprocess.PIPE, text=True, timeout=1800)
    codes, first_err, ran, fails, ok_line = [], None, set(), [], False
    client_codes = []  # errors located in the smoke client (pv_smoke), not in the crate
    for line in p.stdout.splitlines():
        if line.startswith("{"):
            try:
                m = json.loads(line)
            except ValueError:
                continue
            if m.get("reason") == "compiler-message" and m["message"].get("level") == "error":
                c = (m["message"].get("code") or {}).get("code")
                if c:
                    codes.append(c)
                    if m.get("target", {}).get("name") == "pv_smoke":
                        client_codes.append(c)
                if first_err is None:
                    first_err = "%s: %s" % (m.get("target", {}).get("name"), m["message"].get("message"))
            continue
        if line.startswith("RAN "):
            ran.add(line[4:].strip())
        elif line.startswith("SMOKE-FAIL "):
            fails.append(line[11:].strip())
        elif line.startswith("SMOKE-OK"):
            ok_line = True
    res = {"cfg": cfg["name"], "wall_s": round(time.time() - t0, 2), "rc": p.returncode}
    if codes or (p.returncode != 0 and not ran and not fails):
        res["verdict"] = "compile-error"
        res["in_client"] = bool(codes) and len(client_codes) == len(codes)
        res["kind"] = ("client-compile:" if res["in_client"] else "compile:") + "+".join(sorted(set(codes)) or ["unknown"])
        res["detail"] = first_err or p.stderr[-600:]
        if not codes and ("could not compile" not in p.stderr):
            res["verdict"] = "machinery-error"
    elif fails:
        res["verdict"] = "smoke-fail"
        res["kind"] = "smoke:" + fails[0].split(" ")[0] + "/" + fails[0].split(" ")[1]
        res["detail"] = "; ".join(fails)
    elif p.returncode != 0 or not ok_line:
        res["verdict"] = "smoke-fail"
        res["kind"] = "smoke:crash"
        res["detail"] = (p.stderr[-600:] or "exit %d" % p.returncode)
    elif ran != expected_blocks(cfg):
        res["verdict"] = "smoke-fail"
        res["kind"] = "smoke:blocks"
        res["detail"] = "expected blocks %s, ran %s" % (sorted(expected_blocks(cfg)), sorted(ran))
    else:
        res["verdict"] = "ok"
    res["blocks"] = len(ran)
    return res


def explore(cfgs):
    q = queue.Queue()
    for c in cfgs:
        q.put(c)
    results, lock = [], threading.Lock()

    def worker(wid):
        while True:
            try:
                c = q.get_nowait()
            except queue.Empty:
                return
            try:
                r = run_one(c, wid)
            except Exception as ex:  # timeout etc: machinery, never a verdict
                r = {"cfg": c["name"], "verdict": "machinery-error", "detail": repr(ex), "blocks": 0, "wall_s": 0}
            with lock:
                results.append(r)

    ths = [threading.Thread(target=worker, args=(i,)) for i in range(min(WORKERS, len(cfgs)))]
    [t.start() for t in ths]
    [t.join() for t in ths]
    return results


def main():
    if len(sys.argv) >= 3 and sys.argv[1] == "--replay":
        rp = json.load(open(sys.argv[2]))
        cfg = rp["config"]
        r = run_one(cfg, 0)
        print(json.dumps(r, indent=1))
        if r["verdict"] in ("compile-error", "smoke-fail"):
            print("VIOLATION property=C20 replay=%s" % sys.argv[2])
            sys.exit(1)
        sys.exit(0 if r["verdict"] == "ok" else 2)
    tier = sys.argv[1] if len(sys.argv) > 1 else "quick"
    t0 = time.time()
    os.makedirs(TROOT, exist_ok=True)
    if not os.path.exists(os.path.join(SMOKE, "Cargo.lock")):
        own = os.path.join(REPO, "Cargo.lock")
        shutil.copy(own if os.path.exists(own) else os.path.join(VERIF, "harness", "Cargo.lock"), os.path.join(SMOKE, "Cargo.lock"))
    cfgs = configs(tier)
    results = explore(cfgs)
    by = {r["cfg"]: r for r in results}
    mach = [r for r in results if r["verdict"] == "machinery-error"]
    if mach:
        print("MACHINERY-ERROR C20: %d configurations could not be evaluated, e.g. %s: %s" % (len(mach), mach[0]["cfg"], mach[0].get("detail")))
        sys.exit(2)
    # if the smoke client fails to compile - with errors located in the client, not in the crate - in EVERY
    # configuration that has a protocol block, the client is out of date with the crate's API (machinery, not
    # a verdict on feature combinations); if it compiles in some configurations and not in others, that is
    # the property's "an additional feature breaks code that compiled without it"
    with_blocks = [r for r in results if r["cfg"] != "<none>"]
    if with_blocks and all(r.get("in_client") for r in with_blocks):
        r = with_blocks[0]
        print("MACHINERY-ERROR C20: the smoke client does not compile against the crate in any configuration (client out of date with the API?): %s" % r.get("detail"))
        sys.exit(2)
    ok = {r["cfg"] for r in results if r["verdict"] == "ok"}
    # lattice edges with both endpoints explored and passing
    edges = edges_ok = 0
    names = {c["name"]: c for c in cfgs}
    for c in cfgs:
        if c["layer"] is None or c["name"] == "<default>":
            continue
        for f in PROTOS:
            if f in c["protos"]:
                continue
            sup = "+".join([p for p in PROTOS if p in c["protos"] or p == f]) + "|" + c["layer"]
            if sup in names:
                edges += 1
                if c["name"] in ok and sup in ok:
                    edges_ok += 1
    known = load_known("C20")
    viols = []
    for r in sorted(results, key=lambda r: (len(r["cfg"]), r["cfg"])):
        if r["verdict"] == "ok":
            continue
        viols.append({
            "key": "C20|%s|%s" % (r["cfg"], r["kind"]),
            "what": "feature configuration [%s] %s: %s" % (r["cfg"], r["kind"], (r.get("detail") or "")[:300]),
            "replay": {"config": names[r["cfg"]], "command": " ".join(cargo_cmd(names[r["cfg"]])), "observed": r},
        })
    hist = {}
    for r in results:
        k = r["verdict"] if r["verdict"] == "ok" else r["kind"]
        hist[k] = hist.get(k, 0) + 1
    cov = {
        "states": len(results),
        "transitions": max(edges, 1),
        "traces_validated_against_impl": len(results),
        "exhaustive": True,
        "space": ("all 255 non-empty subsets of the 8 protocol features x {core, generic, batteries_included} + default + none"
                  if tier == "thorough" else "all 8 singletons, all 28 pairs and the full set x 3 layers + default + none"),
        "lattice_edges_explored": edges,
        "lattice_edges_both_endpoints_pass": edges_ok,
        "round_trip_blocks_executed": sum(r.get("blocks", 0) for r in results),
        "configurations_also_built_and_run_in_release_profile": sum(1 for r in results if r.get("release_too")),
        "outcome_histogram": hist,
        "samples": [{"config": r["cfg"], "verdict": r["verdict"], "blocks_run": r.get("blocks"), "wall_s": r.get("wall_s")} for r in results[:3] + results[-2:]],
        "workers": WORKERS,
    }
    rc = report("C20", viols, known)
    write_evidence("C20", tier, cov, time.time() - t0, len(viols),
                   ["rustc/cargo as installed and the locked dependency versions decide 'compiles'",
                    "the smoke client (one fixed round trip per protocol and layer) is the observable of 'works'"])
    print("C20 %s: %d configurations, %d ok, %d lattice edges (%d pass/pass), %d round-trip blocks, %.1fs" %
          (tier, len(results), len(ok), edges, edges_ok, cov["round_trip_blocks_executed"], time.time() - t0))
    sys.exit(rc)


if __name__ == "__main__":
    try:
        main()
    except SystemExit:
        raise
    except BaseException as e:  # an engine crash is a machinery exit (2), never a verdict
        import traceback
        traceback.print_exc()
        print("MACHINERY-ERROR: C20 engine crashed: %r" % (e,))
        sys.exit(2)
