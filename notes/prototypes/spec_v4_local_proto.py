import hashlib, hmac, base64, struct, time
def b64(b): return base64.urlsafe_b64encode(b).rstrip(b'=')
def le64(n): return struct.pack('<Q', n)
def pae(pieces): return le64(len(pieces)) + b''.join(le64(len(p))+p for p in pieces)
def rotl(x,n): return ((x<<n)&0xffffffff)|(x>>(32-n))
def qr(s,a,b,c,d):
    s[a]=(s[a]+s[b])&0xffffffff; s[d]=rotl(s[d]^s[a],16)
    s[c]=(s[c]+s[d])&0xffffffff; s[b]=rotl(s[b]^s[c],12)
    s[a]=(s[a]+s[b])&0xffffffff; s[d]=rotl(s[d]^s[a],8)
    s[c]=(s[c]+s[d])&0xffffffff; s[b]=rotl(s[b]^s[c],7)
def rounds(s):
    for _ in range(10):
        qr(s,0,4,8,12);qr(s,1,5,9,13);qr(s,2,6,10,14);qr(s,3,7,11,15)
        qr(s,0,5,10,15);qr(s,1,6,11,12);qr(s,2,7,8,13);qr(s,3,4,9,14)
C=[0x61707865,0x3320646e,0x79622d32,0x6b206574]
def hchacha20(key,n16):
    s=C+list(struct.unpack('<8L',key))+list(struct.unpack('<4L',n16)); rounds(s)
    return struct.pack('<8L',*(s[0:4]+s[12:16]))
def chacha20_xor(key,counter,n12,data):
    out=bytearray()
    k=list(struct.unpack('<8L',key)); n=list(struct.unpack('<3L',n12))
    for i in range(0,len(data),64):
        init=C+k+[(counter+i//64)&0xffffffff]+n; s=init[:]; rounds(s)
        ks=struct.pack('<16L',*[(a+b)&0xffffffff for a,b in zip(s,init)])
        blk=data[i:i+64]; out+=bytes(x^y for x,y in zip(blk,ks))
    return bytes(out)
def xchacha20_xor(key,n24,data,counter=0):
    sub=hchacha20(key,n24[:16]); return chacha20_xor(sub,counter,b'\0\0\0\0'+n24[16:],data)
def v4_local_encrypt(key,n,m,f=b'',i=b''):
    h=b'v4.local.'
    tmp=hashlib.blake2b(b'paseto-encryption-key'+n,key=key,digest_size=56).digest()
    ek,n2=tmp[:32],tmp[32:]
    ak=hashlib.blake2b(b'paseto-auth-key-for-aead'+n,key=key,digest_size=32).digest()
    c=xchacha20_xor(ek,n2,m)
    t=hashlib.blake2b(pae([h,n,c,f,i]),key=ak,digest_size=32).digest()
    tok=h+b64(n+c+t)
    if f: tok+=b'.'+b64(f)
    return tok
key=bytes.fromhex('707172737475767778797a7b7c7d7e7f808182838485868788898a8b8c8d8e8f')
m=b'{"data":"this is a secret message","exp":"2022-01-01T00:00:00+00:00"}'
t=v4_local_encrypt(key,bytes(32),m)
print(t.decode())
print(t.decode()=="v4.local.AAAAAAAAAAAAAAAAAAAAAAAAAAAAAAAAAAAAAAAAAAAQAr68PS4AXe7If_ZgesdkUMvSwscFlAl1pk5HC0e8kApeaqMfGo_7OpBnwJOAbY9V7WU6abu74MmcUE8YWAiaArVI8XJ5hOb_4v9RmDkneN0S92dx0OW4pgy7omxgf3S8c3LlQg")
s=time.time(); 
for _ in range(200): v4_local_encrypt(key,bytes(32),m)
print('v4.local 69B: %.0f us'%((time.time()-s)/200*1e6))
s=time.time(); v4_local_encrypt(key,bytes(32),b'a'*65537); print('64KiB: %.2f s'%(time.time()-s))
