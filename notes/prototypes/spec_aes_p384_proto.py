import time, hashlib, hmac
# --- AES-256 encrypt block (pure python, table based)
def _sbox():
    p=q=1; s=[0]*256
    while True:
        p=p^((p<<1)&0xff)^(0x1b if p&0x80 else 0)
        q^=q<<1; q^=q<<2; q^=q<<4; q&=0xff
        if q&0x80: q^=0x09
        x=q^((q<<1|q>>7)&0xff)^((q<<2|q>>6)&0xff)^((q<<3|q>>5)&0xff)^((q<<4|q>>4)&0xff)
        s[p]=(x^0x63)&0xff
        if p==1: break
    s[0]=0x63; return s
S=_sbox()
def xt(a): return ((a<<1)^0x1b)&0xff if a&0x80 else a<<1
T0=[]; 
for x in range(256):
    s=S[x]; s2=xt(s); s3=s2^s
    T0.append((s2<<24)|(s<<16)|(s<<8)|s3)
def ror8(w): return ((w>>8)|(w<<24))&0xffffffff
T1=[ror8(w) for w in T0]; T2=[ror8(w) for w in T1]; T3=[ror8(w) for w in T2]
def expand(key):
    w=[int.from_bytes(key[i:i+4],'big') for i in range(0,32,4)]; rc=1
    for i in range(8,60):
        t=w[i-1]
        if i%8==0:
            t=((t<<8)|(t>>24))&0xffffffff
            t=(S[t>>24]<<24)|(S[(t>>16)&255]<<16)|(S[(t>>8)&255]<<8)|S[t&255]
            t^=rc<<24; rc=xt(rc)
        elif i%8==4:
            t=(S[t>>24]<<24)|(S[(t>>16)&255]<<16)|(S[(t>>8)&255]<<8)|S[t&255]
        w.append(w[i-8]^t)
    return w
def enc_block(w,blk):
    s=[int.from_bytes(blk[i:i+4],'big')^w[i//4] for i in range(0,16,4)]
    for r in range(1,14):
        s=[T0[s[i]>>24]^T1[(s[(i+1)%4]>>16)&255]^T2[(s[(i+2)%4]>>8)&255]^T3[s[(i+3)%4]&255]^w[4*r+i] for i in range(4)]
    o=b''
    for i in range(4):
        v=(S[s[i]>>24]<<24)|(S[(s[(i+1)%4]>>16)&255]<<16)|(S[(s[(i+2)%4]>>8)&255]<<8)|S[s[(i+3)%4]&255]
        o+=(v^w[56+i]).to_bytes(4,'big')
    return o
k=bytes(range(32)); w=expand(k)
print(enc_block(w,bytes.fromhex('00112233445566778899aabbccddeeff')).hex()=='8ea2b7ca516745bfeafc49904b496089')
s=time.time()
for i in range(4096): enc_block(w,i.to_bytes(16,'big'))
print('AES block: %.1f us'%((time.time()-s)/4096*1e6))
# --- P-384
p=2**384-2**128-2**96+2**32-1
n=0xffffffffffffffffffffffffffffffffffffffffffffffffc7634d81f4372ddf581a0db248b0a77aecec196accc52973
b=0xb3312fa7e23ee7e4988e056be3f82d19181d9c6efe8141120314088f5013875ac656398d8a2ed19d2a85c8edd3ec2aef
G=(0xaa87ca22be8b05378eb1c71ef320ad746e1d3b628ba79b9859f741e082542a385502f25dbf55296c3a545e3872760ab7,0x3617de4a96262c6f5d9e98bf9292dc29f8f41dbd289a147ce9da3113b5f0b8c00a60b1ce1d7e819d7a431d7c90ea0e5f)
def jdbl(P):
    X,Y,Z=P
    if Y==0: return (0,1,0)
    S=4*X*Y*Y%p; M=(3*(X-Z*Z)*(X+Z*Z))%p
    X2=(M*M-2*S)%p; Y2=(M*(S-X2)-8*Y**4)%p; Z2=2*Y*Z%p
    return (X2,Y2,Z2)
def jadd(P,Q):
    if P[2]==0: return Q
    if Q[2]==0: return P
    X1,Y1,Z1=P; X2,Y2,Z2=Q
    U1=X1*Z2*Z2%p; U2=X2*Z1*Z1%p; S1=Y1*Z2**3%p; S2=Y2*Z1**3%p
    if U1==U2:
        if S1!=S2: return (0,1,0)
        return jdbl(P)
    H=U2-U1; R=S2-S1
    X3=(R*R-H**3-2*U1*H*H)%p; Y3=(R*(U1*H*H-X3)-S1*H**3)%p; Z3=H*Z1*Z2%p
    return (X3,Y3,Z3)
def mul(k,P):
    R=(0,1,0); Q=(P[0],P[1],1)
    while k:
        if k&1: R=jadd(R,Q)
        Q=jdbl(Q); k>>=1
    if R[2]==0: return None
    zi=pow(R[2],-1,p); return (R[0]*zi*zi%p, R[1]*zi**3%p)
d=int('20347609607477aca8fbfbc5e6218455f3199669792ef8b466faa87bdc67798144c848dd03661eed5ac62461340cea96',16)
s=time.time(); Q=mul(d,G); print('P-384 mul: %.1f ms'%((time.time()-s)*1e3))
print(('%02x'%(2+(Q[1]&1)))+'%096x'%Q[0]=='02fbcb7c69ee1c60579be7a334134878d9c5c5bf35d552dab63c0140397ed14cef637d7720925c44699ea30e72874c72fb')
