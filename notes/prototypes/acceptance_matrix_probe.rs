use rusty_paseto::prelude::*;
type Build = Box<dyn Fn(&str, Option<&str>, Option<&str>) -> String>;
type Verify = Box<dyn Fn(&str, Option<&str>, Option<&str>) -> Result<String, String>>;
fn e<T: std::fmt::Debug>(x: T) -> String { format!("{x:?}").split(|c: char| !c.is_alphanumeric()).next().unwrap().to_string() }
fn protos(kb: [u8;32]) -> Vec<(&'static str, Build, Verify)> {
    let sk=Key::<64>::try_from("b4cbfb43df4ce210727d953e4a713307fa19bb7d9f85041438d9e11b942a37741eb9dbbbbc047c03fd70604e0071f0987e16b28b757225c11f00415d0e20b1a2").unwrap();
    let pk=Key::<32>::try_from("1eb9dbbbbc047c03fd70604e0071f0987e16b28b757225c11f00415d0e20b1a2").unwrap();
    let sk3=Key::<48>::try_from("20347609607477aca8fbfbc5e6218455f3199669792ef8b466faa87bdc67798144c848dd03661eed5ac62461340cea96").unwrap();
    let pk3=Key::<49>::try_from("02fbcb7c69ee1c60579be7a334134878d9c5c5bf35d552dab63c0140397ed14cef637d7720925c44699ea30e72874c72fb").unwrap();
    let rsk: &'static [u8] = Box::leak(std::fs::read("/tmp/scratch/rsa.pk8").unwrap().into_boxed_slice()); let rpk: &'static [u8] = Box::leak(std::fs::read("/tmp/scratch/rsa_pub.der").unwrap().into_boxed_slice());
    let mut v: Vec<(&'static str, Build, Verify)> = vec![];
    macro_rules! loc_ia { (true, $p:ident, $a:ident) => { if let Some(a)=$a { $p.set_implicit_assertion(ImplicitAssertion::from(a)); } }; (false, $p:ident, $a:ident) => {} }
    macro_rules! loc_dec { (true, $V:ty, $t:expr, $k:expr, $f:expr, $a:expr) => { Paseto::<$V,Local>::try_decrypt($t,$k,$f.map(Footer::from),$a.map(ImplicitAssertion::from)).map_err(e) }; (false, $V:ty, $t:expr, $k:expr, $f:expr, $a:expr) => { Paseto::<$V,Local>::try_decrypt($t,$k,$f.map(Footer::from)).map_err(e) } }
    macro_rules! loc { ($name:expr, $V:ty, $ia:tt) => {{
        let b: Build = Box::new(move |m, f, a| { let key=PasetoSymmetricKey::<$V,Local>::from(Key::from(kb)); let n=Key::<32>::from([9u8;32]); let mut p=Paseto::<$V,Local>::builder(); p.set_payload(Payload::from(m)); if let Some(f)=f {p.set_footer(Footer::from(f));} let _=a; loc_ia!($ia, p, a); p.try_encrypt(&key,&PasetoNonce::<$V,Local>::from(&n)).unwrap() });
        let vf: Verify = Box::new(move |t, f, a| { let key=PasetoSymmetricKey::<$V,Local>::from(Key::from(kb)); let _=a; loc_dec!($ia, $V, t, &key, f, a) });
        v.push(($name, b, vf)); }} }
    loc!("v1.local", V1, false); loc!("v2.local", V2, false); loc!("v3.local", V3, true); loc!("v4.local", V4, true);
    { let b: Build = Box::new(move |m,f,_a| { let s=PasetoAsymmetricPrivateKey::<V1,Public>::from(rsk); let mut p=Paseto::<V1,Public>::builder(); p.set_payload(Payload::from(m)); if let Some(f)=f {p.set_footer(Footer::from(f));} p.try_sign(&s).unwrap() });
      let vf: Verify = Box::new(move |t,f,_a| { let p=PasetoAsymmetricPublicKey::<V1,Public>::from(rpk); Paseto::<V1,Public>::try_verify(t,&p,f.map(Footer::from)).map_err(e) }); v.push(("v1.public", b, vf)); }
    { let (sk1,pk1)=(sk.clone(),pk.clone()); let b: Build = Box::new(move |m,f,_a| { let s=PasetoAsymmetricPrivateKey::<V2,Public>::from(&sk1); let mut p=Paseto::<V2,Public>::builder(); p.set_payload(Payload::from(m)); if let Some(f)=f {p.set_footer(Footer::from(f));} p.try_sign(&s).unwrap() });
      let vf: Verify = Box::new(move |t,f,_a| { let p=PasetoAsymmetricPublicKey::<V2,Public>::from(&pk1); Paseto::<V2,Public>::try_verify(t,&p,f.map(Footer::from)).map_err(e) }); v.push(("v2.public", b, vf)); }
    { let b: Build = Box::new(move |m,f,a| { let s=PasetoAsymmetricPrivateKey::<V3,Public>::from(&sk3); let mut p=Paseto::<V3,Public>::builder(); p.set_payload(Payload::from(m)); if let Some(f)=f {p.set_footer(Footer::from(f));} if let Some(a)=a {p.set_implicit_assertion(ImplicitAssertion::from(a));} p.try_sign(&s).unwrap() });
      let vf: Verify = Box::new(move |t,f,a| { let p=PasetoAsymmetricPublicKey::<V3,Public>::try_from(&pk3).unwrap(); Paseto::<V3,Public>::try_verify(t,&p,f.map(Footer::from),a.map(ImplicitAssertion::from)).map_err(e) }); v.push(("v3.public", b, vf)); }
    { let (sk1,pk1)=(sk.clone(),pk.clone()); let b: Build = Box::new(move |m,f,a| { let s=PasetoAsymmetricPrivateKey::<V4,Public>::from(&sk1); let mut p=Paseto::<V4,Public>::builder(); p.set_payload(Payload::from(m)); if let Some(f)=f {p.set_footer(Footer::from(f));} if let Some(a)=a {p.set_implicit_assertion(ImplicitAssertion::from(a));} p.try_sign(&s).unwrap() });
      let vf: Verify = Box::new(move |t,f,a| { let p=PasetoAsymmetricPublicKey::<V4,Public>::from(&pk1); Paseto::<V4,Public>::try_verify(t,&p,f.map(Footer::from),a.map(ImplicitAssertion::from)).map_err(e) }); v.push(("v4.public", b, vf)); }
    v
}
fn norm(x: Option<&str>) -> &str { x.unwrap_or("") }
fn main(){
    let ps = protos(*b"wubbalubbadubdubwubbalubbadubdub");
    let foots: [Option<&str>; 9] = [None, Some(""), Some("f"), Some("g"), Some("F"), Some("ff"), Some("ƒ"), Some("a.b"), Some("{\"kid\":1}")];
    let asserts: [Option<&str>; 7] = [None, Some(""), Some("a"), Some("ab"), Some("A"), Some("f"), Some("ƒ")];
    let m = "{\"data\":\"héllo\"}";
    let (mut n, mut bad) = (0,0);
    // C05 + C06 matrix
    for (name, b, v) in &ps { let ia = name.starts_with("v3")||name.starts_with("v4");
        for f in foots { for a in asserts { if !ia && a.is_some() { continue; } let t = b(m, f, a);
            // footer segment check
            let segs: Vec<&str> = t.split('.').collect(); let has = segs.len()==4; if has != f.is_some() { /* F3: Some("") gives 4 segs */ }
            for f2 in foots { for a2 in asserts { if !ia && a2.is_some() { continue; } n+=1;
                let r = v(&t, f2, a2); let want = norm(f)==norm(f2) && norm(a)==norm(a2);
                if r.is_ok() != want || (want && r.as_deref().ok()!=Some(m)) { bad+=1; if bad<10 { println!("BAD {name} built f={f:?} a={a:?} presented f={f2:?} a={a2:?} -> {r:?}"); } } }}
        }}}
    println!("C05/C06 matrix: {n} presentations bad={bad}");
    // C06 split pairs
    for (name, b, v) in &ps { if !(name.starts_with("v3")||name.starts_with("v4")) { continue; } let t=b(m,Some("ab"),Some("c")); for (f2,a2) in [(Some("a"),Some("bc")),(Some("abc"),None),(None,Some("abc")),(Some("ab"),Some("c"))] { println!("split {name} presented f={f2:?} a={a2:?} -> {:?}", v(&t,f2,a2).is_ok()); } }
    // C07 cross pairs
    let (mut n, mut bad) = (0,0); let mut kinds = std::collections::BTreeMap::<String,usize>::new();
    for (xn, xb, _) in &ps { for (yn, _, yv) in &ps { if xn==yn { continue; } for f in [None, Some("f")] {
        let t = xb(m, f, None); let relabeled = format!("{}.{}", yn, t.splitn(3,'.').nth(2).unwrap());
        for tok in [t.clone(), relabeled] { n+=1; let r = yv(&tok, f, None); match r { Ok(_) => { bad+=1; println!("BAD {xn} -> {yn} accepted"); }, Err(k) => *kinds.entry(k).or_default()+=1 } } } } }
    println!("C07: {n} presentations bad={bad} kinds={kinds:?}");
    // C04 wrong symmetric key
    let ps2 = protos([0u8;32]); let (mut n, mut bad)=(0,0);
    for i in 0..4 { let t = ps[i].1(m, Some("f"), None); n+=1; if ps2[i].2(&t, Some("f"), None).is_ok() { bad+=1; } if ps[i].2(&t, Some("f"), None).as_deref().ok()!=Some(m) { bad+=1; } }
    println!("C04 local: {n} bad={bad}");
}
