use rusty_paseto::prelude::*;
use rusty_paseto::verif_hooks;
#[derive(Debug, Clone, Copy, PartialEq)] enum Class { Strict, Lenient }
fn days_from_civil(y: i64, m: i64, d: i64) -> i64 { let y = if m <= 2 { y - 1 } else { y }; let era = if y >= 0 { y } else { y - 399 } / 400; let yoe = y - era * 400; let doy = (153 * (if m > 2 { m - 3 } else { m + 9 }) + 2) / 5 + d - 1; let doe = yoe * 365 + yoe / 4 - yoe / 100 + doy; era * 146097 + doe - 719468 }
fn dim(y: i64, m: i64) -> i64 { match m { 1|3|5|7|8|10|12 => 31, 4|6|9|11 => 30, _ => if (y%4==0 && y%100!=0) || y%400==0 {29} else {28} } }
fn num(b: &[u8]) -> Option<i64> { if b.is_empty() || !b.iter().all(|c| c.is_ascii_digit()) { return None; } Some(b.iter().fold(0i64, |a, c| a*10 + (*c - b'0') as i64)) }
// RFC 3339 section 5.6 reference: returns (class, instant in ns since epoch)
fn rfc3339(s: &str) -> Option<(Class, i128)> {
    let b = s.as_bytes(); let mut class = Class::Strict;
    if b.len() < 20 { return None; }
    if b[4]!=b'-' || b[7]!=b'-' || b[13]!=b':' || b[16]!=b':' { return None; }
    let (y, mo, d) = (num(&b[0..4])?, num(&b[5..7])?, num(&b[8..10])?);
    match b[10] { b'T' => {}, b't' | b' ' => class = Class::Lenient, _ => return None }
    let (h, mi, sec) = (num(&b[11..13])?, num(&b[14..16])?, num(&b[17..19])?);
    if mo<1 || mo>12 || d<1 || d>dim(y,mo) || h>23 || mi>59 || sec>60 { return None; }
    if sec == 60 { class = Class::Lenient; }
    let mut i = 19; let mut ns: i128 = 0;
    if b[i]==b'.' { i+=1; let st=i; while i<b.len() && b[i].is_ascii_digit() { i+=1; } if i==st { return None; }
        let digs=&b[st..i]; let mut scale: i128 = 100_000_000; for c in digs.iter().take(9) { ns += (*c - b'0') as i128 * scale; scale/=10; } }
    if i>=b.len() { return None; }
    let off: i64 = match b[i] { b'Z' => { if i+1!=b.len() {return None;} 0 }, b'z' => { if i+1!=b.len() {return None;} class=Class::Lenient; 0 },
        c @ (b'+'|b'-') => { if i+6!=b.len() || b[i+3]!=b':' { return None; } let (oh, om) = (num(&b[i+1..i+3])?, num(&b[i+4..i+6])?); if oh>23 || om>59 { return None; } let o = oh*3600+om*60; if c==b'-' { -o } else { o } }, _ => return None };
    let secs = days_from_civil(y, mo, d)*86400 + h*3600 + mi*60 + sec - off;
    Some((class, secs as i128 * 1_000_000_000 + ns))
}
fn main(){
    let key = PasetoSymmetricKey::<V4, Local>::from(Key::from(*b"wubbalubbadubdubwubbalubbadubdub"));
    let n = Key::<32>::from([0u8;32]); let nonce = PasetoNonce::<V4, Local>::from(&n);
    let now_s: i64 = 1_790_000_000; let now_ns: i128 = now_s as i128 * 1_000_000_000 + 123_456_789;
    verif_hooks::set_now(Some(time::OffsetDateTime::from_unix_timestamp_nanos(now_ns).unwrap()));
    // instants relative to now
    let rel: Vec<i128> = vec![-(now_ns - 31_536_000_000_000_000), -315_360_000_000_000_000, -86_400_000_000_000, -3_600_000_000_000, -2_000_000_000, -1_000_000_000, -1, 0, 1, 1_000_000_000, 2_000_000_000, 60_000_000_000, 3_600_000_000_000, 86_400_000_000_000, 315_360_000_000_000_000, 221_000_000_000_000_000_000];
    let mut offs: Vec<i64> = vec![0]; for h in 0..24 { for m in 0..60 { if h+m>0 { offs.push(h*3600+m*60); offs.push(-(h*3600+m*60)); } } }
    let (mut n_cases, mut mism, mut strict_n, mut lenient_n) = (0u64, 0u64, 0u64, 0u64);
    let mut shown = 0;
    for claim in ["exp", "nbf"] { for r in &rel { for off in &offs { for zform in 0..3 { for sep in ["T","t"," "] { for k in [0usize,1,3,6,9] {
        if zform>0 && *off!=0 { continue; }
        let inst = now_ns + r; // render instant in offset `off` with k frac digits (truncate => instant changes; oracle recomputes from string)
        let local = inst + *off as i128 * 1_000_000_000; let secs = local.div_euclid(1_000_000_000); let nanos = local.rem_euclid(1_000_000_000);
        let days = secs.div_euclid(86400); let sod = secs.rem_euclid(86400);
        // civil from days
        let z = days as i64 + 719468; let era = if z>=0 {z} else {z-146096}/146097; let doe = z - era*146097; let yoe = (doe - doe/1460 + doe/36524 - doe/146096)/365; let y = yoe + era*400; let doy = doe - (365*yoe + yoe/4 - yoe/100); let mp = (5*doy+2)/153; let d = doy - (153*mp+2)/5 + 1; let m = if mp<10 {mp+3} else {mp-9}; let y = if m<=2 {y+1} else {y};
        if !(0..=9999).contains(&y) { continue; }
        let frac = if k==0 { String::new() } else { format!(".{}", &format!("{:09}", nanos)[..k]) };
        let offs_s = if *off==0 { match zform {0=>"Z".to_string(),1=>"z".to_string(),_=>"+00:00".to_string()} } else { format!("{}{:02}:{:02}", if *off<0 {'-'} else {'+'}, off.abs()/3600, off.abs()%3600/60) };
        let s = format!("{:04}-{:02}-{:02}{}{:02}:{:02}:{:02}{}{}", y, m, d, sep, sod/3600, sod%3600/60, sod%60, frac, offs_s);
        let (class, t) = rfc3339(&s).expect(&s);
        let payload = format!("{{\"{claim}\":\"{s}\"}}");
        let tok = Paseto::<V4, Local>::builder().set_payload(Payload::from(payload.as_str())).try_encrypt(&key, &nonce).unwrap();
        let mut p = PasetoParser::<V4, Local>::default(); let ok = p.parse(&tok, &key).is_ok(); drop(p);
        n_cases += 1; if class==Class::Strict {strict_n+=1} else {lenient_n+=1}
        let must_reject = if claim=="exp" { t <= now_ns } else { t > now_ns }; let must_accept = if claim=="exp" { t > now_ns } else { t < now_ns };
        let bad = (must_reject && ok) || (class==Class::Strict && must_accept && !ok);
        if bad { mism += 1; if shown < 10 { shown+=1; println!("MISMATCH {claim} {s} class={class:?} t-now={} lib_ok={ok}", t-now_ns); } }
    }}}}}}
    println!("cases={n_cases} strict={strict_n} lenient={lenient_n} mismatches={mism}");
}
