// Design-phase probe (NOT framework code): stateright BFS over a reference model of PasetoBuilder,
// every transition replayed on the real builder under a frozen clock (hook H2).
// Run against the scratch copy with the candidate F5 repair: 9 keys => 918 540 unique states,
// 12 859 561 generated states (transitions), depth 23, 12.9 s on 16 threads, no discovery.
// Reduced alphabet (first 5 keys): 6 804 unique states, 61 237 transitions, 0.65 s.
use rusty_paseto::prelude::*;
use rusty_paseto::verif_hooks;
use stateright::*;
use std::collections::BTreeMap;
use std::hash::{Hash, Hasher};
use time::format_description::well_known::Rfc3339;

const KEYS: [&str; 9] = ["exp","nbf","iat","iss","sub","aud","jti","a","b"];
const T0: i64 = 1_800_000_000; // frozen clock
#[derive(Clone, Debug, PartialEq, Eq, Hash)]
enum Op { Set(usize, u8), Ack, Footer, Build }
#[derive(Clone, Debug, PartialEq, Eq, Hash, PartialOrd, Ord)]
struct M { cnt: [u8; 9], last: [u8; 9], ack: bool, exp_after_ack: bool, footer: bool, builds: u8 }
#[derive(Clone, Debug)]
struct St { m: M, path: Vec<Op>, verdict: Result<(), String> }
impl Hash for St { fn hash<H: Hasher>(&self, h: &mut H) { self.m.hash(h); self.verdict.is_ok().hash(h); } }
impl PartialEq for St { fn eq(&self, o: &Self) -> bool { self.m == o.m && self.verdict.is_ok()==o.verdict.is_ok() } }

fn val(k: usize, v: u8) -> String { match KEYS[k] { "exp"|"nbf"|"iat" => format!("20{}0-01-01T00:00:00Z", 3+v), _ => format!("val{v}") } }
fn inst(s: &str) -> i128 { time::OffsetDateTime::parse(s, &Rfc3339).unwrap().unix_timestamp_nanos() }

struct BM { nkeys: usize }
fn replay(path: &[Op]) -> Result<(), String> {
    verif_hooks::set_now(Some(time::OffsetDateTime::from_unix_timestamp(T0).unwrap()));
    let key = PasetoSymmetricKey::<V4, Local>::from(Key::from(*b"wubbalubbadubdubwubbalubbadubdub"));
    let vals: Vec<Vec<String>> = (0..9).map(|k| (0..2).map(|v| val(k, v)).collect()).collect();
    let mut b = PasetoBuilder::<V4, Local>::default();
    let mut m = M { cnt: [0;9], last: [0;9], ack: false, exp_after_ack: false, footer: false, builds: 0 };
    for op in path {
        match op {
            Op::Set(k, v) => { let s = vals[*k][*v as usize].as_str();
                match KEYS[*k] { "exp" => {b.set_claim(ExpirationClaim::try_from(s).unwrap());}, "nbf" => {b.set_claim(NotBeforeClaim::try_from(s).unwrap());}, "iat" => {b.set_claim(IssuedAtClaim::try_from(s).unwrap());},
                  "iss" => {b.set_claim(IssuerClaim::from(s));}, "sub" => {b.set_claim(SubjectClaim::from(s));}, "aud" => {b.set_claim(AudienceClaim::from(s));}, "jti" => {b.set_claim(TokenIdentifierClaim::from(s));},
                  kk => {b.set_claim(CustomClaim::try_from((kk, s)).unwrap());} }
                if *k==0 && m.ack && m.cnt[0]==0 { m.exp_after_ack = true; }
                m.cnt[*k] = (m.cnt[*k]+1).min(2); m.last[*k] = *v; }
            Op::Ack => { b.set_no_expiration_danger_acknowledged(); m.ack = true; }
            Op::Footer => { b.set_footer(Footer::from("f")); m.footer = true; }
            Op::Build => {
                m.builds = (m.builds+1).min(2);
                let r = b.build(&key);
                let dups: Vec<&str> = (0..9).filter(|k| m.cnt[*k] >= 2).map(|k| KEYS[k]).collect();
                match r {
                    Err(GenericBuilderError::DuplicateTopLevelPayloadClaim(k)) => {
                        if dups.contains(&k.as_str()) || (m.exp_after_ack && k=="exp") { } else { return Err(format!("dup error {k} but dups={dups:?}")); } }
                    Err(e) => return Err(format!("unexpected error {e:?}")),
                    Ok(tok) => {
                        if !dups.is_empty() { return Err(format!("built despite dups {dups:?}")); }
                        let mut gp = GenericParser::<V4, Local>::default(); if m.footer { gp.set_footer(Footer::from("f")); }
                        let j = gp.parse(&tok, &key).map_err(|e| format!("parse {e:?}"))?;
                        let obj = j.as_object().ok_or("not obj")?;
                        let mut exp: BTreeMap<String, String> = BTreeMap::new();
                        exp.insert("iat".into(), "T0".into()); exp.insert("nbf".into(), "T0".into()); exp.insert("exp".into(), "T0+1h".into());
                        for k in 0..9 { if m.cnt[k]>0 { exp.insert(KEYS[k].into(), val(k, m.last[k])); } }
                        if m.ack { exp.remove("exp"); }
                        let got: Vec<&String> = obj.keys().collect(); let want: Vec<&String> = exp.keys().collect();
                        let mut g2=got.clone(); g2.sort(); if g2 != want { return Err(format!("keys {got:?} want {want:?}")); }
                        for (k, v) in &exp { let gv = obj[k].as_str().ok_or("nonstr")?;
                            let ok = match v.as_str() { "T0" => inst(gv) == T0 as i128 * 1_000_000_000, "T0+1h" => inst(gv) == (T0 as i128 + 3600) * 1_000_000_000, s => gv == s };
                            if !ok { return Err(format!("claim {k} = {gv}, want {v}")); } }
                    }
                }
            }
        }
    }
    Ok(())
}
impl Model for BM {
    type State = St; type Action = Op;
    fn init_states(&self) -> Vec<St> { vec![St { m: M { cnt: [0;9], last: [0;9], ack: false, exp_after_ack: false, footer: false, builds: 0 }, path: vec![], verdict: Ok(()) }] }
    fn actions(&self, _s: &St, a: &mut Vec<Op>) { for k in 0..self.nkeys { a.push(Op::Set(k, 0)); if k==0 || k==7 { a.push(Op::Set(k, 1)); } } a.push(Op::Ack); a.push(Op::Footer); a.push(Op::Build); }
    fn next_state(&self, s: &St, a: Op) -> Option<St> {
        if s.verdict.is_err() { return None; }
        let mut m = s.m.clone();
        match &a { Op::Set(k, v) => { if *k==0 && m.ack && m.cnt[0]==0 { m.exp_after_ack = true; } m.cnt[*k] = (m.cnt[*k]+1).min(2); m.last[*k] = *v; }, Op::Ack => m.ack = true, Op::Footer => m.footer = true, Op::Build => m.builds = (m.builds+1).min(2) }
        let mut path = s.path.clone(); path.push(a);
        let verdict = replay(&path);
        Some(St { m, path, verdict })
    }
    fn properties(&self) -> Vec<Property<Self>> { vec![Property::always("conforms", |_, s: &St| s.verdict.is_ok())] }
}
fn main() {
    let nkeys: usize = std::env::args().nth(1).map(|s| s.parse().unwrap()).unwrap_or(5);
    let t = std::time::Instant::now();
    let c = BM { nkeys }.checker().threads(16).spawn_bfs().join();
    println!("states={} unique={} depth={} in {:?}", c.state_count(), c.unique_state_count(), c.max_depth(), t.elapsed());
    for (name, path) in c.discoveries() { let last = path.last_state(); println!("DISCOVERY {name}: path={:?} verdict={:?}", last.path, last.verdict); }
}
