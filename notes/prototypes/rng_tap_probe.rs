use rusty_paseto::prelude::*;
use rusty_paseto::verif_hooks;
use std::cell::RefCell; use std::rc::Rc;
fn main(){
    let kb=*b"wubbalubbadubdubwubbalubbadubdub";
    let draws: Rc<RefCell<Vec<Vec<u8>>>> = Rc::new(RefCell::new(vec![]));
    let d2=draws.clone(); let mut ctr=0u8;
    verif_hooks::set_rng(Some(Box::new(move |buf: &mut [u8]| { ctr+=1; for (i,b) in buf.iter_mut().enumerate() { *b = ctr.wrapping_mul(31) ^ (i as u8); } d2.borrow_mut().push(buf.to_vec()); })));
    macro_rules! go { ($V:ty, $n:expr, $($ia:tt)*) => {{
        let key=PasetoSymmetricKey::<$V,Local>::from(Key::from(kb));
        for layer in 0..2 { for rep in 0..2 {
            draws.borrow_mut().clear();
            let tok = if layer==0 { let mut b=GenericBuilder::<$V,Local>::default(); b.set_claim(CustomClaim::try_from(("data","x")).unwrap()).set_footer(Footer::from("f")); let t=b.try_encrypt(&key).unwrap(); if rep==1 { b.try_encrypt(&key).unwrap() } else { t } }
                      else { let mut b=PasetoBuilder::<$V,Local>::default(); b.set_claim(CustomClaim::try_from(("data","x")).unwrap()).set_footer(Footer::from("f")); let t=b.build(&key).unwrap(); if rep==1 { b.build(&key).unwrap() } else { t } };
            let ds=draws.borrow().clone();
            let payload = Paseto::<$V,Local>::try_decrypt(&tok,&key,Footer::from("f") $($ia)*).unwrap();
            let last=ds.last().unwrap();
            let core = if $n==24 { let k=Key::<24>::from(&last[..]); core_tok::<$V>(&key,&payload,&k[..]) } else { let k=Key::<32>::from(&last[..]); core_tok::<$V>(&key,&payload,&k[..]) };
            println!("{} layer={layer} rep={rep}: draws={} len={} token==core(draw): {}", stringify!($V), ds.len(), last.len(), core==tok);
        }}
    }} }
    go!(V1,32,); go!(V2,24,); go!(V3,32,,None); go!(V4,32,,None);
}
trait CoreTok { fn tok(key:&PasetoSymmetricKey<Self,Local>, payload:&str, seed:&[u8])->String where Self:Sized; }
fn core_tok<V:CoreTok>(key:&PasetoSymmetricKey<V,Local>, payload:&str, seed:&[u8])->String { V::tok(key,payload,seed) }
impl CoreTok for V1 { fn tok(key:&PasetoSymmetricKey<V1,Local>,p:&str,s:&[u8])->String{ let k=Key::<32>::from(s); Paseto::<V1,Local>::builder().set_payload(Payload::from(p)).set_footer(Footer::from("f")).try_encrypt(key,&PasetoNonce::<V1,Local>::from(&k)).unwrap() } }
impl CoreTok for V2 { fn tok(key:&PasetoSymmetricKey<V2,Local>,p:&str,s:&[u8])->String{ let k=Key::<24>::from(s); Paseto::<V2,Local>::builder().set_payload(Payload::from(p)).set_footer(Footer::from("f")).try_encrypt(key,&PasetoNonce::<V2,Local>::from(&k)).unwrap() } }
impl CoreTok for V3 { fn tok(key:&PasetoSymmetricKey<V3,Local>,p:&str,s:&[u8])->String{ let k=Key::<32>::from(s); Paseto::<V3,Local>::builder().set_payload(Payload::from(p)).set_footer(Footer::from("f")).try_encrypt(key,&PasetoNonce::<V3,Local>::from(&k)).unwrap() } }
impl CoreTok for V4 { fn tok(key:&PasetoSymmetricKey<V4,Local>,p:&str,s:&[u8])->String{ let k=Key::<32>::from(s); Paseto::<V4,Local>::builder().set_payload(Payload::from(p)).set_footer(Footer::from("f")).try_encrypt(key,&PasetoNonce::<V4,Local>::from(&k)).unwrap() } }
