// Demo for mutant C20_v2_public_legacy_unify.
//
// A v4.public-only client: it never names v2, Ed25519 internals or any feature of the crate.
// The same file is compiled with a feature set and with a superset of it:
//
//   cargo test --offline --no-default-features --features "core,v4_public"           --test demo_c20_v2_public_legacy_unify
//   cargo test --offline --no-default-features --features "core,v4_public,v2_public" --test demo_c20_v2_public_legacy_unify
//
// Property C20 ("Enabling an additional feature never breaks code that compiled without it"; every
// enabled protocol works in every combination): both runs must give the same verdicts.
#![cfg(feature = "v4_public")]

use base64::prelude::*;
use rusty_paseto::core::*;

// keys of the official v4 test vectors (4-S-*)
const SECRET: &str = "b4cbfb43df4ce210727d953e4a713307fa19bb7d9f85041438d9e11b942a37741eb9dbbbbc047c03fd70604e0071f0987e16b28b757225c11f00415d0e20b1a2";
const PUBLIC: &str = "1eb9dbbbbc047c03fd70604e0071f0987e16b28b757225c11f00415d0e20b1a2";
const MESSAGE: &str = "{\"data\":\"this is a signed message\",\"exp\":\"2022-01-01T00:00:00+00:00\"}";
const FOOTER: &str = "{\"kid\":\"zVhMiPBP9fRf2snEcT7gFTioeA9COcNy9DfgL1W60haN\"}";
const ASSERTION: &str = "{\"test-vector\":\"4-S-3\"}";

/// The order of the Ed25519 base point, little endian:
/// L = 2^252 + 27742317777372353535851937790883648493
const L: [u8; 32] = [
  0xed, 0xd3, 0xf5, 0x5c, 0x1a, 0x63, 0x12, 0x58, 0xd6, 0x9c, 0xf7, 0xa2, 0xde, 0xf9, 0xde, 0x14, 0, 0, 0, 0, 0, 0,
  0, 0, 0, 0, 0, 0, 0, 0, 0, 0x10,
];

// ---- the client ----------------------------------------------------------------------------

fn issue() -> String {
  let secret = Key::<64>::try_from(SECRET).unwrap();
  let secret = PasetoAsymmetricPrivateKey::<V4, Public>::from(&secret);
  Paseto::<V4, Public>::builder()
    .set_payload(Payload::from(MESSAGE))
    .set_footer(Footer::from(FOOTER))
    .set_implicit_assertion(ImplicitAssertion::from(ASSERTION))
    .try_sign(&secret)
    .unwrap()
}

fn accept(token: &str) -> Result<String, PasetoError> {
  let public = Key::<32>::try_from(PUBLIC).unwrap();
  let public = PasetoAsymmetricPublicKey::<V4, Public>::from(&public);
  Paseto::<V4, Public>::try_verify(token, &public, Footer::from(FOOTER), ImplicitAssertion::from(ASSERTION))
}

/// The client keeps a revocation list of the exact token strings it has seen (a token is a bearer
/// credential: "this string, and no other string, stands for that message").
fn revoked(list: &[String], token: &str) -> bool {
  list.iter().any(|t| t == token)
}

// ---- helper of the test: the second spelling of an Ed25519 signature -------------------------

/// (R, S) -> (R, S + L): the same point equation holds, a verifier that only requires S < 2^253
/// (ed25519-donna, libsodium without ED25519_COMPAT, ed25519-dalek 1.x `verify`) accepts both; a
/// verifier that follows RFC 8032 (S < L), as PASETO requires, accepts only the first.
fn respell(token: &str) -> String {
  let parts: Vec<&str> = token.split('.').collect();
  assert_eq!(parts.len(), 4);
  let mut body = BASE64_URL_SAFE_NO_PAD.decode(parts[2]).unwrap();
  let n = body.len();
  let s = &mut body[n - 32..];
  let mut carry = 0u16;
  for i in 0..32 {
    let sum = s[i] as u16 + L[i] as u16 + carry;
    s[i] = sum as u8;
    carry = sum >> 8;
  }
  assert_eq!(carry, 0);
  assert_eq!(s[31] & 0xe0, 0, "S + L fits in 253 bits for this (deterministic) signature");
  format!("{}.{}.{}.{}", parts[0], parts[1], BASE64_URL_SAFE_NO_PAD.encode(&body), parts[3])
}

// ---- the client's tests ----------------------------------------------------------------------

#[test]
fn v4_public_round_trip() {
  let token = issue();
  // Ed25519 is deterministic: this is test vector 4-S-3
  assert_eq!(token, "v4.public.eyJkYXRhIjoidGhpcyBpcyBhIHNpZ25lZCBtZXNzYWdlIiwiZXhwIjoiMjAyMi0wMS0wMVQwMDowMDowMCswMDowMCJ9NPWciuD3d0o5eXJXG5pJy-DiVEoyPYWs1YSTwWHNJq6DZD3je5gf-0M4JR9ipdUSJbIovzmBECeaWmaqcaP0DQ.eyJraWQiOiJ6VmhNaVBCUDlmUmYyc25FY1Q3Z0ZUaW9lQTlDT2NOeTlEZmdMMVc2MGhhTiJ9");
  assert_eq!(accept(&token).unwrap(), MESSAGE);
}

#[test]
fn v4_public_signature_has_one_spelling() {
  let token = issue();
  let twin = respell(&token);
  assert_ne!(token, twin);

  // the token was revoked ...
  let revocation_list = vec![token.clone()];
  assert!(revoked(&revocation_list, &token));
  // ... its twin is a different string, so the only thing that stops it is the verifier
  assert!(!revoked(&revocation_list, &twin));

  let verdict = accept(&twin);
  println!("verdict on the re-spelled v4.public token: {:?}", verdict);
  assert!(
    verdict.is_err(),
    "a v4.public token with the signature scalar S + L was accepted: {:?}",
    verdict
  );
}
