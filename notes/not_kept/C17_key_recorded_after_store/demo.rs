// Demonstration for mutant C17_key_recorded_after_store.
// Run with: cargo test --offline --test demo_c17_key_recorded_after_store
//
// Property C17: "If the caller supplies the same top-level claim key more than once to the
// batteries-included builder, in any order and interleaved with any other calls, build fails with a
// duplicate-claim error naming a duplicated key and produces no token, on that and every later build."
//
// `set_claim` panics when the value of a claim has no JSON form (the generic builder unwraps the
// serialisation result). A caller that contains the panic (catch_unwind, as request handlers and job
// runners do) and carries on with the same builder has still SUPPLIED that key: supplying it again
// must be reported at build time, and a panicking second supply of a key must be reported as well.
use rusty_paseto::prelude::*;
use std::collections::BTreeMap;
use std::convert::TryFrom;
use std::panic::{catch_unwind, AssertUnwindSafe};

fn local_key() -> PasetoSymmetricKey<V4, Local> {
  PasetoSymmetricKey::<V4, Local>::from(Key::<32>::from(*b"wubbalubbadubdubwubbalubbadubdub"))
}

/// A perfectly ordinary Rust value that has no JSON form: JSON object keys must be strings.
fn no_json_form() -> BTreeMap<(u8, u8), &'static str> {
  BTreeMap::from([((1, 2), "cell")])
}

/// Supplies `claim`, containing the panic of a value without a JSON form. Returns true if the call panicked.
fn supply<'a, T>(builder: &mut PasetoBuilder<'a, V4, Local>, claim: T) -> bool
where
  T: PasetoClaim + erased_serde::Serialize + 'a,
{
  catch_unwind(AssertUnwindSafe(|| {
    builder.set_claim(claim);
  }))
  .is_err()
}

/// Builds three times; every build must fail with the duplicate-claim error naming `dup`.
fn assert_duplicate_reported(builder: &mut PasetoBuilder<V4, Local>, dup: &str) {
  let key = local_key();
  for attempt in 1..=3 {
    match builder.build(&key) {
      Err(GenericBuilderError::DuplicateTopLevelPayloadClaim(named)) => assert_eq!(named, dup, "build {attempt}"),
      Err(other) => panic!("build {attempt}: expected the duplicate-claim error, got {other:?}"),
      Ok(token) => {
        let json = GenericParser::<V4, Local>::default().parse(&token, &key).expect("decrypts");
        panic!("build {attempt}: '{dup}' was supplied twice but no duplicate-claim error was raised; a token was produced with {json}")
      }
    }
  }
}

// control: two ordinary supplies of one key
#[test]
fn control_two_ordinary_supplies() {
  let mut builder = PasetoBuilder::<V4, Local>::default();
  assert!(!supply(&mut builder, CustomClaim::try_from(("seats", 4)).unwrap()));
  assert!(!supply(&mut builder, CustomClaim::try_from(("seats", 5)).unwrap()));
  assert_duplicate_reported(&mut builder, "seats");
}

// control: a single supply whose value has no JSON form; the claim is simply absent
#[test]
fn control_single_supply_without_json_form() {
  let key = local_key();
  let mut builder = PasetoBuilder::<V4, Local>::default();
  assert!(supply(&mut builder, CustomClaim::try_from(("seats", no_json_form())).unwrap()));
  builder.set_claim(SubjectClaim::from("someone"));
  let token = builder.build(&key).expect("no key was repeated");
  let json = GenericParser::<V4, Local>::default().parse(&token, &key).expect("decrypts");
  assert!(json.get("seats").is_none(), "{json}");
  assert_eq!(json["sub"], "someone");
}

// witness 1: the first supply of the key has no JSON form (set_claim panics, the caller carries on),
// the key is then supplied again
#[test]
fn first_supply_has_no_json_form() {
  let mut builder = PasetoBuilder::<V4, Local>::default();
  assert!(supply(&mut builder, CustomClaim::try_from(("seats", no_json_form())).unwrap()), "set_claim is expected to panic");
  builder.set_footer(Footer::from("some footer"));
  assert!(!supply(&mut builder, CustomClaim::try_from(("seats", 4)).unwrap()));
  assert_duplicate_reported(&mut builder, "seats");
}

// witness 2: the second supply of the key has no JSON form
#[test]
fn second_supply_has_no_json_form() {
  let mut builder = PasetoBuilder::<V4, Local>::default();
  assert!(!supply(&mut builder, CustomClaim::try_from(("seats", 4)).unwrap()));
  builder.set_claim(IssuerClaim::from("me"));
  assert!(supply(&mut builder, CustomClaim::try_from(("seats", no_json_form())).unwrap()), "set_claim is expected to panic");
  assert_duplicate_reported(&mut builder, "seats");
}

// witness 3: the same with a build in between and other claims around it
#[test]
fn no_json_form_then_build_then_supplied_again() {
  let key = local_key();
  let mut builder = PasetoBuilder::<V4, Local>::default();
  builder.set_claim(AudienceClaim::from("customers"));
  assert!(supply(&mut builder, CustomClaim::try_from(("grid", no_json_form())).unwrap()));
  builder.build(&key).expect("so far no key was repeated");
  assert!(!supply(&mut builder, CustomClaim::try_from(("grid", vec![1, 2, 3])).unwrap()));
  assert_duplicate_reported(&mut builder, "grid");
}
