//! C20 smoke client. Every block is textually the same in every feature configuration that enables it,
//! so "all configurations build and pass" implies the monotonicity clause on every lattice edge.
//! Prints one line `RAN <protocol> <layer>` per executed block and `SMOKE-OK <n>` at the end; any
//! mismatch prints `SMOKE-FAIL <protocol> <layer> <why>` and exits 3.
#![allow(unused)]

const MSG: &str = "{\"data\":\"this is a signed message\",\"exp\":\"2999-01-01T00:00:00+00:00\"}";
const FOOTER: &str = "{\"kid\":\"zVhMiPBP9fRf2snEcT7gFTioeA9COcNy9DfgL1W60haN\"}";
const ASSERT: &str = "{\"test-vector\":\"smoke\"}";
const ED_SK: &str = "b4cbfb43df4ce210727d953e4a713307fa19bb7d9f85041438d9e11b942a37741eb9dbbbbc047c03fd70604e0071f0987e16b28b757225c11f00415d0e20b1a2";
const ED_PK: &str = "1eb9dbbbbc047c03fd70604e0071f0987e16b28b757225c11f00415d0e20b1a2";
const P384_SK: &str = "20347609607477aca8fbfbc5e6218455f3199669792ef8b466faa87bdc67798144c848dd03661eed5ac62461340cea96";
const P384_PK: &str = "02fbcb7c69ee1c60579be7a334134878d9c5c5bf35d552dab63c0140397ed14cef637d7720925c44699ea30e72874c72fb";
static RSA_SK: &[u8] = include_bytes!("../../fixtures/rsa0.pk8");
static RSA_PK: &[u8] = include_bytes!("../../fixtures/rsa0.pub.der");

fn e<T: std::fmt::Debug>(x: T) -> String {
    format!("{:?}", x)
}

// ---------------------------------------------------------------- core layer
macro_rules! core_local {
    ($name:ident, ($cfg:meta), $v:ident, $nlen:literal, [$($assert_set:tt)*], [$($assert_arg:tt)*]) => {
        #[cfg($cfg)]
        fn $name() -> Result<(), String> {
            use rusty_paseto::core::*;
            let key = PasetoSymmetricKey::<$v, Local>::from(Key::from(*b"wubbalubbadubdubwubbalubbadubdub"));
            let nonce = Key::<$nlen>::from([7u8; $nlen]);
            let nonce = PasetoNonce::<$v, Local>::from(&nonce);
            // client idioms that rely on there being exactly one AsRef / Deref target
            if key.as_ref().len() != 32 || nonce.as_ref().len() != $nlen || nonce.len() != $nlen {
                return Err("key / nonce inspection".into());
            }
            let token = Paseto::<$v, Local>::builder()
                .set_payload(Payload::from(MSG))
                .set_footer(Footer::from(FOOTER))
                $($assert_set)*
                .try_encrypt(&key, &nonce)
                .map_err(e)?;
            let back = Paseto::<$v, Local>::try_decrypt(&token, &key, Footer::from(FOOTER) $($assert_arg)*).map_err(e)?;
            if back != MSG {
                return Err(format!("round trip returned {:?}", back));
            }
            Ok(())
        }
    };
}
core_local!(v1_local_core, (feature = "v1_local"), V1, 32, [], []);
core_local!(v2_local_core, (feature = "v2_local"), V2, 24, [], []);
core_local!(v3_local_core, (feature = "v3_local"), V3, 32, [.set_implicit_assertion(ImplicitAssertion::from(ASSERT))], [, ImplicitAssertion::from(ASSERT)]);
core_local!(v4_local_core, (any(feature = "v4_local", feature = "crate_default")), V4, 32, [.set_implicit_assertion(ImplicitAssertion::from(ASSERT))], [, ImplicitAssertion::from(ASSERT)]);

macro_rules! pub_keys {
    (V1, $sk:ident, $pk:ident) => {
        let $sk = PasetoAsymmetricPrivateKey::<V1, Public>::from(RSA_SK);
        let $pk = PasetoAsymmetricPublicKey::<V1, Public>::from(RSA_PK);
    };
    (V3, $sk:ident, $pk:ident) => {
        let sk_raw = Key::<48>::try_from(P384_SK).map_err(e)?;
        let pk_raw = Key::<49>::try_from(P384_PK).map_err(e)?;
        let $sk = PasetoAsymmetricPrivateKey::<V3, Public>::from(&sk_raw);
        let $pk = PasetoAsymmetricPublicKey::<V3, Public>::try_from(&pk_raw).map_err(e)?;
    };
    ($v:ident, $sk:ident, $pk:ident) => {
        let sk_raw = Key::<64>::try_from(ED_SK).map_err(e)?;
        let pk_raw = Key::<32>::try_from(ED_PK).map_err(e)?;
        let $sk = PasetoAsymmetricPrivateKey::<$v, Public>::from(&sk_raw);
        let $pk = PasetoAsymmetricPublicKey::<$v, Public>::from(&pk_raw);
    };
}

macro_rules! core_public {
    ($name:ident, ($cfg:meta), $v:ident, [$($assert_set:tt)*], [$($assert_arg:tt)*]) => {
        #[cfg($cfg)]
        fn $name() -> Result<(), String> {
            use rusty_paseto::core::*;
            pub_keys!($v, sk, pk);
            if sk.as_ref().is_empty() || pk.as_ref().is_empty() {
                return Err("key inspection".into());
            }
            let footer = Footer::from(FOOTER);
            if footer.as_ref().len() != FOOTER.len() || footer.len() != FOOTER.len() {
                return Err("footer inspection".into());
            }
            let token = Paseto::<$v, Public>::builder()
                .set_payload(Payload::from(MSG))
                .set_footer(Footer::from(FOOTER))
                $($assert_set)*
                .try_sign(&sk)
                .map_err(e)?;
            let back = Paseto::<$v, Public>::try_verify(&token, &pk, Footer::from(FOOTER) $($assert_arg)*).map_err(e)?;
            if back != MSG {
                return Err(format!("round trip returned {:?}", back));
            }
            Ok(())
        }
    };
}
core_public!(v1_public_core, (feature = "v1_public"), V1, [], []);
core_public!(v2_public_core, (feature = "v2_public"), V2, [], []);
core_public!(v3_public_core, (feature = "v3_public"), V3, [.set_implicit_assertion(ImplicitAssertion::from(ASSERT))], [, ImplicitAssertion::from(ASSERT)]);
core_public!(v4_public_core, (any(feature = "v4_public", feature = "crate_default")), V4, [.set_implicit_assertion(ImplicitAssertion::from(ASSERT))], [, ImplicitAssertion::from(ASSERT)]);

// ---------------------------------------------------------------- generic + batteries-included layers
macro_rules! upper_local {
    ($name:ident, ($cfg:meta), $modname:ident, $builder:ident, $parser:ident, $build:ident, $v:ident, [$($assert_set:tt)*]) => {
        #[cfg($cfg)]
        fn $name() -> Result<(), String> {
            use rusty_paseto::$modname::*;
            let key = PasetoSymmetricKey::<$v, Local>::from(Key::from(*b"wubbalubbadubdubwubbalubbadubdub"));
            if key.as_ref().len() != 32 {
                return Err("key inspection".into());
            }
            let token = $builder::<$v, Local>::default()
                .set_claim(CustomClaim::try_from(("data", "smoke message")).map_err(e)?)
                .set_claim(SubjectClaim::from("smoke"))
                .set_footer(Footer::from(FOOTER))
                $($assert_set)*
                .$build(&key)
                .map_err(e)?;
            let json = $parser::<$v, Local>::default()
                .set_footer(Footer::from(FOOTER))
                $($assert_set)*
                .check_claim(SubjectClaim::from("smoke"))
                .parse(&token, &key)
                .map_err(e)?;
            if json["data"] != "smoke message" || json["sub"] != "smoke" {
                return Err(format!("round trip returned {}", json));
            }
            Ok(())
        }
    };
}
macro_rules! upper_public {
    ($name:ident, ($cfg:meta), $modname:ident, $builder:ident, $parser:ident, $build:ident, $v:ident, [$($assert_set:tt)*]) => {
        #[cfg($cfg)]
        fn $name() -> Result<(), String> {
            use rusty_paseto::$modname::*;
            pub_keys!($v, sk, pk);
            let token = $builder::<$v, Public>::default()
                .set_claim(CustomClaim::try_from(("data", "smoke message")).map_err(e)?)
                .set_claim(SubjectClaim::from("smoke"))
                .set_footer(Footer::from(FOOTER))
                $($assert_set)*
                .$build(&sk)
                .map_err(e)?;
            let json = $parser::<$v, Public>::default()
                .set_footer(Footer::from(FOOTER))
                $($assert_set)*
                .check_claim(SubjectClaim::from("smoke"))
                .parse(&token, &pk)
                .map_err(e)?;
            if json["data"] != "smoke message" || json["sub"] != "smoke" {
                return Err(format!("round trip returned {}", json));
            }
            Ok(())
        }
    };
}
upper_local!(v1_local_generic, (all(feature = "v1_local", feature = "generic")), generic, GenericBuilder, GenericParser, try_encrypt, V1, []);
upper_local!(v2_local_generic, (all(feature = "v2_local", feature = "generic")), generic, GenericBuilder, GenericParser, try_encrypt, V2, []);
upper_local!(v3_local_generic, (all(feature = "v3_local", feature = "generic")), generic, GenericBuilder, GenericParser, try_encrypt, V3, [.set_implicit_assertion(ImplicitAssertion::from(ASSERT))]);
upper_local!(v4_local_generic, (any(all(feature = "v4_local", feature = "generic"), feature = "crate_default")), generic, GenericBuilder, GenericParser, try_encrypt, V4, [.set_implicit_assertion(ImplicitAssertion::from(ASSERT))]);
upper_public!(v1_public_generic, (all(feature = "v1_public", feature = "generic")), generic, GenericBuilder, GenericParser, try_sign, V1, []);
upper_public!(v2_public_generic, (all(feature = "v2_public", feature = "generic")), generic, GenericBuilder, GenericParser, try_sign, V2, []);
upper_public!(v3_public_generic, (all(feature = "v3_public", feature = "generic")), generic, GenericBuilder, GenericParser, try_sign, V3, [.set_implicit_assertion(ImplicitAssertion::from(ASSERT))]);
upper_public!(v4_public_generic, (any(all(feature = "v4_public", feature = "generic"), feature = "crate_default")), generic, GenericBuilder, GenericParser, try_sign, V4, [.set_implicit_assertion(ImplicitAssertion::from(ASSERT))]);
upper_local!(v1_local_prelude, (all(feature = "v1_local", feature = "batteries_included")), prelude, PasetoBuilder, PasetoParser, build, V1, []);
upper_local!(v2_local_prelude, (all(feature = "v2_local", feature = "batteries_included")), prelude, PasetoBuilder, PasetoParser, build, V2, []);
upper_local!(v3_local_prelude, (all(feature = "v3_local", feature = "batteries_included")), prelude, PasetoBuilder, PasetoParser, build, V3, [.set_implicit_assertion(ImplicitAssertion::from(ASSERT))]);
upper_local!(v4_local_prelude, (any(all(feature = "v4_local", feature = "batteries_included"), feature = "crate_default")), prelude, PasetoBuilder, PasetoParser, build, V4, [.set_implicit_assertion(ImplicitAssertion::from(ASSERT))]);
upper_public!(v1_public_prelude, (all(feature = "v1_public", feature = "batteries_included")), prelude, PasetoBuilder, PasetoParser, build, V1, []);
upper_public!(v2_public_prelude, (all(feature = "v2_public", feature = "batteries_included")), prelude, PasetoBuilder, PasetoParser, build, V2, []);
upper_public!(v3_public_prelude, (all(feature = "v3_public", feature = "batteries_included")), prelude, PasetoBuilder, PasetoParser, build, V3, [.set_implicit_assertion(ImplicitAssertion::from(ASSERT))]);
upper_public!(v4_public_prelude, (any(all(feature = "v4_public", feature = "batteries_included"), feature = "crate_default")), prelude, PasetoBuilder, PasetoParser, build, V4, [.set_implicit_assertion(ImplicitAssertion::from(ASSERT))]);

/// client idioms around the error types: `?` into `Box<dyn Error + Send + Sync>` (what anyhow, eyre and
/// `io::Error::new` need), an error returned from a spawned thread, `to_string()` for logging
#[cfg(any(feature = "v1_local", feature = "v2_local", feature = "v3_local", feature = "v4_local", feature = "v1_public", feature = "v2_public", feature = "v3_public", feature = "v4_public", feature = "crate_default"))]
mod error_idioms {
    fn wants<E: std::error::Error + Send + Sync + 'static>() {}
    fn boxed<E: std::error::Error + Send + Sync + 'static>(e: E) -> Box<dyn std::error::Error + Send + Sync> {
        e.into()
    }
    fn io<E: std::error::Error + Send + Sync + 'static>(e: E) -> std::io::Error {
        std::io::Error::new(std::io::ErrorKind::InvalidData, e)
    }
    fn through_thread<E: std::error::Error + Send + 'static>(e: E) -> String {
        std::thread::spawn(move || e).join().map(|e| e.to_string()).unwrap_or_default()
    }
    pub fn core() -> usize {
        use rusty_paseto::core::PasetoError;
        wants::<PasetoError>();
        let fns: (fn(PasetoError) -> Box<dyn std::error::Error + Send + Sync>, fn(PasetoError) -> std::io::Error, fn(PasetoError) -> String) = (boxed, io, through_thread);
        std::mem::size_of_val(&fns)
    }
    #[cfg(any(feature = "generic", feature = "crate_default"))]
    pub fn generic() -> usize {
        use rusty_paseto::generic::{GenericBuilderError, GenericParserError, PasetoClaimError};
        wants::<GenericBuilderError>();
        wants::<GenericParserError>();
        wants::<PasetoClaimError>();
        let a: (fn(GenericBuilderError) -> Box<dyn std::error::Error + Send + Sync>, fn(GenericBuilderError) -> std::io::Error, fn(GenericBuilderError) -> String) = (boxed, io, through_thread);
        let b: (fn(GenericParserError) -> Box<dyn std::error::Error + Send + Sync>, fn(GenericParserError) -> std::io::Error, fn(GenericParserError) -> String) = (boxed, io, through_thread);
        let c: (fn(PasetoClaimError) -> Box<dyn std::error::Error + Send + Sync>, fn(PasetoClaimError) -> std::io::Error, fn(PasetoClaimError) -> String) = (boxed, io, through_thread);
        std::mem::size_of_val(&a) + std::mem::size_of_val(&b) + std::mem::size_of_val(&c) + status_of_parse_error as usize % 2 + status_of_build_error as usize % 2 + status_of_claim_error as usize % 2
    }
    // the claim trait used as a trait object (a heterogeneous list of claims handed around before they reach a
    // builder): object safety must not depend on the feature set
    #[cfg(any(feature = "generic", feature = "crate_default"))]
    pub fn claim_trait_objects() -> usize {
        use rusty_paseto::generic::{IssuerClaim, PasetoClaim, SubjectClaim};
        let boxed: Vec<Box<dyn PasetoClaim>> = vec![Box::new(IssuerClaim::from("i")), Box::new(SubjectClaim::from("s"))];
        let by_ref: &dyn PasetoClaim = boxed[0].as_ref();
        boxed.iter().map(|c| c.get_key().len()).sum::<usize>() + by_ref.get_key().len()
    }
    // exhaustive matches without a catch-all arm (mapping an error to an HTTP status, a metric label ...): the
    // layer's own error enums have the same variants in every feature configuration
    #[cfg(any(feature = "generic", feature = "crate_default"))]
    fn status_of_parse_error(e: &rusty_paseto::generic::GenericParserError) -> u16 {
        use rusty_paseto::generic::GenericParserError as E;
        match e {
            E::ClaimError { .. } => 403,
            E::CipherError { .. } => 401,
            E::PayloadJsonError { .. } => 400,
        }
    }
    #[cfg(any(feature = "generic", feature = "crate_default"))]
    fn status_of_build_error(e: &rusty_paseto::generic::GenericBuilderError) -> u16 {
        use rusty_paseto::generic::GenericBuilderError as E;
        match e {
            E::ClaimError { .. } => 422,
            E::BadEmailAddress(_) => 422,
            E::DuplicateTopLevelPayloadClaim(_) => 409,
            E::CipherError { .. } => 500,
            E::PayloadJsonError { .. } => 500,
        }
    }
    #[cfg(any(feature = "generic", feature = "crate_default"))]
    fn status_of_claim_error(e: &rusty_paseto::generic::PasetoClaimError) -> u16 {
        use rusty_paseto::generic::PasetoClaimError as E;
        match e {
            E::Expired => 401,
            E::UseBeforeAvailable(_) => 401,
            E::RFC3339Date(_) => 400,
            E::Missing(_) => 400,
            E::Unexpected(_) => 400,
            E::CustomValidation(_) => 403,
            E::Invalid(_, _, _) => 403,
            E::Reserved(_) => 500,
            E::DuplicateTopLevelPayloadClaim(_) => 500,
        }
    }
}

fn main() {
    let mut ran = 0usize;
    #[cfg(any(feature = "v1_local", feature = "v2_local", feature = "v3_local", feature = "v4_local", feature = "v1_public", feature = "v2_public", feature = "v3_public", feature = "v4_public", feature = "crate_default"))]
    {
        let _ = error_idioms::core();
        #[cfg(any(feature = "generic", feature = "crate_default"))]
        let _ = error_idioms::generic();
        #[cfg(any(feature = "generic", feature = "crate_default"))]
        if error_idioms::claim_trait_objects() != 9 {
            println!("SMOKE-FAIL claims generic claim keys through trait objects");
            std::process::exit(3);
        }
    }
    let mut failed = false;
    macro_rules! run {
        ($f:ident, $proto:literal, $layer:literal, $($cfg:tt)*) => {
            #[cfg($($cfg)*)]
            {
                match $f() {
                    Ok(()) => { println!("RAN {} {}", $proto, $layer); ran += 1; }
                    Err(why) => { println!("SMOKE-FAIL {} {} {}", $proto, $layer, why); failed = true; }
                }
            }
        };
    }
    run!(v1_local_core, "v1_local", "core", feature = "v1_local");
    run!(v2_local_core, "v2_local", "core", feature = "v2_local");
    run!(v3_local_core, "v3_local", "core", feature = "v3_local");
    run!(v4_local_core, "v4_local", "core", any(feature = "v4_local", feature = "crate_default"));
    run!(v1_public_core, "v1_public", "core", feature = "v1_public");
    run!(v2_public_core, "v2_public", "core", feature = "v2_public");
    run!(v3_public_core, "v3_public", "core", feature = "v3_public");
    run!(v4_public_core, "v4_public", "core", any(feature = "v4_public", feature = "crate_default"));
    run!(v1_local_generic, "v1_local", "generic", all(feature = "v1_local", feature = "generic"));
    run!(v2_local_generic, "v2_local", "generic", all(feature = "v2_local", feature = "generic"));
    run!(v3_local_generic, "v3_local", "generic", all(feature = "v3_local", feature = "generic"));
    run!(v4_local_generic, "v4_local", "generic", any(all(feature = "v4_local", feature = "generic"), feature = "crate_default"));
    run!(v1_public_generic, "v1_public", "generic", all(feature = "v1_public", feature = "generic"));
    run!(v2_public_generic, "v2_public", "generic", all(feature = "v2_public", feature = "generic"));
    run!(v3_public_generic, "v3_public", "generic", all(feature = "v3_public", feature = "generic"));
    run!(v4_public_generic, "v4_public", "generic", any(all(feature = "v4_public", feature = "generic"), feature = "crate_default"));
    run!(v1_local_prelude, "v1_local", "batteries_included", all(feature = "v1_local", feature = "batteries_included"));
    run!(v2_local_prelude, "v2_local", "batteries_included", all(feature = "v2_local", feature = "batteries_included"));
    run!(v3_local_prelude, "v3_local", "batteries_included", all(feature = "v3_local", feature = "batteries_included"));
    run!(v4_local_prelude, "v4_local", "batteries_included", any(all(feature = "v4_local", feature = "batteries_included"), feature = "crate_default"));
    run!(v1_public_prelude, "v1_public", "batteries_included", all(feature = "v1_public", feature = "batteries_included"));
    run!(v2_public_prelude, "v2_public", "batteries_included", all(feature = "v2_public", feature = "batteries_included"));
    run!(v3_public_prelude, "v3_public", "batteries_included", all(feature = "v3_public", feature = "batteries_included"));
    run!(v4_public_prelude, "v4_public", "batteries_included", any(all(feature = "v4_public", feature = "batteries_included"), feature = "crate_default"));
    if failed {
        std::process::exit(3);
    }
    println!("SMOKE-OK {}", ran);
}
