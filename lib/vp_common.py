"""Shared helpers for the Python-side engines (C19, C20, C08 reference side): evidence files,
known findings, VIOLATION lines.  Nothing here decides a property."""
import json, os, sys, time

VERIF = os.path.dirname(os.path.dirname(os.path.abspath(__file__)))
REPO = os.environ.get("VERIF_REPO", "/repo")


def seed():
    try:
        return int(os.environ.get("VERIF_SEED", "0"))
    except ValueError:
        return 0


def load_known(prop):
    """known_findings.json is committed and never written at run time."""
    p = os.path.join(VERIF, "known_findings.json")
    if not os.path.exists(p):
        return {}
    d = json.load(open(p))
    return {f["key"]: f for f in d.get("findings", []) if f.get("property") == prop}


def write_evidence(prop, tier, coverage, wall_s, violations, assumptions, level="model_checking"):
    os.makedirs(os.path.join(VERIF, "evidence"), exist_ok=True)
    ev = {
        "property_id": prop,
        "tier": tier,
        "seed": seed(),
        "level": level,
        "coverage": coverage,
        "assumptions": assumptions,
        "wall_s": round(wall_s, 3),
        "violations": violations,
    }
    tmp = os.path.join(VERIF, "evidence", prop + ".json.tmp")
    json.dump(ev, open(tmp, "w"), indent=1)
    os.replace(tmp, os.path.join(VERIF, "evidence", prop + ".json"))


def report(prop, violations, known):
    """violations: list of dicts with 'key', 'what', 'replay' (a dict to be written).
    Prints KNOWN-FINDING / VIOLATION lines; returns exit code."""
    os.makedirs(os.path.join(VERIF, "replays"), exist_ok=True)
    new = 0
    seen_known = set()
    for i, v in enumerate(violations):
        if v["key"] in known:
            if v["key"] not in seen_known:
                seen_known.add(v["key"])
                print("KNOWN-FINDING: property=%s %s" % (prop, known[v["key"]].get("what", v["what"])))
            continue
        new += 1
        if new <= 20:
            path = os.path.join(VERIF, "replays", "%s-%d.json" % (prop, new))
            json.dump(dict(v["replay"], property=prop, key=v["key"], what=v["what"]), open(path, "w"), indent=1)
            print("VIOLATION property=%s replay=%s" % (prop, path))
            print("  what: %s" % v["what"])
    sys.stdout.flush()
    return 1 if new else 0
