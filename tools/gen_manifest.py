#!/usr/bin/env python3
"""Regenerates /verif/MANIFEST.json from the table below (kept in one place so the file stays valid)."""
import json, os
V = os.path.dirname(os.path.dirname(os.path.abspath(__file__)))
props = [json.loads(l) for l in open(os.path.join(V, "properties.jsonl"))]

CHECKS = {
 "C20": dict(engine="C-lattice", design_ref="5/C20",
   technique="explicit-state enumeration of the feature-subset lattice; cargo build+run of a cfg-gated smoke client per state",
   text="Every configuration of the stated space (quick: 8 singletons, 28 pairs, full set x 3 layers + default + none = 113; thorough: all 767) is built from /repo's working tree and its smoke client run; every enabled (protocol, layer) block must round-trip. Exhaustive over the configuration space the property quantifies over; monotonicity follows because the client source is identical in every configuration.",
   note="rustc/cargo 1.95 and the locked dependency versions are the compile oracle; 'works' is one fixed round trip per protocol and layer (input-space depth is C01/C02's job)."),
}

NOT_YET = "check not built yet (construction in progress; see DESIGN.md section 5 for the planned check)"

def main():
    checks, na = [], []
    for p in props:
        c = CHECKS.get(p["id"])
        if not c:
            na.append({"property_id": p["id"], "reason": NOT_YET})
            continue
        checks.append({
            "property_id": p["id"],
            "quick_cmd": "./check %s quick" % p["id"],
            "thorough_cmd": "./check %s thorough" % p["id"],
            "evidence_file": "/verif/evidence/%s.json" % p["id"],
            "replay_cmd_template": "./check %s --replay {path}" % p["id"],
            "engine": c["engine"],
            "level_claimed": {"category": "model_checking", "text": c["text"], "design_ref": c["design_ref"]},
            "level_note": c["note"],
            "technique": c["technique"],
        })
    m = {
        "version": 1,
        "setup_cmd": "./setup.sh",
        "hooks": {
            "guard": "--cfg rusty_paseto_verif",
            "enable": "RUSTFLAGS='--cfg rusty_paseto_verif' set by ./check when it builds /verif/harness against /repo (path dependency)",
            "baseline_off_cmd": "cd /repo && cargo nextest run --workspace --no-fail-fast --offline",
            "source_commits": ["65cb4da"],
            "add_only": True,
        },
        "engines": [
            {"name": "A-choice-tree", "path": "harness/src/explore.rs", "serves_properties": [], "kind_free_text": "stateless exhaustive enumeration of a tree of named finite choice points, one execution of the real crate per path; deviation-bounded and full-product modes"},
            {"name": "B-stateright", "path": "harness/src/models", "serves_properties": [], "kind_free_text": "stateright 0.31 BFS over a reference model; every transition replays the call history on the real object"},
            {"name": "C-lattice", "path": "c20/run.py", "serves_properties": ["C20"], "kind_free_text": "explicit enumeration of feature configurations / generated client programs with cargo as transition function"},
        ],
        "checks": checks,
        "not_applicable": na,
        "notes": "See DESIGN.md. known_findings.json lists recorded findings and fixed entries.",
    }
    json.dump(m, open(os.path.join(V, "MANIFEST.json"), "w"), indent=1)
    print("checks:", [c["property_id"] for c in checks])

main()
