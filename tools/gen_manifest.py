#!/usr/bin/env python3
"""Regenerates /verif/MANIFEST.json from the table below (kept in one place so the file stays valid)."""
import json, os
V = os.path.dirname(os.path.dirname(os.path.abspath(__file__)))
props = [json.loads(l) for l in open(os.path.join(V, "properties.jsonl"))]

A_NOTE = "Inputs come from the structured finite alphabets of DESIGN.md section 3 (keys, nonce seeds, message lengths/classes, footers, assertions), not from {0,1}^256 or UTF-8*; cryptographic strength is not claimed. Hooks: RNG tap + frozen clock under --cfg rusty_paseto_verif; each affected check also runs a free-running pass. Every enumeration runs to completion twice, against two builds of harness + /repo working tree: profile release (no overflow checks, no debug assertions) and profile checked (both on); a violation under either is the verdict and the evidence file holds both runs (coverage.profiles)."
B_NOTE = "The reference model only drives the search: every transition replays the call history on the real object (frozen clock H2, scripted RNG H1, re-installed on every replay) and the verdict of that replay is what the `always` properties read. States are merged on the model state; that merge is cross-checked by the unmerged engine-A enumeration of call sequences through the same judge. stateright 0.31's BFS and fingerprinting are trusted. Every enumeration runs to completion twice, against two builds of harness + /repo working tree: profile release (no overflow checks, no debug assertions) and profile checked (both on); a violation under either is the verdict and the evidence file holds both runs (coverage.profiles)."
CHECKS = {
 "C01": dict(engine="A-choice-tree", design_ref="5/C01",
   technique="stateless exhaustive enumeration of a choice tree (deviation bounds 0,1,2 then full cartesian product), one execution of the real crate per path, identity oracle",
   text="Every path of the (protocol x layer x key x nonce seed x message length x content class x footer x assertion) choice tree is executed on the real crate at all three API layers and must return the original message. quick: all paths with <=2 deviations from the default plus the full product over a reduced alphabet; thorough: the full product (about 830k executions) plus every length 0..=300. Also object-reuse histories: one builder building several tokens while reconfigured, one parser re-keyed / reconfigured between parses, the core builder used twice and with its setters in other orders - every authentic presentation must still return the message. Quick includes messages of 1 025, 4 097 and 65 537 bytes. Footers / assertions include a 9 000-byte one and ones containing U+FFFD; the core builder is also used through clone() of a configured builder.",
   note=A_NOTE),
 "C02": dict(engine="A-choice-tree", design_ref="5/C02",
   technique="stateless exhaustive enumeration of a choice tree (deviation bounds 0,1,2 then full cartesian product), one sign+verify on the real crate per path, identity oracle",
   text="Same explorer as C01 over the asymmetric key pools (8 Ed25519 pairs and 6 P-384 pairs whose public halves come from the independent Python reference, 3 RSA-2048 pairs): every path signs and verifies at all three layers and must return the original message. Object-reuse histories as in C01 (second build from one builder, reconfigured parser, core builder call orders). 9 000-byte and U+FFFD footers / assertions and the clone() of a configured core builder as in C01.",
   note=A_NOTE),
 "C03": dict(engine="A-choice-tree", design_ref="5/C03",
   technique="exhaustive enumeration of explicitly listed mutation neighbourhoods of authentic tokens (all single-bit flips, all single-character substitutions/insertions/deletions, all prefixes, suffix extensions, boundary shifts, splices, non-canonical base64, signature re-encodings; thorough: all bit-flip pairs), each presented to the real entry points; acceptance-predicate oracle",
   text="For every base token (protocol x key x message x footer x assertion) every element of nine (thorough: ten) mutation families is presented to the core, generic and batteries-included entry points. Oracle R2: only the issued text, an added/removed empty trailing segment or a signature-only re-encoding may be accepted, and then the original content must come back; every other mutant must be an Err of the authentication/format class (never UTF-8/JSON/claim) with zero validator calls. The text-edit families use a 70-symbol alphabet (base64url, '.', '=', blank, LF, CR, TAB) plus transport decorations (Bearer prefix, BOM, quotes, trailing separators). The footer segment is also replaced by the base64url form of ill-formed UTF-8 under an expected footer containing U+FFFD.",
   note=A_NOTE),
 "C04": dict(engine="A-choice-tree", design_ref="5/C04",
   technique="exhaustive enumeration of ordered key pairs and of all single-bit neighbours of the accepting key, each run on the real crate; acceptance-predicate oracle with positive control",
   text="All ordered pairs of pool keys x message x footer/assertion at every layer, all single-bit neighbours of the accepting key (local: both directions), P-384 other-parity point: presenting under K' != K must fail, under K must succeed. One parser object parsing the same token under the right and a wrong key in both orders; for v3.public every other key that public-key recovery yields from the token's own signature (computed by the independent reference). Ed25519 secret keys whose two halves do not belong together: either no token is produced, or the token verifies under the public key the key object carries and under no other.",
   note=A_NOTE),
 "C05": dict(engine="A-choice-tree", design_ref="5/C05",
   technique="exhaustive enumeration of all ordered (built footer, expected footer) pairs and of all single-character edits / removal / replacement / addition of the footer segment, on the real crate; iff-oracle",
   text="For all 8 protocols x 3 layers: accept iff the expected footer equals the built one (none == empty) over all ordered pairs of a 12-element footer domain (prefixes, extensions, case changes, last-base64-character neighbours, 1 KiB, NUL and dots), the produced footer segment is exactly the unpadded base64url of F, and every edit of the footer segment is rejected. Footer segment and expectation changed together (swap, strip + expect none, graft + expect it); one builder / parser reconfigured between uses; rejecting presentations are made even when the token's own control failed.",
   note=A_NOTE),
 "C06": dict(engine="A-choice-tree", design_ref="5/C06",
   technique="exhaustive enumeration of all ordered (built assertion, supplied assertion) pairs and of (footer, assertion) splits of one concatenation, on the real crate; iff-oracle plus non-storage observations",
   text="v3/v4 x purpose x layer: accept iff the supplied assertion equals the built one over all ordered pairs of a 9-element domain and the split pairs; token length is independent of the assertion and its bytes (raw or base64) never occur in the token. One builder / parser reconfigured between uses (A1 -> A2 -> empty), second build from the same builder, core builder call orders. A token built from clone() of a configured core builder must be bound to the same assertion.",
   note=A_NOTE),
 "C07": dict(engine="A-choice-tree", design_ref="5/C07",
   technique="full enumeration of the 56 ordered protocol pairs x {verbatim, header rewritten} x shared key material x layer, on the real crate",
   text="Every ordered pair (X, Y), X != Y: a token issued by X is presented to Y's three entry points verbatim and with its header rewritten, using the same key bytes wherever both protocols accept them (32-byte symmetric keys, Ed25519 keys across v2/v4, public-key bytes as symmetric key and back). All must be rejected; X's own entry point accepts (control). Also: a token authentic for Y whose header names X presented to Y, and reference-made hybrid tokens (X's header in text and pre-authentication encoding, Y's algorithm and key).",
   note=A_NOTE),
 "C08": dict(engine="A-choice-tree", design_ref="5/C08",
   technique="exhaustive enumeration of the core-layer input space (deviation bound 2 + full product) with every case compared, in both directions, against an independent executable transcription of the PASETO specification pinned to all official vectors",
   text="Every enumerated (protocol, key, nonce seed, message, footer, assertion) is run through the library and through R1 (pure-Python Version1-4.md + Common.md): local tokens must be byte-identical and decrypt under R1; library-signed public tokens must verify under R1 and have exactly the specification's textual shape (footer segment iff non-empty footer); R1-made tokens (incl. RFC 8032 / RFC 6979 / PSS signatures) must be accepted by the library with the original message. Tokens made by GenericBuilder / PasetoBuilder (scripted nonce) and by a re-used / differently ordered core builder are compared for the payload they carry. Quick includes 1 025, 4 097 and 65 537 byte messages. For v1.local / v3.local, (key, nonce) pairs whose derived AES-CTR IV is within a few blocks of a 32- or 64-bit counter wrap (searched with the reference, re-derived before use) with messages crossing the wrap.",
   note="R1 is the trusted oracle: it shares no code with the crate or its dependencies (hashlib + own AES/ChaCha/Poly1305/Ed25519/P-384/RSA-PSS), and its self-test recomputes all 53 official vectors before every run. " + A_NOTE),
 "C09": dict(engine="A-choice-tree", design_ref="5/C09",
   technique="exhaustive enumeration of structured hostile inputs (every decoded length 0..=400 behind each header, every token prefix, all strings of 0..6 segments over a 7-element alphabet, 1 MiB strings, hostile payloads, every hex length 0..=200) on all 24 entry points under catch_unwind with overflow checks",
   text="All 24 decrypt/verify/parse entry points plus Key::<N>::try_from(&str) are called on every element of the listed input families; any panic (located by file:line) is a violation, as is a wrong-length hex key reported as success. Further families: a 2/3/4-byte character at every position of an authentic token, time claims at the ends of the year range, hex keys padded with white space to every length around 2N; authentic tokens whose payload nests arrays / objects / both 200, 3 000 and 100 000 deep, parsed at both JSON-aware layers in a child process (a child that dies is a violation).",
   note="A panic is observed through catch_unwind (profiles release and checked, the latter with overflow checks and debug assertions); stack exhaustion by nested JSON is observed as the death of a child process; an allocation failure would kill the explorer and surface as a machinery error."),
 "C10": dict(engine="A-choice-tree", design_ref="5/C10",
   technique="exhaustive enumeration of builder call histories (depth 5 quick / 6 thorough) under a scripted RNG (hook H1) with a differential oracle against the core layer; plus a free-running pass that evaluates the statement's distinctness predicate on N real builds",
   text="For v1..v4 local and both builder layers, every call history over {new builder, set same/other claims, set footer, build} and every pair of draws differing in one bit: each build consumes exactly one fresh RNG draw of the right length, the token equals the core-layer token for that draw (so, with C08, the wire nonce is the specification's function of a fresh draw) and distinct draws give distinct nonces and tokens. Free-running: N builds with identical claims under one key carry pairwise distinct nonces/tokens, no constant nonce byte. The per-bit frequency clause is computed but is sampling and auxiliary; unpredictability of the OS RNG is not decidable by this family. Further passes: six threads building concurrently under one key, and the first nonces of two further process lifetimes must not recur.",
   note="ring::rand::SystemRandom is trusted as a CSPRNG. The RNG tap is additive (real RNG fills the buffer first). " + A_NOTE),
 "C11": dict(engine="A-choice-tree", design_ref="5/C11-C12",
   technique="exhaustive enumeration of the RFC 3339 rendering space of instants around a frozen clock (hook H2) - every UTC offset x fractional-digit form x separator/zone form - each carried by a real token and parsed by the default parser; independent RFC 3339 reference as oracle",
   text="v4.local: 4 frozen clocks x 16 instants (now, +-1 ns, +-1 s, +-2 s, +60 s ... 1971, 9000) x all 2 879 UTC offsets x fraction forms x {T,t,blank} x {numeric,Z,z,-00:00}; all 8 protocols: reduced rendering grid, non-timestamp exp values of every JSON type, absent claim, the 16 (exp,nbf) combinations, free-running rows with the real clock. Reject iff instant <= now (exact for strict strings, fail-closed for lenient forms), reject non-null non-timestamps, accept otherwise. Also: default-claim placeholder literals, an instant ladder 1971..8999, the default parser with 1-3 extra satisfied expectations, exp pinned with check_claim, one parser while the frozen clock moves across exp, real-clock rows at -1 s / +5 s.",
   note="R4 (own integer-arithmetic RFC 3339 reader) is the oracle. " + A_NOTE),
 "C12": dict(engine="A-choice-tree", design_ref="5/C11-C12",
   technique="exhaustive enumeration of the RFC 3339 rendering space of instants around a frozen clock (hook H2), each carried by a real token and parsed by the default parser; independent RFC 3339 reference as oracle",
   text="Same space as C11 for nbf with the direction reversed: reject iff instant > now, accept iff instant < now (strict strings; either verdict at equality), reject non-null non-timestamps, accept tokens without nbf; the 16 independent (exp, nbf) combinations. Also the additions listed under C11 (moving clock, extra expectations, pinned nbf, instant ladder, tight real-clock rows).",
   note="R4 (own integer-arithmetic RFC 3339 reader) is the oracle. " + A_NOTE),
 "C13": dict(engine="B-stateright", design_ref="5/C13",
   technique="explicit-state BFS (stateright) to closure over a reference model of PasetoBuilder with every transition replayed on the real builder under a frozen clock; plus unmerged exhaustive enumeration of call sequences to depth 4 (quick) / 5 (thorough)",
   text="All reachable states of the builder model (per key supplied 0/1/2+ times and last value, acknowledged, footer/assertion, builds 0/1/2+) under actions {set_claim(k,v), acknowledgement, set_footer(+assertion), build}; after every build of every replayed history the payload (read back at the core layer) must carry exp unless acknowledged, never carry it if acknowledged, default exp = iat + 1 h exactly and default iat = nbf = the frozen creation instant - on the first, second and later builds. Plus a hooks-idle pass under the real clock (iat bracketed between two clock reads, nbf = iat, exp = iat + 1 h), every frozen clock in quick, and an application-defined claim type serialising as a one-member object named exp. A build that fails in the crypto step (unusable key) followed by a build with the good key on the same builder is judged as if the failed call had not happened.",
   note=B_NOTE),
 "C14": dict(engine="B-stateright", design_ref="5/C14",
   technique="explicit-state BFS (stateright) to closure over a key->value map model of GenericBuilder, every transition replayed on the real builder, built and parsed back; plus unmerged sequence enumeration",
   text="Reachable states of the claim-map model over custom keys (quotes/newline, non-BMP, Cyrillic, blank) x a 15-element JSON value alphabet (Unicode string, empty, integers incl. u64::MAX, 1.5, bool, null, arrays, depth-5 object, native struct / Option / map) x 3 constructor forms, remove_claim and the 7 typed registered claims: the object returned by a validator-free parser must equal the model map (same key set, JSON-equal values, last write wins, removed claims absent). v4.local full alphabet; other protocols reduced alphabet. A build follows every call of the replayed history (state left by an earlier build must not leak); the alphabet has 21 values incl. native f32, empty containers, an object named like its key and an application-defined claim type; keys incl. white-space-only and a 90-byte namespaced one. Histories are also run after a poisoning pre-step on the same thread (a claim whose Serialize fails after writing a prefix, one that panics inside serialize).",
   note=B_NOTE),
 "C15": dict(engine="B-stateright", design_ref="5/C15",
   technique="explicit-state BFS (stateright) to closure over the parser-configuration model, every transition replayed on the real parser against a pool of tokens; plus exhaustive enumeration of the (token claim set, expected set) product and of unmerged configuration sequences",
   text="Reachable configurations (per key: expectation none/v1/v2, validator none/accept/reject/value-dependent, built-in default validator; routes check_claim, validate_claim, extend_check_claims, extend_validation_claims) for GenericParser, PasetoParser::new() and PasetoParser::default(); with each configuration every pool token (all {absent,v1,v2} combinations, null, unauthentic ones) is parsed by one parser: Ok iff every expected claim is present, non-null and JSON-equal; missing -> missing-claim error; never Ok otherwise; first token re-parsed last must give the same outcome. Plus the full (S,E) product: 4 keys x {absent,v1,v2,null} x {not expected, v1, v2, other JSON type, changed case}. Probe tokens are parsed after every intermediate configuration step; pool includes non-object payloads and expired / not-yet-valid tokens; null expectations, containment probes, number spellings, registrations before / after set_footer. Expectations without a serde_json form (u128::MAX) must never make another value acceptable; JSON-pointer-like keys (a/b, a~1b) against tokens that lack the member but have the nested path.",
   note=B_NOTE),
 "C16": dict(engine="B-stateright", design_ref="5/C16",
   technique="explicit-state BFS (stateright) to closure over the parser-configuration model with logging validators, every transition replayed on the real parser against a pool of authentic and unauthentic tokens",
   text="Same model as C15 read for the validator clauses: on unauthentic tokens (bit flipped in tag and in content, wrong key, header, footer, assertion) the call log is empty and the error is not a claim error; on authentic tokens every logged call carries the registered key and exactly the payload's value (null when absent), no validator runs twice, Ok iff every registered validator accepts - and then each ran exactly once - else a claim error. One logging validator per (key, kind) makes re-registration observable; non-object payloads; registrations before / after set_footer and set_implicit_assertion. JSON-pointer-like keys (a/b, a~1b): a validator for a member the token lacks must see null even if the nested path exists.",
   note=B_NOTE + " The built-in default validators cannot be logged and are modelled by their documented behaviour."),
 "C17": dict(engine="B-stateright", design_ref="5/C17",
   technique="explicit-state BFS (stateright) to closure over the PasetoBuilder reference model (same model as C13) with every transition replayed on the real builder; plus unmerged exhaustive enumeration of call sequences to depth 4 / 5",
   text="After any history in which a key was supplied twice every build returns the duplicate-claim error naming a repeated key and no token - on that and every later build (covered to closure, i.e. duplicates arbitrarily far apart and any number of later builds within the capped model); without a repeat every build succeeds and the payload equals the defaults overridden by the supplied values (minus exp if acknowledged); exp after acknowledgement may be refused or ignored. Model keys include the case pair a / A and the empty key; all ordered pairs of nine near-miss keys (case, white space, NFC/NFD) must be treated as distinct. Failed-build-then-build histories as in C13.",
   note=B_NOTE),
 "C18": dict(engine="A-choice-tree", design_ref="5/C18",
   technique="exhaustive enumeration of all keys of length 0..=4 over an 8-symbol alphabet plus decorated variants of the registered keys x constructor form x value type, and of the strict RFC 3339 rendering grid for the three time-claim constructors, on the real constructors",
   text="CustomClaim construction must fail with the reserved-key error iff the key is byte-equal to one of the seven registered keys, for all three constructor forms and four value types, and otherwise keep key and value verbatim (also read back through a built token). Expiration/NotBefore/IssuedAt constructors must accept every strict RFC 3339 string of the grid (8 dates x 5 times x 13 fraction forms x 2 881 offsets) verbatim and reject every listed string that does not start with an ISO 8601 date. Plus a dictionary of real-world claim names (kid, wpk, JWT vocabulary), namespaced and 300-byte keys, long non-dates with a multi-byte character at every byte offset 0..=140.",
   note="R4 decides strictness; strings that merely start with a date are unconstrained. " + A_NOTE),
 "C19": dict(engine="C-lattice", design_ref="5/C19",
   technique="exhaustive enumeration of a finite grid of generated client programs (one type substitution each, from a compiling base), type-checked against the working tree by one cargo check --keep-going; compile-table reference model",
   text="570 generated programs: 6 operations x 8 token protocols x 8 key protocols, nonce version x token version, purpose misuse (encrypt/decrypt on public, sign/verify on local) at the core and generic-builder layers, set_implicit_assertion on 5 holder types x 8 protocols, symmetric key with public purpose, symmetric key with public purpose through From<Key<32>> and eight other construction routes (Default, From of arrays and slices, Into, TryFrom, FromStr), asymmetric keys from Key<N> for N in {32,48,49,64} and from fixed-size arrays / array references of right and wrong sizes. A program must compile iff the table says so; a must-not-compile program must fail with a type-system error code located on its substituted line (anything else is a machinery error, not a pass). Same grid in both tiers.",
   note="rustc 1.95 is the type-checking oracle; the grid is the quantifier's own enumeration (operation, token protocol, key protocol)."),
 "C20": dict(engine="C-lattice", design_ref="5/C20",
   technique="explicit-state enumeration of the feature-subset lattice; cargo build+run of a cfg-gated smoke client per state",
   text="Every configuration of the stated space (quick: 8 singletons, 28 pairs, full set x 3 layers + default + none = 113; thorough: all 767) is built from /repo's working tree and its smoke client run; every enabled (protocol, layer) block must round-trip. Exhaustive over the configuration space the property quantifies over; monotonicity follows because the client source is identical in every configuration. The smoke client also inspects keys, nonces and footers through AsRef / Deref (idioms whose target type must be inferred). The 8 singletons, the full set and the crate default are additionally built and run with --release (a configuration must also compile and work without debug assertions).",
   note="rustc/cargo 1.95 and the locked dependency versions are the compile oracle; 'works' is one fixed round trip per protocol and layer (input-space depth is C01/C02's job)."),
}

NOT_YET = "check not built yet (construction in progress; see DESIGN.md section 5 for the planned check)"

def main():
    checks, na = [], []
    for p in props:
        c = CHECKS.get(p["id"])
        if not c:
            na.append({"property_id": p["id"], "reason": NOT_YET})
            continue
        checks.append({
            "property_id": p["id"],
            "quick_cmd": "./check %s quick" % p["id"],
            "thorough_cmd": "./check %s thorough" % p["id"],
            "evidence_file": "/verif/evidence/%s.json" % p["id"],
            "replay_cmd_template": "./check %s --replay {path}" % p["id"],
            "engine": c["engine"],
            "level_claimed": {"category": "model_checking", "text": c["text"], "design_ref": c["design_ref"]},
            "level_note": c["note"],
            "technique": c["technique"],
        })
    m = {
        "version": 1,
        "setup_cmd": "./setup.sh",
        "hooks": {
            "guard": "--cfg rusty_paseto_verif",
            "enable": "RUSTFLAGS='--cfg rusty_paseto_verif' set by ./check when it builds /verif/harness against /repo (path dependency)",
            "baseline_off_cmd": "cd /repo && cargo nextest run --workspace --no-fail-fast --offline",
            "source_commits": ["65cb4da"],
            "add_only": True,
        },
        "engines": [
            {"name": "A-choice-tree", "path": "harness/src/explore.rs", "serves_properties": ["C01","C02","C03","C04","C05","C06","C07","C08","C09","C10","C11","C12","C18"], "kind_free_text": "stateless exhaustive enumeration of a tree of named finite choice points, one execution of the real crate per path; deviation-bounded and full-product modes"},
            {"name": "B-stateright", "path": "harness/src/models", "serves_properties": ["C13","C14","C15","C16","C17"], "kind_free_text": "stateright 0.31 BFS over a reference model; every transition replays the call history on the real object"},
            {"name": "C-lattice", "path": "c20/run.py", "serves_properties": ["C19","C20"], "kind_free_text": "explicit enumeration of feature configurations / generated client programs with cargo as transition function"},
        ],
        "checks": checks,
        "not_applicable": na,
        "notes": "See DESIGN.md. known_findings.json lists recorded findings and fixed entries.",
    }
    json.dump(m, open(os.path.join(V, "MANIFEST.json"), "w"), indent=1)
    print("checks:", [c["property_id"] for c in checks])

main()
