#!/usr/bin/env python3
"""Regenerates the table between the SEEDED-TABLE markers of DESIGN.md from seeded/*/meta.json."""
import os, subprocess, sys
V = os.path.dirname(os.path.dirname(os.path.abspath(__file__)))
tbl = subprocess.run([sys.executable, os.path.join(V, "tools", "seeded_table.py")], capture_output=True, text=True).stdout
p = os.path.join(V, "DESIGN.md")
s = open(p).read()
a = s.index("<!-- SEEDED-TABLE-BEGIN -->") + len("<!-- SEEDED-TABLE-BEGIN -->")
b = s.index("<!-- SEEDED-TABLE-END -->")
open(p, "w").write(s[:a] + "\n" + tbl + s[b:])
print("table rows:", tbl.count("\n") - 2)
