#!/bin/bash
# convenience: run every thorough tier in sequence, log to target/thorough.log; the evidence each thorough run
# wrote is kept as evidence/thorough/<id>.json (evidence/<id>.json is rewritten by whichever tier ran last)
cd "$(dirname "$0")/.."
mkdir -p target
: > target/thorough.log
for c in C01 C02 C04 C05 C06 C07 C09 C10 C11 C12 C18 C19 C15 C16 C20 C08 C13 C17 C03 C14; do
  s=$(date +%s)
  ./check $c thorough > target/thorough-$c.out 2>&1
  rc=$?
  mkdir -p evidence/thorough && cp evidence/$c.json evidence/thorough/$c.json
  echo "$c rc=$rc $(( $(date +%s) - s ))s $(tail -1 target/thorough-$c.out)" >> target/thorough.log
done
echo DONE >> target/thorough.log
