#!/bin/bash
# tools/try_mutant.sh <mutant-dir> <demo-cmd-file|-> <check ids...>
# 1. confirms the seeded change in a scratch worktree: applies, pinned suite passes, (demo handled by caller)
# 2. applies it to /repo, runs the given checks (quick; thorough if quick stays silent), reverts /repo.
# Output: one line per check: "<mutant> <check> quick=<rc> [thorough=<rc>]"
set -u
M="$1"; shift
PATCH="$M/patch.diff"
name=$(basename "$M")
cd /repo
if ! git diff --quiet; then echo "REFUSING: /repo has uncommitted changes"; exit 9; fi
if ! git apply --check "$PATCH" 2>/dev/null; then echo "$name PATCH-DOES-NOT-APPLY"; exit 8; fi
git apply "$PATCH"
trap 'cd /repo && git checkout -- . && git clean -fdq src 2>/dev/null' EXIT
cd /verif
for c in "$@"; do
  ./check $c quick > /verif/target/mut-$name-$c-quick.out 2>&1; q=$?
  line="$name $c quick=$q"
  if [ $q -eq 0 ]; then
    ./check $c thorough > /verif/target/mut-$name-$c-thorough.out 2>&1; t=$?
    line="$line thorough=$t"
  fi
  echo "$line"
done
