#!/bin/bash
# tools/mutant_matrix.sh [names...]: for every seeded change (default: all), apply it to /repo, run every
# quick check (C19/C20 only where the change touches types / features), record the exit codes, revert.
# Output: /verif/target/matrix.csv  (mutant,check,rc)  rc: 0 silent, 1 VIOLATION, 2 machinery error
cd /verif
OUT=/verif/target/matrix.csv
[ -f $OUT ] || echo "mutant,check,tier,rc" > $OUT
names="$@"; [ -z "$names" ] && names=$(ls seeded)
for name in $names; do
  cd /repo
  if ! git diff --quiet; then echo "REFUSING: /repo dirty"; exit 9; fi
  if ! git apply --check /verif/seeded/$name/patch.diff 2>/dev/null; then echo "$name,APPLY,-,fail" >> $OUT; continue; fi
  git apply /verif/seeded/$name/patch.diff
  cd /verif
  checks="C01 C02 C03 C04 C05 C06 C07 C08 C09 C10 C11 C12 C13 C14 C15 C16 C17 C18"
  case $name in C19*|C20*|C07*) checks="$checks C19 C20";; esac
  for c in $checks; do
    ./check $c quick > /verif/target/mut-$name-$c.out 2>&1; rc=$?
    echo "$name,$c,quick,$rc" >> $OUT
  done
  cd /repo && git checkout -- . && cd /verif
done
echo "MATRIX-DONE" >> $OUT
