#!/bin/bash
# tools/lane_own.sh <lane> <out.csv> <mutants...>: like lane_matrix.sh, but only the change's own check
# (plus C19 / C20 for changes to types, headers or features) - the quick refresh after the checks changed.
L=/tmp/lane$1; OUT=$2; shift 2
export VERIF_REPO=$L/repo
for name in "$@"; do
  cd $L/repo
  git checkout -q -- .; git clean -fdq src
  if ! git apply --check /verif/seeded/$name/patch.diff 2>/dev/null; then echo "$name,APPLY,-,fail" >> $OUT; continue; fi
  git apply /verif/seeded/$name/patch.diff
  cd $L/verif
  checks="${name%%_*}"
  case $name in C19*) checks="C19";; C20*) checks="C20 C19";; C07*) checks="C07 C19";; esac
  for c in $checks; do
    ./check $c quick > $L/mut-$name-$c.out 2>&1; rc=$?
    echo "$name,$c,quick,$rc" >> $OUT
  done
  cd $L/repo && git checkout -q -- . && git clean -fdq src
done
echo "LANE-DONE" >> $OUT
