#!/bin/bash
# tools/lanes_setup.sh <n>: scratch copies of /verif (+ a worktree of /repo) under /tmp/lane<i> so that seeded
# changes can be tried in parallel without touching /repo or /verif. Not used by any registered check.
N=${1:-4}
for i in $(seq 1 $N); do
  L=/tmp/lane$i
  rm -rf $L/verif; mkdir -p $L
  [ -d $L/repo ] || git -C /repo worktree add -q --detach $L/repo HEAD
  git -C $L/repo checkout -q --detach $(git -C /repo rev-parse HEAD); git -C $L/repo checkout -q -- .; git -C $L/repo clean -fdq src
  cp /repo/Cargo.lock $L/repo/Cargo.lock
  rsync -a --exclude target --exclude .git --exclude evidence --exclude replays /verif/ $L/verif/
  mkdir -p $L/verif/evidence $L/verif/replays
  sed -i "s#path = \"/repo\"#path = \"$L/repo\"#" $L/verif/harness/Cargo.toml $L/verif/smoke/Cargo.toml
done
echo lanes ready
