#!/usr/bin/env python3
"""Prints the markdown table of DESIGN.md section 11.4 from /verif/seeded/*/meta.json."""
import glob, json, os

V = os.path.dirname(os.path.dirname(os.path.abspath(__file__)))
rows = []
for p in sorted(glob.glob(os.path.join(V, "seeded", "*", "meta.json"))):
    m = json.load(open(p))
    d = m["detection"]
    own = m["breaks_property"]
    caught = [c.split(":")[0] for c in d["checks_reporting_VIOLATION"]]
    tiers = {c.split(":")[0]: c.split(":")[1] for c in d["checks_reporting_VIOLATION"]}
    own_s = ("yes (%s)" % tiers[own]) if own in caught else "NO"
    others = ", ".join(c for c in caught if c != own) or "-"
    rows.append("| `%s` | %s | %s | %s | %s |" % (m["id"], own, m["needs_in_order_to_manifest"].replace("|", "/"), own_s, others))
print("| seeded change | breaks | needs in order to manifest | own check reports it | other checks reporting it |")
print("|---|---|---|---|---|")
print("\n".join(rows))
