#!/usr/bin/env python3
"""Writes /verif/seeded/<id>/meta.json for every seeded change from the table below plus the detection
matrix (/verif/target/matrix.csv, produced by tools/mutant_matrix.sh). Run after the matrix."""
import csv, json, os

V = os.path.dirname(os.path.dirname(os.path.abspath(__file__)))
DEMO = {
 "C03_pae_le64_msb_wrong_byte": 'cargo test --offline --test demo_pae_le64_msb',
 "C04_v3_local_prk_by_key_address": 'cargo test --offline --features v3_local --test demo_v3_local_key_slot',
 "C07_header_from_token_segments": 'cargo test --offline --test demo_c07_header_from_token',
 "C08_set_payload_resets_builder": 'cargo test --offline --test demo_c08_setter_order',
 "C10_nonce_ratchet_block0": 'cargo test --offline --test demo_c10_nonce_ratchet',
 "C11_expectation_replaces_rule": 'cargo test --offline --test demo_expectation_replaces_rule',
 "C12_default_rules_pigeonhole": 'cargo test --offline --test demo_default_rules_pigeonhole',
 "C14_blank_key_dropped": 'cargo test --offline --test demo_blank_key_dropped',
 "C18_error_excerpt_char_boundary": 'cargo test --offline --test demo_error_excerpt_char_boundary',
 "C19_generic_builder_v3_encrypt_any_purpose": 'bash mutants/C19_generic_builder_v3_encrypt_any_purpose/demo.sh',
 "C20_symkey_second_asref": 'cargo test --offline --no-default-features --features "core,v4_local,v2_local" --test demo_c20_symkey_second_asref   (passes with "core,v4_local" both ways)',
 "C01_v3_local_builder_else_if": 'cargo test --offline --features "v3_local" --test demo_c01_v3_local_builder_else_if',
 "C02_v1_public_parser_footer_dropped": 'cargo test --offline --features "v1_public" --test demo_c02_v1_public_parser_footer_dropped',
 "C02_v3_public_verify_low_s_only": 'cargo test --offline --features "v3_public" --test demo_c02_v3_public_verify_low_s_only',
 "C03_v2_public_utf8_before_verify": 'cargo test --offline --features v2_public --test demo_c03_v2_public_utf8_first',
 "C04_v1_local_empty_message_fast_path": 'cargo test --offline --features v1_local --test demo_c04_v1_local_empty_message',
 "C04_v3_public_pk_dropped_from_pae": 'cargo test --offline --features v3_public --test demo_c04_v3_public_pk_unbound',
 "C05_v2_local_no_aad": 'cargo test --offline --features "v2_local" --test demo_c05_v2_local_no_aad',
 "C06_v3_local_generic_layer_ignores_assertion": 'cargo test --offline --features "v3_local" --test demo_c06_v3_local_generic_layer_ignores_assertion',
 "C06_v3_public_assertion_needs_footer": 'cargo test --offline --features "v3_public" --test demo_c06_v3_public_assertion_needs_footer',
 "C07_footer_arm_no_header_check": 'cargo test --offline --test demo_c07_footer_arm',
 "C07_v3_public_header_unchecked": 'cargo test --offline --features "v3_public" --test demo_c07_v3_public_header',
 "C08_footer_b64_std_alphabet": 'cargo test --offline --test demo_c08_footer_b64',
 "C08_v3_local_assertion_taken": 'cargo test --offline --features "v3_local" --test demo_c08_v3_assertion_reuse',
 "C10_v1v2_process_seed": 'cargo test --offline --features "v1_local,v2_local,v3_local" --test demo_c10_v1v2_process_seed',
 "C13_v1_public_sign_first": 'cargo test --offline --features "v1_public" --test demo_c13_v1_public_sign_first',
 "C14_f32_widened": 'cargo test --offline --test demo_f32_widened',
 "C14_stale_payload_after_remove": 'cargo test --offline --test demo_stale_payload_after_remove',
 "C18_exp_negative_offset": 'cargo test --offline --test demo_exp_negative_offset',
 "C18_footer_keys_reserved": 'cargo test --offline --test demo_footer_keys_reserved',
 "C19_symmetric_key_any_purpose": 'sh mutants/C19_symmetric_key_any_purpose/demo.sh',
 "C19_private_key64_any_version": 'sh mutants/C19_private_key64_any_version/demo.sh',
 "C20_header_arm_gate": 'cargo test --offline --no-default-features --features "v1_public,batteries_included" --test demo_c20_header_arm_gate',
 "C20_expected_header_cache": 'cargo test --offline --test demo_c20_expected_header_cache',
 "C01_v2_local_min_length": 'cargo test --offline --features "v2_local" --test demo_c01_v2_local_min_length',
 "C02_v3_public_generic_assertion_taken": 'cargo test --offline --features "v3_public" --test demo_c02_v3_public_generic_assertion_taken',
 "C02_v3_public_key_prefix": 'cargo test --offline --features "v3_public" --test demo_c02_v3_public_key_prefix',
 "C03_v3_local_min_length": 'cargo test --offline --features v3_local --test demo_c03_v3_local_min_length',
 "C04_v3_public_key_cache_x_only": 'cargo test --offline --features v3_public --test demo_c04_v3_public_key_cache_x_only',
 "C08_pae_le64_msb": 'cargo test --offline --test demo_c08_pae_le64',
 "C08_v3_public_odd_y_key": 'cargo test --offline --features "v3_public" --test demo_c08_v3_public_key_parity',
 "C09_v3_local_guard": 'cargo test --offline --features "v3_local" --test demo_c09_v3_local_guard',
 "C19_generic_parser_ia_unbounded": 'sh mutants/C19_generic_parser_ia_unbounded/demo.sh   (from the worktree root; the script writes client programs into tests/ and builds them)',
 "C19_v1_verify_untyped_key": 'sh mutants/C19_v1_verify_untyped_key/demo.sh',
 "C20_ecdsa_from_gate": 'cargo test --offline --no-default-features --features "v1_public,v3_public,batteries_included" --test demo_c20_ecdsa_from_gate',
 "C20_v3_public_sha2": 'cargo test --offline --no-default-features --features "v3_public,batteries_included" --test demo_c20_v3_public_sha2',
}
T = {
 # name: (property, change, what it needs in order to manifest)
 "C01_v2_local_min_length": ("C01", "v2.local try_decrypt length guard `< 24` becomes `<= 24 + 16`", "v2.local (non-default feature), the empty message, core layer"),
 "C01_footer_compare_alphabet": ("C01", "footer comparison decodes the token's footer segment with the standard base64 alphabet instead of URL-safe", "a footer whose base64url form contains '-' or '_' (e.g. '?', '>', '~' or some non-ASCII at a particular byte alignment); any version and layer"),
 "C02_v3_public_key_prefix": ("C02", "v3 public-key prefix check `!= 2 && != 3` becomes `!(2..3).contains`", "v3.public and a key pair whose compressed point has prefix 03 (the official vector key is 02)"),
 "C02_v3_public_generic_assertion_taken": ("C02", "GenericBuilder<V3,Public>::try_sign uses self.implicit_assertion.take()", "v3.public, generic or batteries-included builder, an implicit assertion, and a SECOND build from the same builder"),
 "C03_footer_cmp_no_length": ("C03", "footer compare replaced by a hand-rolled zip/XOR loop without a length check", "the token's footer segment truncated to a prefix (incl. empty), extended, or appended to a footer-less token"),
 "C03_v3_local_min_length": ("C03", "v3.local length guard 32+48 becomes 32+32 (copied from v4)", "v3.local, a payload decoding to 64..=79 bytes: panic instead of an error"),
 "C04_parser_verified_memo": ("C04", "GenericParser memoises the last authenticated token string and payload; the key is not part of the memo key", "two parses on ONE parser object: parse(T, K) succeeds, then parse(T, K') returns Ok for any K'"),
 "C04_v3_public_key_cache_x_only": ("C04", "process-wide one-entry cache of the decompressed P-384 key keyed by the x coordinate only", "v3.public; verify with the signer's key first, then with the same x and the other parity prefix"),
 "C05_zip_compare": ("C05", "constant_time_equals replaced by zip/XOR fold without length check", "correct expected footer, token footer segment truncated or extended"),
 "C05_std_alphabet": ("C05", "Base64Encodable::encode (footer only) uses the standard alphabet on both sides", "a footer yielding a 6-bit group of 62 or 63 ('?', '>', '~' as third byte of a group, some non-ASCII): the segment then contains '/' or '+'; self-consistent round trip"),
 "C06_builder_take": ("C06", "GenericBuilder<V4,Local>::try_encrypt uses self.implicit_assertion.take()", "a SECOND build from the same builder (v4.local, generic or batteries-included layer): later tokens carry no assertion"),
 "C06_parser_skip_empty": ("C06", "GenericParser::set_implicit_assertion stores the value only when non-empty", "one parser: set_implicit_assertion(A) and later set_implicit_assertion(\"\") - the second call is ignored"),
 "C07_header_and": ("C07", "header check compares version and purpose separately and joins them with && instead of ||", "a token whose header differs from the entry point's in exactly one segment, carrying a payload authentic for the receiving protocol"),
 "C07_header_cache": ("C07", "expected header memoised in a function-local static shared by all Paseto<V,P> instantiations", "two protocols used in one process: the first one used fixes the expected header for all"),
 "C08_pae_le64_msb": ("C08", "PAE le64 masks every byte with & 127 instead of & 255 (both sides)", "a PAE piece (message, footer, assertion) whose length has bit 7 set in some byte, e.g. 128..=255 bytes; round trips still work"),
 "C08_v3_public_odd_y_key": ("C08", "same half-open range slip as C02_v3_public_key_prefix", "v3.public key with prefix 03"),
 "C09_v3_local_guard": ("C09", "v3.local length guard 32+32 instead of 32+48", "v3.local header followed by a payload of decoded length 64..=79"),
 "C09_header_char_boundary": ("C09", "header check refactored to raw_token.split_at(expected_header.len())", "a multi-byte UTF-8 character straddling byte offset 9 (local) / 10 (public) of a 3- or 4-segment string"),
 "C10_builder_nonce_seed": ("C10", "local try_encrypt impls share a lazy nonce_seed() stored in the builder and never cleared", "a SECOND try_encrypt / build on the same builder object"),
 "C10_random_pool_wrap": ("C10", "Key::try_new_random draws from a per-thread 4096-byte pool that is never refilled after exhaustion", "more than 4096 random bytes drawn in one thread: from build #129 (v2: #171) every seed is all-zero"),
 "C11_exp_offset_replace": ("C11", "exp validator normalises with replace_offset(UTC) (keeps local time) instead of to_offset", "exp with a non-zero UTC offset and an instant closer to now than that offset"),
 "C11_placeholder_shortcut": ("C11", "verify_claims skips the validator when the token value equals the registered (placeholder) value", "exp byte-for-byte equal to the ExpirationClaim::default() placeholder 2019-01-01T00:00:00+00:00"),
 "C12_nbf_blank_is_absent": ("C12", "nbf validator folds null test and string extraction into as_str().unwrap_or_default()/is_empty", "nbf of a non-string JSON type or the empty string"),
 "C12_nbf_iso8601_format": ("C12", "nbf validator parses with Iso8601::DEFAULT instead of Rfc3339", "ISO-only renderings (no seconds, basic format, +hh offset) accepted; space separator rejected"),
 "C13_eager_ack": ("C13", "acknowledgement removes exp immediately and no longer registers the key; build no longer removes exp", "acknowledgement BEFORE set_claim(exp) on the same builder: the token carries exp"),
 "C13_exp_whole_seconds": ("C13", "default exp computed from whole unix seconds (sub-second part dropped) while iat/nbf keep it", "a builder created at an instant that is not a whole second and an exact check of exp - iat"),
 "C17_take_dup_flag": ("C17", "verify_ready_to_build mem::take()s the duplicate flag", "a SECOND build after the first failed with the duplicate error"),
 "C17_nbf_else_branch": ("C17", "set_claim's two ifs fused into if nbf {..} else if !insert {..}: nbf is never recorded as seen", "the repeated key must be nbf"),
 "C14_double_unwrap": ("C14", "the {key: value} envelope stripping is applied a second time at build", "a claim whose value is an object with exactly one member named like the claim key"),
 "C14_null_clears_claim": ("C14", "a JSON null value is not stored and removes the previous value", "a top-level null value and a check that the key is a member of the parsed object"),
 "C18_owned_key_unchecked": ("C18", "TryFrom<(String, T)> for CustomClaim no longer checks the reserved keys", "the owned-key constructor form with one of the seven reserved keys"),
 "C18_nbf_trimmed_validation": ("C18", "NotBeforeClaim constructors validate value.trim() but store the untrimmed value", "nbf only, a date-time with leading whitespace"),
 "C15_render_compare": ("C15", "expected-vs-actual comparison on the rendered text instead of JSON values", "an expected value differing from the token's only in JSON type (\"4\" vs 4, \"true\" vs true)"),
 "C15_expected_cache": ("C15", "a RefCell cache of each expected claim's JSON form that is never invalidated", "one parser: check_claim(K=a), parse, check_claim(K=b), parse"),
 "C16_either_or": ("C16", "validator and expected-value steps merged into one either/or match", "the same key has a validator and an expected value: the validator is never called (PasetoParser::default().check_claim(exp) accepts an expired token)"),
 "C16_absent_skipped": ("C16", "validator call sites use json.get(key): called only when the member exists", "a validator that must see null for an absent claim"),
 "C19_v1_verify_untyped_key": ("C19", "Paseto::<V1,Public>::try_verify takes &impl AsRef<[u8]> instead of the typed public key", "v1.public core-layer verify: any key type-checks"),
 "C19_generic_parser_ia_unbounded": ("C19", "GenericParser's set_implicit_assertion moved into the unbounded impl block", "GenericParser::<V1|V2, _>::set_implicit_assertion compiles"),
 "C20_ecdsa_from_gate": ("C20", "the #[from] gate on ECSDAError names v2_public/v4_public instead of the ed25519-dalek dependency", "v3_public + v1_public without v2_public / v4_public: E0119"),
 "C20_v3_public_sha2": ("C20", "sha2 dropped from the v3_public feature list", "v3_public enabled without v1_local / v3_local: unresolved sha2"),
 # ---- round 2 (agents were told the round-1 list and asked for other code sites / other kinds of trigger)
 "C01_v3_local_builder_else_if": ("C01", "GenericBuilder<V3,Local>::try_encrypt: the two if-lets fused into if footer .. else if assertion", "v3.local, generic / batteries-included builder, BOTH a footer and an implicit assertion set"),
 "C01_explicit_empty_footer_two_sites": ("C01", "format_token emits '.' for an explicit empty footer again AND the 4-segment arm rejects when the expected footer is empty (each harmless alone)", "an explicitly set empty footer on the producing side"),
 "C02_v1_public_parser_footer_dropped": ("C02", "GenericParser<V1,Public>::parse passes None instead of the configured footer", "v1.public, generic / batteries-included parser, a non-empty footer"),
 "C02_v3_public_verify_low_s_only": ("C02", "v3.public try_verify refuses signatures whose s is not normalised (the signer does not normalise)", "v3.public and a message whose RFC 6979 signature has a high s (about half of the messages)"),
 "C03_payload_b64_lenient": ("C03", "payload segment decoded with a lenient base64 engine (padding indifferent, trailing bits allowed)", "a non-canonical spelling of the same payload bytes: '=' appended or unused low bits set"),
 "C03_v2_public_utf8_before_verify": ("C03", "v2.public try_verify converts the message to UTF-8 before verifying the signature", "v2.public, a message-byte alteration that yields invalid UTF-8, and a check of the error class"),
 "C04_v3_public_pk_dropped_from_pae": ("C04", "v3.public drops the public key from the PAE on both sides", "a wrong key that is mathematically recovered from the token's own ECDSA signature (the second candidate of public-key recovery)"),
 "C04_v1_local_empty_message_fast_path": ("C04", "v1.local try_decrypt returns Ok(\"\") for an 80-byte payload before deriving keys or comparing the tag", "v1.local, core layer, the empty message: any key decrypts it"),
 "C05_v2_local_no_aad": ("C05", "v2.local XChaCha20-Poly1305 calls without AAD on both sides: the footer is no longer authenticated", "v2.local and a presentation that changes the footer segment AND the expected footer together"),
 "C05_footer_trim_end": ("C05", "Footer::from stores s.trim_end()", "a footer ending in Unicode white space: interchangeable with the bare footer, segment is not base64url(F)"),
 "C06_v3_public_assertion_needs_footer": ("C06", "GenericBuilder<V3,Public>::try_sign: match on (footer, assertion) whose wildcard arm swallows (None, Some(assertion))", "v3.public, builder layers, an assertion set and set_footer never called"),
 "C06_v3_local_generic_layer_ignores_assertion": ("C06", "GenericBuilder<V3,Local> and GenericParser<V3,Local> both stop forwarding the assertion (self-consistent)", "v3.local at the generic / batteries-included layer and a negative test or a cross-layer test"),
 "C07_footer_arm_no_header_check": ("C07", "parse_raw_token rewritten as a slice-pattern match whose 4-segment arm never checks the header", "a token WITH a footer segment, relabelled with a foreign header, payload authentic for the receiving protocol"),
 "C07_v3_public_header_unchecked": ("C07", "header check moved into a helper that v3_public.rs forgets to call", "v3.public entry points: any foreign header with an authentic v3.public payload"),
 "C08_footer_b64_std_alphabet": ("C08", "same change as C05_std_alphabet, delivered for C08", "a footer yielding base64 values 62 / 63"),
 "C08_v3_local_assertion_taken": ("C08", "Paseto::<V3,Local>::try_encrypt take()s the implicit assertion", "v3.local, CORE layer, one Paseto builder object used for a second try_encrypt"),
 "C09_footer_ct_compare": ("C09", "footer compare replaced by a fold that indexes the token's footer segment by the expected footer's length", "four segments, a non-empty expected footer and a footer segment shorter than its base64url: index out of bounds"),
 "C09_nbf_utc_message": ("C09", "the default nbf validator formats its error with to_offset(UTC), which panics when the UTC year exceeds 9999", "batteries-included default parser, authentic token with nbf = 9999-12-31T23:59:59 and a negative offset"),
 "C10_v1v2_process_seed": ("C10", "v1/v2 builders take the nonce-derivation seed from one process-wide static instead of a fresh draw", "v1 or v2, two builds with byte-identical payloads in one process (new builder each time suffices)"),
 "C10_per_thread_draw_counter": ("C10", "try_new_random draws from a process-wide HKDF generator whose draw counter is thread-local", "tokens issued from two or more threads: the k-th draw of every thread is identical"),
 "C11_verified_payload_cache": ("C11", "GenericParser caches the last payload that passed verify_claims (cleared on configuration calls only)", "one parser reused: accepted while exp was ahead, then the same token after exp has passed"),
 "C11_exp_clock_skew": ("C11", "a symmetric 60 s clock-skew tolerance in both default validators", "an exp within the last 60 seconds"),
 "C12_nbf_wait_nanos_i64": ("C12", "nbf comparison through whole_nanoseconds() as i64 (wraps at 292 years)", "an nbf more than about 292 years ahead that falls into a wrap band"),
 "C12_ordered_claims_break": ("C12", "claims map becomes a BTreeMap and the loop breaks (instead of continues) on an absent optional claim", "a token without exp together with a future / malformed nbf"),
 "C13_payload_cache": ("C13", "GenericBuilder memoises the rendered payload; remove_claim does not invalidate it", "one builder: build, acknowledge, build - later tokens still carry exp"),
 "C13_v1_public_sign_first": ("C13", "PasetoBuilder<V1,Public>::build signs before verify_ready_to_build", "v1.public, acknowledgement, first token built after it"),
 "C17_case_folded_keys": ("C17", "the seen-keys set stores keys lower-cased", "two distinct keys that differ only in ASCII case: false duplicate error"),
 "C17_ack_breaks_key_order": ("C17", "seen keys kept in a sorted Vec with binary_search; the acknowledgement push()es exp and breaks the order", "[k, acknowledge, k, build] for a key sorting after exp: the duplicate is missed"),
 "C14_stale_payload_after_remove": ("C14", "GenericBuilder payload cache not invalidated by remove_claim", "set, build, remove_claim, build on one builder"),
 "C14_f32_widened": ("C14", "claims serialised with serde_json::to_value (f32 widened to f64)", "a native f32 that is inexact in binary, e.g. 0.1f32"),
 "C18_footer_keys_reserved": ("C18", "RESERVED_CLAIMS grows by kid and wpk", "a custom claim keyed exactly kid or wpk"),
 "C18_exp_negative_offset": ("C18", "ExpirationClaim constructors additionally require a trailing Z or a '+'", "exp with a negative numeric UTC offset"),
 "C15_number_precision": ("C15", "Cargo.toml: serde_json gets the arbitrary_precision feature (Number equality becomes textual)", "an expected numeric claim and a token spelling the same number differently (1.50, 15e-1)"),
 "C15_utc_rendering": ("C15", "time-claim constructors rewrite a trailing Z to +00:00", "an expected exp / nbf / iat written with Z and a token carrying exactly that string"),
 "C16_first_validator_wins": ("C16", "claim_validators.entry(key).or_insert_with: the first validator registered for a key wins", "a second validate_claim for the same key (e.g. overriding the default exp validator)"),
 "C16_validator_runs_twice": ("C16", "second validator loop guarded by the wrong set: validate_claim validators run twice per parse", "an observer of the invocation count"),
 "C19_symmetric_key_any_purpose": ("C19", "From<Key<32>> for PasetoSymmetricKey generalised over Purpose", "PasetoSymmetricKey::<V, Public>::from compiles"),
 "C19_private_key64_any_version": ("C19", "From<&Key<64>> for the private key loosened from V2orV4 to any version", "PasetoAsymmetricPrivateKey::<V1|V3, Public> from &Key<64> compiles"),
 "C20_expected_header_cache": ("C20", "expected header cached in a static shared by all monomorphisations", "two different protocols parsed in one process"),
 "C20_header_arm_gate": ("C20", "header statics / match arms feature-gated, v1.public's on v1_local", "v1_public enabled without v1_local: tokens lack the header, round trip fails"),
 # ---- round 3 (one per property, "the most devious realistic change", both earlier lists known to the agent)
 "C01_core_builder_payload_last": ("C01", "Paseto::set_payload rebuilds the builder from builder(): a footer / assertion set BEFORE the payload is lost", "core layer, set_footer or set_implicit_assertion called before set_payload"),
 "C02_payload_trailing_line_break": ("C02", "Payload::from(&str) trims trailing CR / LF", "core layer, a message ending in a line break: the token verifies and returns a shortened message"),
 "C03_pae_le64_msb_wrong_byte": ("C03", "le64 clears bit 7 of byte 0 instead of byte 7: lengths n and n+128 encode alike (both sides)", "a footer >= 128 bytes crafted so that moving 128 bytes between PAE pieces keeps the PAE identical"),
 "C04_v3_local_prk_by_key_address": ("C04", "v3.local HKDF-Extract cached per thread, keyed by the ADDRESS of the key object", "v3.local, key K used, then another key whose object sits at the same address"),
 "C05_set_payload_resets_builder": ("C05", "same change as C01_core_builder_payload_last, delivered for C05", "core layer, footer set before the payload or payload replaced on a configured builder: token has no footer"),
 "C06_pae_le64_msb_wrong_byte": ("C06", "same le64 change as C03_pae_le64_msb_wrong_byte, delivered for C06", "an assertion >= 128 bytes with a crafted length marker: a proper suffix of A (or none) is accepted"),
 "C07_header_from_token_segments": ("C07", "parse_raw_token no longer compares headers; the PAE header is taken from the token's own first two segments", "a hybrid token no implementation emits: Y's algorithm over a PAE naming X's header, with X's header in the text"),
 "C08_set_payload_resets_builder": ("C08", "same change as C01_core_builder_payload_last, delivered for C08", "core layer, setters called in another order than payload-first"),
 "C09_key_hex_whitespace": ("C09", "Key::try_from(&str): early length reject on the raw string, decode of value.trim(), post-check relaxed to > KEYSIZE", "too few hex digits padded with white space to at least 2N characters: copy_from_slice panics"),
 "C10_nonce_ratchet_block0": ("C10", "nonces come from a per-thread HMAC ratchet seeded from the system RNG; an off-by-one publishes the generator's next state", "an observer who knows the construction predicts every later nonce of the thread; nothing ever repeats, statistics are perfect"),
 "C11_expectation_replaces_rule": ("C11", "check_claim now also removes the validator registered for the key", "PasetoParser::default().check_claim(exp = x) and a token whose exp is exactly x, in the past"),
 "C12_default_rules_pigeonhole": ("C12", "default rules registered through extend_validation_claims + the claim-less validator loop guarded by validators.len() > claims.len()", "PasetoParser::default() with two or more check_claim expectations on other claims, and a bad nbf / expired exp"),
 "C13_claim_entry_rekeyed": ("C13", "set_claim files a one-entry-object claim under the entry's own name", "an application-defined impl PasetoClaim serialising as {\"exp\": ..} under another key silently overwrites exp"),
 "C17_dup_key_sentinel": ("C17", "the duplicate record becomes a String where empty means none", "the legal empty-string key supplied twice (also pardons an earlier real duplicate)"),
 "C14_blank_key_dropped": ("C14", "set_claim's empty-key guard becomes key.trim().is_empty()", "a claim whose key is white space only"),
 "C18_error_excerpt_char_boundary": ("C18", "the rejected value echoed in the RFC3339Date error is cut at byte 64 without regard to character boundaries", "a non-date longer than 64 bytes with a multi-byte character straddling byte 64: panic"),
 "C15_null_expectation": ("C15", "the presence test moved inside the values-differ branch", "an expected claim whose value serialises to null and a token lacking it: Ok instead of the missing-claim error"),
 "C16_nonobject_payload": ("C16", "verify_claims wrapped in if let Some(object) = json.as_object()", "an authentic token whose payload is valid JSON but not an object: no validator runs, parse succeeds"),
 "C19_generic_builder_v3_encrypt_any_purpose": ("C19", "impl GenericBuilder<V3, Local> { try_encrypt } generalised over Purpose", "GenericBuilder::<V3, Public>::try_encrypt(&v3_local_key) compiles"),
 "C20_symkey_second_asref": ("C20", "a second AsRef impl on PasetoSymmetricKey gated on the chacha20poly1305 dependency (v2_local)", "client code calling key.as_ref().len() stops compiling once v2_local is enabled next to another local protocol"),
}

def main():
    rows = []
    p = os.path.join(V, "target", "matrix.csv")
    if os.path.exists(p):
        last = {}
        for r in csv.DictReader(open(p)):
            if r.get("check") and r.get("rc") is not None:
                last[(r["mutant"], r["check"], r["tier"])] = r  # a later run of the same pair replaces the earlier one
        rows = list(last.values())
    for name, (prop, change, needs) in T.items():
        d = os.path.join(V, "seeded", name)
        if not os.path.isdir(d):
            print("missing", name)
            continue
        mine = [r for r in rows if r["mutant"] == name]
        caught = sorted({r["check"] + ":" + r["tier"] for r in mine if r["rc"] == "1"})
        silent = sorted({r["check"] for r in mine if r["rc"] == "0"} - {c.split(":")[0] for c in caught})
        mach = sorted({r["check"] for r in mine if r["rc"] == "2"})
        demo = DEMO.get(name, "cargo test --offline --test demo_%s" % name.lower())
        meta = {
            "id": name,
            "breaks_property": prop,
            "change": change,
            "needs_in_order_to_manifest": needs,
            "origin": "written by a fresh sub-agent that was given only the property text and its own scratch worktree of /repo (nothing from /verif)",
            "confirmed_by_me": {
                "worktree": "scratch worktree of /repo at c367bfd under /tmp (removed afterwards)",
                "pinned_suite_with_change": "cargo nextest run --workspace --no-fail-fast --offline -> 36 passed",
                "demo_command": demo + "   (demo.rs copied to tests/<name>.rs first)" if not demo.startswith("sh ") else demo,
                "demo_with_change": "fails",
                "demo_without_change": "passes",
            },
            "detection": {
                "how_run": "git -C /repo apply seeded/%s/patch.diff; ./check <Cxx> quick for every harness check (tools/mutant_matrix.sh); git -C /repo checkout -- ." % name,
                "checks_reporting_VIOLATION": caught,
                "checks_silent": silent,
                "checks_machinery_error": mach,
                "caught_by_own_property_check": any(c.split(":")[0] == prop for c in caught),
            },
        }
        json.dump(meta, open(os.path.join(d, "meta.json"), "w"), indent=1)
    print("wrote", len(T))

main()
