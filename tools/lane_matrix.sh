#!/bin/bash
# tools/lane_matrix.sh <lane> <out.csv> <mutants...>: like mutant_matrix.sh but inside /tmp/lane<lane>
L=/tmp/lane$1; OUT=$2; shift 2
export VERIF_REPO=$L/repo
for name in "$@"; do
  cd $L/repo
  git checkout -q -- .; git clean -fdq src
  if ! git apply --check /verif/seeded/$name/patch.diff 2>/dev/null; then echo "$name,APPLY,-,fail" >> $OUT; continue; fi
  git apply /verif/seeded/$name/patch.diff
  cd $L/verif
  checks="C01 C02 C03 C04 C05 C06 C07 C08 C09 C10 C11 C12 C13 C14 C15 C16 C17 C18"
  case $name in C19*|C20*|C07*) checks="$checks C19 C20";; esac
  for c in $checks; do
    ./check $c quick > $L/mut-$name-$c.out 2>&1; rc=$?
    echo "$name,$c,quick,$rc" >> $OUT
  done
  cd $L/repo && git checkout -q -- . && git clean -fdq src
done
echo "LANE-DONE $1" >> $OUT
