#!/bin/bash
# MANIFEST.setup_cmd: build the framework from files on disk only (offline).
set -u
cd "$(dirname "$0")"
export CARGO_NET_OFFLINE=true
mkdir -p target evidence replays
# C20 smoke crate: lock file + warm one worker directory, then clone it for the other workers
[ -f smoke/Cargo.lock ] || cp /repo/Cargo.lock smoke/Cargo.lock 2>/dev/null || cp harness/Cargo.lock smoke/Cargo.lock
if [ ! -d target/c20/w0 ]; then
  CARGO_TARGET_DIR=target/c20/w0 cargo build --offline -q --manifest-path smoke/Cargo.toml --no-default-features \
     --features v1_local,v2_local,v3_local,v4_local,v1_public,v2_public,v3_public,v4_public,batteries_included 2>/dev/null || true
  CARGO_TARGET_DIR=target/c20/w0 cargo build --release --offline -q --manifest-path smoke/Cargo.toml --no-default-features \
     --features v1_local,v2_local,v3_local,v4_local,v1_public,v2_public,v3_public,v4_public,batteries_included 2>/dev/null || true
fi
for i in $(seq 1 15); do
  [ -d target/c20/w$i ] || cp -r target/c20/w0 target/c20/w$i
done
if [ -f harness/Cargo.toml ]; then
  RUSTFLAGS="--cfg rusty_paseto_verif -C target-cpu=native" CARGO_TARGET_DIR=target/harness \
    cargo build --release --offline -q --manifest-path harness/Cargo.toml || { echo "setup: harness build failed"; exit 1; }
  RUSTFLAGS="--cfg rusty_paseto_verif -C target-cpu=native" CARGO_TARGET_DIR=target/harness \
    cargo build --profile checked --offline -q --manifest-path harness/Cargo.toml || { echo "setup: harness (checked) build failed"; exit 1; }
  # the reduced feature configurations of the harness used by C01-C09 (quick: each protocol alone); one target
  # directory each, so that later builds only recompile what /repo's working tree changed
  for f in v1_local v2_local v3_local v4_local v1_public v2_public v3_public v4_public; do
    RUSTFLAGS="--cfg rusty_paseto_verif -C target-cpu=native" CARGO_TARGET_DIR=target/cfg/$f \
      cargo build --profile cfgs --offline -q --manifest-path harness/Cargo.toml --no-default-features --features $f || { echo "setup: harness ($f only) build failed"; exit 1; }
  done
fi
echo "setup ok"
